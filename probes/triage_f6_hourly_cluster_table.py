import numpy as np, pandas as pd, logging, warnings, json
warnings.filterwarnings("ignore"); logging.disable(logging.CRITICAL)
from opendsm.eemeter.models.hourly.data import HourlyReportingData, HourlyBaselineData
from opendsm.eemeter.models.hourly.model import HourlyModel
import opendsm.eemeter.models.hourly.model as hm
# sandbox-only: sklearn 1.9 broke the repo's BisectingKMeans subclass; stand-in labelling (weekday/weekend) for the clustering step
hm._cluster_temporal_features = lambda X, *a, **k: (np.arange(len(X)) % 7 >= 5).astype(int)
def mk(start, n):
    idx = pd.date_range(start, periods=n, freq="h", tz="America/Chicago")
    rng = np.random.default_rng(1)
    T = 60+25*np.sin((idx.dayofyear.values-100)/365*2*np.pi)+8*np.sin(idx.hour.values/24*2*np.pi)
    y = 1+0.03*np.abs(T-65)+0.3*(idx.dayofweek.values<5)*np.sin(idx.hour.values/24*np.pi)+0.05*rng.random(n)
    return pd.DataFrame({"temperature": T, "observed": y}, index=idx)
base = HourlyBaselineData(mk("2021-01-01", 24*365), is_electricity_data=True)
m = HourlyModel(settings={"seed": 3}).fit(base, ignore_disqualification=True)
js0 = m.to_json()
year = HourlyReportingData(mk("2022-01-01", 24*365), is_electricity_data=True)
week = HourlyReportingData(mk("2022-01-03", 24*7), is_electricity_data=True)
p_fresh = HourlyModel.from_json(js0).predict(year, ignore_disqualification=True)["predicted"]
m2 = HourlyModel.from_json(js0)
m2.predict(week, ignore_disqualification=True)
print("cluster table rows before/after predict(week):", len(json.loads(js0)["temporal_clusters"]), "->", len(m2._df_temporal_clusters))
p_after = m2.predict(year, ignore_disqualification=True)["predicted"]
print("predict(year) identical to fresh model:", bool(np.array_equal(p_fresh.values, p_after.values)), "max abs diff", float(np.nanmax(np.abs(p_fresh.values-p_after.values))))
