"""probe: C14 -- static defaults of the daily settings tree vs (a) asserts in tests/test_config.py, (b) the documented settings block (throwaway)"""
import ast, pathlib, json, re
R = pathlib.Path('/repo')
def mod(p): return ast.parse((R/p).read_text())
ts = mod('opendsm/eemeter/models/daily/utilities/settings.py')
topt = mod('opendsm/eemeter/models/daily/utilities/opt_settings.py')
enums = {}
for t in (ts, topt):
    for c in t.body:
        if isinstance(c, ast.ClassDef) and any(ast.unparse(b)=='Enum' for b in c.bases):
            for s in c.body:
                if isinstance(s, ast.Assign): enums[f"{c.name}.{s.targets[0].id}"]=ast.literal_eval(s.value)
classes = {c.name:c for c in ts.body if isinstance(c, ast.ClassDef)}
def fields(cname, seen=None):
    c = classes[cname]; out={}
    for b in c.bases:
        bn=ast.unparse(b)
        if bn in classes: out.update(fields(bn))
    for s in c.body:
        if isinstance(s, ast.AnnAssign) and isinstance(s.value, ast.Call):
            kw={k.arg:k.value for k in s.value.keywords}
            d = kw.get('default'); df = kw.get('default_factory')
            if df is not None: val=('factory', ast.unparse(df))
            else:
                src=ast.unparse(d)
                val = enums[src] if src in enums else ast.literal_eval(d)
            out[s.target.id]={'default':val,'developer': ast.literal_eval(kw['developer']) if 'developer' in kw else False}
    return out
def flat(cname, pre=''):
    out={}
    for k,v in fields(cname).items():
        if isinstance(v['default'], tuple) and v['default'][0]=='factory':
            out.update(flat(v['default'][1], pre+k+'.'))
        else: out[pre+k]=v['default']
    return out
D = flat('DailySettings'); L = flat('DailyLegacySettings')
print(len(D), "daily leaf defaults;", {k:(D[k],L[k]) for k in D if D[k]!=L[k]})
# (a) test asserts
tt = mod('tests/daily_model/utilities/test_config.py')
f=[n for n in tt.body if isinstance(n, ast.FunctionDef) and n.name=='test_default_settings'][0]
ok=0; bad=[]
for a in f.body:
    if isinstance(a, ast.Assert) and isinstance(a.test, ast.Compare):
        left=ast.unparse(a.test.left).replace('settings.','',1).replace('.lower()','')
        exp=ast.literal_eval(a.test.comparators[0])
        got=D.get(left)
        if got==exp: ok+=1
        else: bad.append((left,exp,got))
print("test oracle:", ok, "agree;", bad)
# (b) docs block
md=(R/'docs/source/learn/daily_billing_model.md').read_text()
i=md.index('"settings": {', md.index('"baseline_timezone"')); depth=0; j=i+len('"settings": ')
for k in range(j, len(md)):
    if md[k]=='{': depth+=1
    elif md[k]=='}':
        depth-=1
        if depth==0: break
doc=json.loads(md[j:k+1])
rename={'allow_separate_shoulder':'split_selection.allow_separate_shoulder','allow_separate_summer':'split_selection.allow_separate_summer','allow_separate_winter':'split_selection.allow_separate_winter','allow_separate_weekday_weekend':'split_selection.allow_separate_weekday_weekend','reduce_splits_by_gaussian':'split_selection.reduce_splits_by_gaussian','reduce_splits_num_std':'split_selection.reduce_splits_num_std','split_selection_criteria':'split_selection.criteria','split_selection_penalty_multiplier':'split_selection.penalty_multiplier','split_selection_penalty_power':'split_selection.penalty_power','maximum_slope_OoM_scaler':'maximum_slope_oom_scalar','smoothed_model':'allow_smooth_model'}
months=['january','february','march','april','may','june','july','august','september','october','november','december']
days=['monday','tuesday','wednesday','thursday','friday','saturday','sunday']
ok=0; bad=[]; unmapped=[]
for k,v in doc.items():
    if k=='season':
        for m,val in v.items():
            got=D['season.'+months[int(m)-1]]; ok+= got==val; bad += [] if got==val else [(k,m,val,got)]
    elif k=='is_weekday':
        for d,val in v.items():
            got=D['weekday_weekend.'+days[int(d)-1]]; e='weekday' if val else 'weekend'; ok+= got==e; bad += [] if got==e else [(k,d,e,got)]
    else:
        key=rename.get(k,k)
        if key in D:
            if D[key]==v: ok+=1
            else: bad.append((k,v,D[key]))
        else: unmapped.append(k)
print("docs oracle:", ok, "agree;", bad, "unmapped:", unmapped)
