"""probe: C01/C12 coefficient-vector conventions across the five sites; ModelCoefficients construction vs to_np_array reads (throwaway)"""
import ast, pathlib
R = pathlib.Path('/repo/opendsm/eemeter/models/daily')
def mod(rel): return ast.parse((R/rel).read_text())
def find(t, name):
    for n in ast.walk(t):
        if isinstance(n,(ast.FunctionDef,ast.ClassDef)) and n.name==name: return n
def str_lists(fn):
    out=[]
    for n in ast.walk(fn):
        if isinstance(n, ast.List) and n.elts and all(isinstance(e, ast.Constant) and isinstance(e.value,str) for e in n.elts):
            out.append(tuple(e.value for e in n.elts))
    return out
tr = mod('optimize_results.py'); tp = mod('parameters.py'); tf = mod('base_models/full_model.py')
sites = {
 'reduce_model': set(str_lists(find(tr,'reduce_model'))),
 '_set_model_key': set(str_lists(find(tr,'_set_model_key'))),
 'from_np_arrays': set(str_lists(find(tp,'from_np_arrays'))),
}
for k,v in sites.items(): print(k, sorted(v, key=len))
print("same five shapes at three sites:", sites['reduce_model']==sites['_set_model_key']==sites['from_np_arrays'], len(sites['reduce_model']))
# fit functions' coef_id
for rel,fn in [('base_models/hdd_tidd_cdd.py','fit_hdd_tidd_cdd'),('base_models/c_hdd_tidd.py','fit_c_hdd_tidd'),('base_models/tidd.py','fit_tidd')]:
    print(fn, [l for l in str_lists(find(mod(rel),fn))])
# to_np_array per ModelType
tn = find(tp,'to_np_array')
per_type={}
def walk_if(node):
    if isinstance(node, ast.If):
        ty = ast.unparse(node.test).split('ModelType.')[-1]
        ret=[s for s in node.body if isinstance(s, ast.Return)][0]
        arr = ret.value.args[0]
        per_type[ty]=[e.attr for e in arr.elts]
        for o in node.orelse: walk_if(o)
for s in tn.body: walk_if(s)
print("to_np_array:", per_type)
# get_full_model_x unpack per model_key
gx = find(tf,'get_full_model_x'); unpack={}
def walk_if2(node):
    if isinstance(node, ast.If):
        key = ast.literal_eval(node.test.comparators[0])
        a=[s for s in node.body if isinstance(s, ast.Assign) and ast.unparse(s.value)=='x'][0]
        unpack[key]=[e.id for e in a.targets[0].elts]
        for o in node.orelse: walk_if2(o)
for s in gx.body: walk_if2(s)
print("get_full_model_x:", unpack)
# model_key mapping ModelType -> key
mk = find(tp,'model_key'); 
print(ast.unparse(mk).replace('\n',' ')[:400])
# ModelCoefficients(...) construction sites: which kwargs may be None per model_type
for rel in ['parameters.py','base_models/c_hdd_tidd.py','base_models/tidd.py','base_models/hdd_tidd_cdd.py']:
    t=mod(rel)
    for n in ast.walk(t):
        if isinstance(n, ast.Call) and ast.unparse(n.func) in ('ModelCoefficients','cls') and any(k.arg=='model_type' for k in n.keywords):
            print(rel, n.lineno, {k.arg: ast.unparse(k.value)[:28] for k in n.keywords})
