import numpy as np, pandas as pd, logging
logging.disable(logging.CRITICAL)
from opendsm.eemeter.models.hourly.data import HourlyReportingData, HourlyBaselineData
idx = pd.date_range("2021-01-01", periods=24*365, freq="h", tz="America/Chicago")
rng = np.random.default_rng(0)
df = pd.DataFrame({"temperature": 60+10*np.sin(np.arange(len(idx))/24/58), "observed": 1+rng.random(len(idx))}, index=idx)
r = HourlyReportingData(df, is_electricity_data=True)
print("full data       :", [w.qualified_name for w in r.disqualification])
d2 = df.copy(); d2.loc[d2.index[:24*60], "observed"] = np.nan   # 60 days of usage missing, temperature complete
r = HourlyReportingData(d2, is_electricity_data=True)
print("usage gaps      :", [w.qualified_name for w in r.disqualification])
r = HourlyReportingData(df[["temperature"]], is_electricity_data=True)
print("temperature only:", [w.qualified_name for w in r.disqualification])
