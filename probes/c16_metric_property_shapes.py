import ast, pathlib
t = ast.parse(pathlib.Path('/repo/opendsm/common/metrics.py').read_text())
for c in t.body:
    if isinstance(c, ast.ClassDef) and c.name in ("ColumnMetrics","BaselineMetrics","ReportingMetrics"):
        for m in c.body:
            if isinstance(m, ast.FunctionDef):
                body=[s for s in m.body if not (isinstance(s, ast.Expr) and isinstance(s.value, ast.Constant))]
                kind = "single" if len(body)==1 and isinstance(body[0], ast.Return) else f"multi({len(body)})"
                print(c.name, m.name, kind, ast.unparse(body[0].value)[:80] if kind=="single" else "")
