import numpy as np, pandas as pd, json
from opendsm.eemeter.models.billing.model import BillingModel
from opendsm.eemeter.models.billing.data import BillingReportingData
d = {"submodels": {"fw-su_sh_wi": {"coefficients": {"model_type":"tidd","intercept":10.0,"hdd_bp":None,"hdd_beta":None,"hdd_k":None,"cdd_bp":None,"cdd_beta":None,"cdd_k":None},
      "temperature_constraints":{"T_min":0,"T_max":100,"T_min_seg":0,"T_max_seg":100},"f_unc":1.0}},
     "info":{"error":{},"baseline_timezone":"UTC","disqualification":[],"warnings":[]}, "settings": None}
m = BillingModel()
d["settings"] = m.to_dict.__func__ and None
# build via from_dict using the model's own settings dump
from opendsm.eemeter.models.daily.parameters import DailyModelParameters
d["settings"] = {**m.settings.model_dump(), "developer_mode": True}
m = BillingModel.from_dict(d)
class Rep(BillingReportingData):
    def __init__(self, df): self._df=df; self.tz=df.index.tz; self.warnings=[]; self.disqualification=[]
idx = pd.date_range("2021-01-01", periods=90, freq="D", tz="UTC")
with_obs = pd.DataFrame({"season":"winter","weekday_weekend":"weekday","temperature":50.0,"observed":1.0}, index=idx)
no_obs = with_obs.drop(columns=["observed"])   # what _merge_meter_temp leaves when usage is absent
print(m.predict(Rep(with_obs), aggregation="monthly")[["observed","predicted"]])
try:
    print(m.predict(Rep(no_obs), aggregation="monthly"))
except Exception as e:
    print("without observed ->", type(e).__name__, e)
print(m.predict(Rep(no_obs)).head(2))
