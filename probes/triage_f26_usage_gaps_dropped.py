"""Triage: NaN usage cells are dropped before the 50 % coverage rule is applied (daily data class, sub-daily meter)."""
import numpy as np, pandas as pd
from opendsm.eemeter.models.daily.data import DailyBaselineData
idx = pd.date_range("2021-01-01", "2021-12-31 23:00", freq="h", tz="America/Chicago")
obs = pd.Series(1.0, index=idx)
temp = pd.Series(50.0 + 10*np.sin(np.arange(len(idx))/24.0), index=idx)
# day A (2021-03-10): 18 of 24 hours are NaN cells (25 % coverage)  -> must be missing
# day B (2021-03-12): 6 of 24 hours NaN (75 % coverage)            -> must be 18 / 0.75 = 24
a = (idx >= pd.Timestamp("2021-03-10 03:00", tz="America/Chicago")) & (idx < pd.Timestamp("2021-03-10 21:00", tz="America/Chicago"))
b = (idx >= pd.Timestamp("2021-03-12 06:00", tz="America/Chicago")) & (idx < pd.Timestamp("2021-03-12 12:00", tz="America/Chicago"))
obs[a] = np.nan; obs[b] = np.nan
d = DailyBaselineData(pd.DataFrame({"observed": obs, "temperature": temp}), is_electricity_data=False)
df = d.df
print(df.loc["2021-03-09":"2021-03-13", ["observed"]])
print("warnings:", [w.qualified_name for w in d.warnings][:5])
