import numpy as np, pandas as pd
from opendsm.eemeter.models.daily.model import DailyModel
from opendsm.eemeter.models.daily.data import DailyReportingData
m0 = DailyModel()
d = {"submodels": {"fw-su_sh_wi": {"coefficients": {"model_type":"hdd_tidd","intercept":10.0,"hdd_bp":70.0,"hdd_beta":-1.0,"hdd_k":None,"cdd_bp":None,"cdd_beta":None,"cdd_k":None},
      "temperature_constraints":{"T_min":20.0,"T_max":70.0,"T_min_seg":25.0,"T_max_seg":70.0},"f_unc":1.0}},
     "info":{"error":{},"baseline_timezone":"UTC","disqualification":[],"warnings":[]}, "settings": m0.settings.model_dump()}
m = DailyModel.from_dict(d)   # heating-only model whose balance point sits at the warmest baseline day (70F)
class Rep(DailyReportingData):
    def __init__(self, df): self._df=df; self.tz=df.index.tz; self.warnings=[]; self.disqualification=[]
idx = pd.date_range("2021-06-01", periods=5, freq="D", tz="UTC")
df = pd.DataFrame({"season":"summer","weekday_weekend":"weekday","temperature":[60.0, 70.0, 75.0, 80.0, 90.0]}, index=idx)
print(m.predict(Rep(df))[["temperature","predicted","heating_load","cooling_load"]].to_string())
