import ast, sys, pathlib
root = pathlib.Path('/repo/opendsm')
def walk():
    for p in sorted(root.rglob('*.py')):
        try:
            yield p, ast.parse(p.read_text())
        except SyntaxError as e:
            print("SYNTAXERR", p, e)
# 1. chained-assignment: target Subscript whose value is Subscript/Call-getitem of mask
for p, t in walk():
    for n in ast.walk(t):
        if isinstance(n, (ast.Assign, ast.AugAssign)):
            tg = n.targets if isinstance(n, ast.Assign) else [n.target]
            for x in tg:
                if isinstance(x, ast.Subscript) and isinstance(x.value, ast.Subscript):
                    print("CHAINED", p.relative_to(root), n.lineno, ast.unparse(x)[:100])
                if isinstance(x, ast.Subscript) and isinstance(x.value, ast.Attribute) and isinstance(x.value.value, ast.Subscript):
                    print("CHAINED-ATTR", p.relative_to(root), n.lineno, ast.unparse(x)[:100])
# 2. mutable defaults
for p, t in walk():
    for n in ast.walk(t):
        if isinstance(n, (ast.FunctionDef, ast.AsyncFunctionDef)):
            for d in n.args.defaults + [d for d in n.args.kw_defaults if d]:
                if isinstance(d, (ast.List, ast.Dict, ast.Set)) or (isinstance(d, ast.Call) and ast.unparse(d.func) in ('np.array','np.ones','dict','list','set')):
                    print("MUTDEF", p.relative_to(root), n.lineno, n.name, ast.unparse(d)[:60])
