import numpy as np, pandas as pd
from opendsm.eemeter.common.data_processor_utilities import as_freq
idx = pd.date_range("2021-03-01", periods=48*3, freq="30min", tz="UTC")
t = pd.Series(60.0, index=idx); t.iloc[48:60] = np.nan        # 25 % of the second day missing, every present reading is 60F
tf = as_freq(t, "D", series_type="instantaneous", include_coverage=True)
tf.loc[tf.coverage > 0.5, "value"] = tf[tf.coverage > 0.5].value / tf[tf.coverage > 0.5].coverage      # the statement in _compute_temperature_features
print(tf)
