# prototype checks: C18 tables, C13 literals/criteria, C19 aggregation table, C10 call lists & predicates
import ast, pathlib, itertools
R = pathlib.Path('/repo/opendsm')
def mod(rel): return ast.parse((R/rel).read_text())
def fn(t, name):
    for n in ast.walk(t):
        if isinstance(n, (ast.FunctionDef, ast.ClassDef)) and n.name == name: return n
# ---- C18
t = mod('eemeter/models/hourly_caltrack/segmentation.py')
def table(fname):
    f = fn(t, fname)
    call = [n for n in ast.walk(f) if isinstance(n, ast.Call) and ast.unparse(n.func)=="pd.DataFrame"][0]
    comp = call.args[0]
    gen = comp.generators[0]
    rows = ast.literal_eval(gen.iter)
    cols = ast.literal_eval([k.value for k in call.keywords if k.arg=="columns"][0])
    return rows, cols
rows, cols = table('_segment_weights_one_month'); print("one_month", [r[0] for r in rows]==cols, sorted(r[1] for r in rows)==list(range(1,13)))
names = {r[0]: r[1] for r in rows}
rows3, cols3 = table('_segment_weights_three_month'); 
ok = all(sum(m in r[1] for r in rows3)==3 for m in range(1,13)) and all(tuple(names[x] for x in r[0].split('-'))==r[1] for r in rows3) and [r[0] for r in rows3]==cols3
print("three_month", ok)
rowsw, colsw = table('_segment_weights_three_month_weighted')
def centre(w): return [int(k) for k,v in w.items() if v==1]
ok=True
for m in range(1,13):
    full=[r for r in rowsw if r[1].get(str(m))==1]; half=[r for r in rowsw if r[1].get(str(m))==0.5]
    nb = {(m-2)%12+1, m%12+1}
    ok &= len(full)==1 and len(half)==2 and {centre(r[1])[0] for r in half}==nb
ok &= [r[0] for r in rowsw]==colsw and all([names[x] for x in r[0].replace('-weighted','').split('-')]==[int(k) for k in r[1]] for r in rowsw)
print("weighted", ok)
tm = mod('eemeter/models/hourly_caltrack/model.py')
mp = [n for n in ast.walk(fn(tm,'_PredictionSegmentInfo')) if isinstance(n, ast.Dict) and len(n.keys)==12][0]
mp = ast.literal_eval(mp)
wt = {r[0]: r[1] for r in rowsw}
print("routing", all(centre(wt[v])==[names[k]] for k,v in mp.items()), len(mp))
# ---- C13
t = mod('eemeter/models/daily/model.py')
init = [m for m in fn(t,'DailyModel').body if isinstance(m, ast.FunctionDef) and m.name=='__init__'][0]
so = [ast.literal_eval(s.value) for s in ast.walk(init) if isinstance(s, ast.Assign) and ast.unparse(s.targets[0])=='self.seasonal_options'][0]
print("seasonal partitions", all(sorted(x for part in opt for x in part.split('_'))==['sh','su','wi'] for opt in so), len(so))
ts = mod('eemeter/models/daily/utilities/settings.py'); tc = mod('eemeter/models/daily/utilities/selection_criteria.py')
members = [ast.literal_eval(s.value) for s in fn(ts,'ModelSelectionCriteria').body if isinstance(s, ast.Assign)]
branches = set()
for n in ast.walk(fn(tc,'selection_criteria')):
    if isinstance(n, ast.Compare) and 'model_selection_criteria.lower()' in ast.unparse(n.left) and isinstance(n.ops[0], ast.Eq):
        branches.add(ast.literal_eval(n.comparators[0]))
print("criteria", set(members) <= branches, len(members), sorted(branches - set(members)))
# ---- C19
tb = mod('eemeter/models/billing/model.py')
p = [m for m in fn(tb,'BillingModel').body if isinstance(m, ast.FunctionDef) and m.name=='predict'][0]
agg = {}
for s in ast.walk(p):
    if isinstance(s, ast.Assign) and isinstance(s.value, ast.Call) and isinstance(s.value.func, ast.Attribute):
        c = s.value; 
        inner = c.func.value
        if isinstance(inner, ast.Call) and isinstance(inner.func, ast.Attribute) and inner.func.attr=='resample':
            col = ast.literal_eval(inner.func.value.slice)
            agg[col] = (c.func.attr, ast.unparse(c.args[0]) if c.args else None, ast.unparse(inner.args[0]))
print("C19", agg)
# ---- C10
tsc = mod('eemeter/common/sufficiency_criteria.py')
for cls in ['HourlySufficiencyCriteria','DailySufficiencyCriteria','BillingSufficiencyCriteria']:
    c = fn(tsc, cls)
    for m in c.body:
        if isinstance(m, ast.FunctionDef) and m.name.startswith('check_sufficiency'):
            calls = [n.func.attr for n in ast.walk(m) if isinstance(n, ast.Call) and isinstance(n.func, ast.Attribute) and ast.unparse(n.func.value)=='self']
            print(cls, m.name, calls)
base = fn(tsc,'SufficiencyCriteria')
for m in base.body:
    if isinstance(m, ast.FunctionDef) and m.name.startswith('_check'):
        for n in ast.walk(m):
            if isinstance(n, ast.If):
                sinks = [ast.unparse(x.func.value) for x in ast.walk(n) if isinstance(x, ast.Call) and isinstance(x.func, ast.Attribute) and x.func.attr=='append' and any(isinstance(y, ast.Call) and ast.unparse(y.func)=='EEMeterWarning' for y in ast.walk(x))]
                direct = [x for x in n.body if isinstance(x, ast.Expr) and isinstance(x.value, ast.Call) and isinstance(x.value.func, ast.Attribute) and x.value.func.attr=='append']
                if direct:
                    print("  ", m.name, "|", ast.unparse(n.test).replace("\n"," ")[:110], "->", ast.unparse(direct[0].value.func.value))
