import numpy as np
from opendsm.eemeter.models.daily.base_models.hdd_tidd_cdd import evaluate_hdd_tidd_cdd_smooth
from opendsm.eemeter.models.daily.base_models.full_model import get_full_model_x, full_model
from opendsm.eemeter.models.daily.utilities.base_model import get_smooth_coeffs
T = np.array([30., 45., 55., 60., 65., 80.]); bnds = np.array([20., 90.])
x = np.array([70., 1.0, 0.2, 50., 2.0, 0.3, 10.])      # optimiser vector with crossed balance points (allowed: both bp bounds are [T_min, T_max])
scored = evaluate_hdd_tidd_cdd_smooth(*x, bnds, T)       # what the objective function scores
xx = get_full_model_x("hdd_tidd_cdd_smooth", x, 20., 90., 25., 85.)          # read-back path of OptimizedResult.eval / _predict_submodel
hb, hk, cb, ck = get_smooth_coeffs(xx[0], xx[2], xx[3], xx[5])
stored = full_model(hb, xx[1], hk, cb, xx[4], ck, xx[6], bnds, T)
print("scored :", np.round(scored, 3)); print("stored :", np.round(stored, 3)); print("max abs difference:", float(np.max(np.abs(scored-stored))))
