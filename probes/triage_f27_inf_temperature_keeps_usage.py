"""Triage F27 (C07): a reporting day whose temperature is not finite (inf) is dropped before prediction like a day without temperature, but
DailyModel._predict masks the usage only where the temperature *is NaN*: the row comes back with its consumption and no prediction.
Run: PYTHONPATH=/repo /venv/bin/python probes/triage_f27_inf_temperature_keeps_usage.py   (exit 1 = defect reproduced)"""
import logging, sys, warnings
warnings.filterwarnings("ignore"); logging.disable(logging.CRITICAL)
import numpy as np, pandas as pd
from opendsm.eemeter.models.daily.model import DailyModel

TZ = "America/Chicago"
m = DailyModel()
sub = {"coefficients": {"model_type": "hdd_tidd_cdd", "intercept": 40.0, "hdd_bp": 55.0, "hdd_beta": -1.0, "cdd_bp": 70.0, "cdd_beta": 1.5},
       "temperature_constraints": {"T_min": 0, "T_max": 110, "T_min_seg": 0, "T_max_seg": 110}, "f_unc": 1.0}
model = DailyModel.from_dict({"submodels": {"fw-su_sh_wi": sub}, "settings": m.settings.model_dump(),
                              "info": {"error": {}, "baseline_timezone": TZ, "disqualification": [], "warnings": []}})
idx = pd.date_range("2021-03-01", periods=10, freq="D", tz=TZ)
df = pd.DataFrame({"temperature": np.linspace(40, 80, 10), "observed": np.full(10, 30.0)}, index=idx)
df.iloc[3, 0] = np.inf       # a sensor glitch / a division upstream
df.iloc[5, 0] = np.nan       # an ordinary gap, for comparison
res = model._predict(df.copy())
print(res[["temperature", "observed", "predicted"]])
one_sided = res[res["observed"].isna() != res["predicted"].isna()]
print("rows with only one of observed / predicted:", len(one_sided))
print("column-sum savings", res["predicted"].sum() - res["observed"].sum(), "row-wise", (res["predicted"] - res["observed"]).sum())
sys.exit(1 if len(one_sided) else 0)
