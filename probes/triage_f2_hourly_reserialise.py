import warnings; warnings.filterwarnings("ignore")
import numpy as np, pandas as pd, json
from opendsm.common.metrics import BaselineMetrics, BaselineMetricsFromDict
from opendsm.eemeter.models.hourly import settings as S
df = pd.DataFrame({"observed": np.arange(10.0)+1, "predicted": np.arange(10.0)+1.5})
bm = BaselineMetrics(df=df, num_model_params=2)
d = bm.model_dump()
js = json.loads(json.dumps(d))
bm2 = BaselineMetricsFromDict(js)
print(type(bm2).__mro__[:3])
try:
    sm = S.SerializeModel(baseline_metrics=bm2, info=S.ModelInfo(warnings=[], disqualification=[], error={}, baseline_timezone="UTC", version="1"))
    d2 = sm.model_dump()["baseline_metrics"]
    print("re-serialise OK; equal:", d2 == js, set(js) - set(d2) if isinstance(d2, dict) else d2)
except Exception as e:
    print("re-serialise FAILS:", type(e).__name__, str(e)[:300])
