"""Triage: smoothing fractions summing to >= 1 make the shifted balance points meet; in floating point they may cross by one ulp,
the kernel's `if cdd_bp < hdd_bp` swap fires and the heating side is evaluated with the cooling coefficients."""
import numpy as np
from opendsm.eemeter.models.daily.utilities.base_model import get_smooth_coeffs
from opendsm.eemeter.models.daily.base_models.full_model import full_model, get_full_model_x
rng = np.random.default_rng(0)
n = bad = 0
worst = None
T = np.linspace(-20, 120, 281)
for _ in range(20000):
    hdd_bp = rng.uniform(40, 60); cdd_bp = rng.uniform(62, 80)
    ph = rng.uniform(0.3, 1.0); pc = rng.uniform(0.3, 1.0)
    if ph + pc < 1: continue
    n += 1
    hb, hk, cb, ck = get_smooth_coeffs(hdd_bp, ph, cdd_bp, pc)
    if cb < hb:
        bad += 1
        hdd_beta, cdd_beta, icpt = 2.0, 0.5, 10.0
        y = full_model(hb, hdd_beta, hk, cb, cdd_beta, ck, icpt, np.array([-20., 120.]), T)
        # reference: same with the two (mathematically equal) points put in order
        y_ref = full_model(min(hb, cb), hdd_beta, hk, max(hb, cb), cdd_beta, ck, icpt, np.array([-20., 120.]), T)
        d = np.max(np.abs(y - y_ref))
        if worst is None or d > worst[0]:
            worst = (d, hdd_bp, ph, cdd_bp, pc, hb, cb)
print(f"{bad} of {n} vectors with pct_hdd_k + pct_cdd_k >= 1 come back crossed (cdd_bp' < hdd_bp')")
print("worst curve difference vs the ordered evaluation:", worst)
