import ast, pathlib, collections
root = pathlib.Path('/repo/opendsm')
mods = {p: ast.parse(p.read_text()) for p in sorted(root.rglob('*.py'))}
# settings fields
for rel in ["eemeter/models/daily/utilities/settings.py","eemeter/models/billing/settings.py","eemeter/models/hourly/settings.py","eemeter/models/daily/utilities/opt_settings.py"]:
    t = mods[root/rel]
    for c in t.body:
        if isinstance(c, ast.ClassDef):
            flds=[s for s in c.body if isinstance(s, ast.AnnAssign)]
            dev=[s.target.id for s in flds if isinstance(s.value, ast.Call) and any(k.arg=="developer" and getattr(k.value,'value',None) is True for k in s.value.keywords)]
            if flds: print(rel.split('/')[-1], c.name, [b.id if isinstance(b, ast.Name) else ast.unparse(b) for b in c.bases], "fields", len(flds), "developer", len(dev))
# EEMeterWarning construct sites + sinks
cnt=collections.Counter()
for p,t in mods.items():
    for n in ast.walk(t):
        if isinstance(n, ast.Call) and ast.unparse(n.func)=="EEMeterWarning":
            q=[k.value for k in n.keywords if k.arg=="qualified_name"]
            try: name = ast.literal_eval(q[0]) if q else "?"
            except Exception: name = ast.unparse(q[0])
            cnt[(str(p.relative_to(root)), name)]+=1
print(len(cnt), "warning construct sites (file,name)")
for k,v in sorted(cnt.items()): print("  ", k, v)
# raise sites
for p,t in mods.items():
    for n in ast.walk(t):
        if isinstance(n, ast.Raise) and n.exc is not None:
            s=ast.unparse(n.exc)
            if any(x in s for x in ("DataSufficiencyError","DisqualifiedModelError","NoBaselineDataError","NoReportingDataError")):
                print("RAISE", p.relative_to(root), n.lineno, s[:60])
        if isinstance(n, ast.ExceptHandler):
            ty = ast.unparse(n.type) if n.type else "<bare>"
            if ty in ("<bare>","Exception","BaseException"):
                print("BROAD-EXCEPT", p.relative_to(root), n.lineno, ty)
