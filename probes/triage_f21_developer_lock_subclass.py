from opendsm.eemeter.models.daily.utilities.settings import DailySettings, Split_Selection_Legacy_Definition, Split_Selection_Definition
try:
    s = DailySettings(split_selection={"allow_separate_summer": False}); print("dict accepted?!", s.split_selection.allow_separate_summer)
except Exception as e: print("dict input rejected:", str(e).splitlines()[-1][:100])
try:
    s = DailySettings(split_selection=Split_Selection_Definition(allow_separate_summer=False)); print("object accepted?!", s.split_selection.allow_separate_summer)
except Exception as e: print("object input rejected:", str(e).splitlines()[-1][:100])
try:
    s = DailySettings(split_selection=Split_Selection_Legacy_Definition()); print("subclass object accepted:", s.split_selection.allow_separate_summer, s.developer_mode)
except Exception as e: print("subclass object rejected:", str(e).splitlines()[-1][:100])
from opendsm.eemeter.models.hourly import settings as hs
print([n for n in dir(hs) if 'Settings' in n])
