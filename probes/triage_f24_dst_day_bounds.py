"""F24: HourlyModel.predict/fit in zones whose clock change is at the very start or end of a local day (before the repair: KeyError / ValueError
from the date-string selection in _get_dst_indices; IndexError for a skipped 23:00 / a repeated 23:00 on the last day), and the open
multi-hour case.  Run: PYTHONPATH=/repo /venv/bin/python probes/triage_f24_dst_day_bounds.py"""
import numpy as np, pandas as pd, logging, warnings, sys
warnings.filterwarnings("ignore"); logging.disable(logging.CRITICAL)
from opendsm.eemeter.models.hourly.data import HourlyReportingData, HourlyBaselineData
from opendsm.eemeter.models.hourly.model import HourlyModel
import opendsm.eemeter.models.hourly.model as hm
hm._cluster_temporal_features = lambda X, *a, **k: (np.arange(len(X)) % 7 >= 5).astype(int)   # sandbox-only stand-in (sklearn 1.9)
def mk(start, end, tz):
    idx = pd.date_range(pd.Timestamp(start), pd.Timestamp(end), freq="h").tz_localize(tz, ambiguous="NaT", nonexistent="NaT")
    idx = idx[idx.notna()]
    idx = pd.date_range(idx[0], idx[-1] if not end.endswith("23:00") or True else idx[-1], freq="h")
    last = pd.Timestamp(end).date()
    idx = pd.date_range(idx[0], periods=len(idx) + 4, freq="h"); idx = idx[[d <= last for d in idx.date]]
    n = len(idx)
    rng = np.random.default_rng(1)
    T = 60+25*np.sin((idx.dayofyear.values-100)/365*2*np.pi)+8*np.sin(idx.hour.values/24*2*np.pi)
    y = 1+0.03*np.abs(T-65)+0.05*rng.random(n)
    return pd.DataFrame({"temperature": T, "observed": y}, index=idx)
cases = [
    ("America/Chicago (control)", "America/Chicago", ("2021-01-01", "2021-12-31 23:00"), ("2022-03-01", "2022-03-30 23:00")),
    ("America/Nuuk: 2024-03-30 has no 23:00", "America/Nuuk", ("2022-01-01", "2022-12-31 23:00"), ("2024-03-20", "2024-04-10 23:00")),
    ("Africa/Cairo: reporting data ends on 2023-10-26, whose 23:00 occurs twice", "Africa/Cairo", ("2022-01-01", "2022-12-31 23:00"), ("2023-10-01", "2023-10-26 23:00")),
    ("Africa/Cairo: same month, ending a day later", "Africa/Cairo", ("2022-01-01", "2022-12-31 23:00"), ("2023-10-01", "2023-10-27 23:00")),
    ("America/Santiago: 2022-09-11 has no 00:00", "America/Santiago", ("2021-01-01", "2021-12-31 23:00"), ("2022-09-01", "2022-09-30 23:00")),
    ("America/Havana: 2022-11-06 00:00 occurs twice", "America/Havana", ("2021-01-01", "2021-12-31 23:00"), ("2022-10-20", "2022-11-20 23:00")),
    ("Antarctica/Troll: 2-hour change on 2023-03-26 (open finding)", "Antarctica/Troll", ("2022-01-01", "2022-12-31 23:00"), ("2023-03-10", "2023-04-10 23:00")),
]
for label, tz, (b0, b1), (r0, r1) in cases:
    try:
        base = HourlyBaselineData(mk(b0, b1, tz), is_electricity_data=True)
        m = HourlyModel(settings={"seed": 3}).fit(base, ignore_disqualification=True)
    except Exception as e:
        print(f"{label}: FIT raised {type(e).__name__}: {str(e)[:100]}"); continue
    rep = HourlyReportingData(mk(r0, r1, tz), is_electricity_data=True)
    try:
        p = m.predict(rep, ignore_disqualification=True)
        ok = len(p) == len(rep.df) and p["predicted"].notna().all() and (p.index == rep.df.index).all()
        print(f"{label}: predict returned {len(p)} rows for {len(rep.df)} timestamps, all finite: {bool(p['predicted'].notna().all())}")
    except Exception as e:
        print(f"{label}: predict raised {type(e).__name__}: {str(e)[:100]}")
