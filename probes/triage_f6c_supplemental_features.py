import numpy as np, pandas as pd, logging, warnings, json
warnings.filterwarnings("ignore"); logging.disable(logging.CRITICAL)
from opendsm.eemeter.models.hourly.data import HourlyReportingData, HourlyBaselineData
from opendsm.eemeter.models.hourly.model import HourlyModel
import opendsm.eemeter.models.hourly.model as hm
hm._cluster_temporal_features = lambda X, *a, **k: (np.arange(len(X)) % 7 >= 5).astype(int)   # sandbox-only stand-in (sklearn 1.9)
def mk(start, n, extra=False):
    idx = pd.date_range(start, periods=n, freq="h", tz="America/Chicago")
    rng = np.random.default_rng(1)
    T = 60+25*np.sin((idx.dayofyear.values-100)/365*2*np.pi)+8*np.sin(idx.hour.values/24*2*np.pi)
    y = 1+0.03*np.abs(T-65)+0.05*rng.random(n)
    d = pd.DataFrame({"temperature": T, "observed": y}, index=idx)
    if extra: d["occupancy"] = 1.0
    return d
base = HourlyBaselineData(mk("2021-01-01", 24*365), is_electricity_data=True)
m = HourlyModel(settings={"seed": 3, "supplemental_time_series_columns": ["occupancy"]}).fit(base, ignore_disqualification=True)
print("features after fit:", m._ts_features)
A = HourlyReportingData(mk("2022-01-03", 24*14, extra=True), is_electricity_data=True)   # carries the supplemental column the baseline lacked
B = HourlyReportingData(mk("2022-02-07", 24*14), is_electricity_data=True)
print("predict(B) on the fresh model:", m.predict(B, ignore_disqualification=True)["predicted"].notna().sum(), "predictions")
try: m.predict(A, ignore_disqualification=True); print("predict(A) ok")
except Exception as e: print("predict(A) raised", type(e).__name__)
print("features after the failed predict(A):", m._ts_features)
try: print("predict(B) again:", m.predict(B, ignore_disqualification=True)["predicted"].notna().sum())
except Exception as e: print("predict(B) again raised", type(e).__name__, str(e)[:80])
