# prototype: order-domain abstract evaluation of full_model
import ast, pathlib, itertools
src = pathlib.Path('/repo/opendsm/eemeter/models/daily/base_models/full_model.py').read_text()
t = ast.parse(src)
f = [n for n in t.body if isinstance(n, ast.FunctionDef) and n.name=='full_model'][0]
ORD = ['Ti','hdd_bp','cdd_bp','T_min','T_max']
FLG = ['hdd_beta','cdd_beta','hdd_k','cdd_k']
# a term is (sign, sym) or ('const', v)
def weak_orders(items):
    # all ordered set partitions -> rank maps
    def rec(rest):
        if not rest: yield []; return
        first, *others = rest
        for part in rec(others):
            # insert first into existing block or new block at any position
            for i in range(len(part)):
                yield part[:i]+[part[i]+[first]]+part[i+1:]
            for i in range(len(part)+1):
                yield part[:i]+[[first]]+part[i:]
    for p in rec(list(items)):
        yield {s:i for i,blk in enumerate(p) for s in blk}
class Abort(Exception): pass
def run(rank, zero):
    env = {s:(1,s) for s in ORD+FLG+['intercept']}
    def term(e):
        if isinstance(e, ast.Name): return env[e.id]
        if isinstance(e, ast.Constant): return ('const', e.value)
        if isinstance(e, ast.UnaryOp) and isinstance(e.op, ast.USub):
            s,x = term(e.operand); 
            if s=='const': return ('const', -x)
            return (-s, x)
        raise Abort(ast.dump(e))
    def is_zero(tm): return tm[1]==0 if tm[0]=='const' else zero[tm[1]]
    def cmpv(a,b,op):
        ta,tb = term(a),term(b)
        if tb[0]=='const' and tb[1]==0 and isinstance(op,(ast.Eq,ast.NotEq)):
            z=is_zero(ta); return z if isinstance(op,ast.Eq) else not z
        assert ta[0]==1 and tb[0]==1, (ta,tb)
        ra,rb = rank[ta[1]],rank[tb[1]]
        return {ast.Lt:ra<rb, ast.LtE:ra<=rb, ast.Gt:ra>rb, ast.GtE:ra>=rb, ast.Eq:ra==rb, ast.NotEq:ra!=rb}[type(op)]
    def cond(e):
        if isinstance(e, ast.BoolOp):
            vs=[cond(v) for v in e.values]; return all(vs) if isinstance(e.op, ast.And) else any(vs)
        if isinstance(e, ast.UnaryOp) and isinstance(e.op, ast.Not): return not cond(e.operand)
        if isinstance(e, ast.Compare) and len(e.ops)==1: return cmpv(e.left, e.comparators[0], e.ops[0])
        raise Abort(ast.dump(e))
    out={}
    def block(stmts):
        for s in stmts:
            if isinstance(s, ast.Expr) and isinstance(s.value, ast.Constant): continue
            if isinstance(s, ast.If):
                r = block(s.body) if cond(s.test) else block(s.orelse)
                if r: return r
            elif isinstance(s, ast.Return):
                out['ret']=ast.unparse(s.value); return 'ret'
            elif isinstance(s, ast.Assign):
                tg=s.targets[0]
                if isinstance(tg,(ast.Tuple,ast.List)) and isinstance(s.value,(ast.Tuple,ast.List)):
                    vals=[term(v) for v in s.value.elts]
                    for a,v in zip(tg.elts, vals): env[a.id]=v
                elif isinstance(tg,(ast.Tuple,ast.List)) and ast.unparse(s.value)=='T_fit_bnds':
                    pass  # T_min, T_max symbols already
                elif isinstance(tg, ast.Name):
                    try: env[tg.id]=term(s.value)
                    except Abort: env[tg.id]=('expr', ast.unparse(s.value))
                elif isinstance(tg, ast.Subscript) and ast.unparse(tg)=='E_tot[n]':
                    out['E']=ast.unparse(s.value); out['env']={k:env.get(k) for k in ('T_bp','beta','k')}
            elif isinstance(s, ast.For):
                r = block(s.body)
                if r: return r
        return None
    block(f.body)
    return out
import collections
tab=collections.Counter(); n=0
for rank in weak_orders(ORD):
    if rank['T_min']>rank['T_max']: continue
    for z in itertools.product([False,True], repeat=4):
        zero=dict(zip(FLG,z)); zero['intercept']=False
        o=run(rank,zero); n+=1
        key=(o.get('ret'), o.get('E'), str(o.get('env')))
        tab[key]+=1
print("abstract states", n)
for k,v in tab.most_common(): print(v, k)
