"""probe: C05 -- reads of the usage column on predict paths (throwaway)"""
import ast, pathlib
R = pathlib.Path('/repo/opendsm')
def funcs(rel):
    t=ast.parse((R/rel).read_text()); out={}
    def rec(node, pre):
        for n in ast.iter_child_nodes(node):
            if isinstance(n,(ast.FunctionDef,ast.ClassDef)):
                q=pre+n.name; out[q]=n; rec(n,q+'.')
    rec(t,''); return out
sets={
 'daily':('eemeter/models/daily/model.py',['DailyModel.predict','DailyModel._predict','DailyModel._initialize_data','DailyModel._meter_segment','DailyModel._predict_submodel']),
 'billing':('eemeter/models/billing/model.py',['BillingModel.predict']),
 'hourly':('eemeter/models/hourly/model.py',['HourlyModel.predict','HourlyModel._predict','HourlyModel._prepare_features','HourlyModel._add_categorical_features','HourlyModel._add_supplemental_features','HourlyModel._sort_features','HourlyModel._daily_sufficiency','HourlyModel._normalize_features','HourlyModel._add_temperature_bin_masked_ts','HourlyModel._add_temperature_bins','HourlyModel._get_feature_matrices','_get_dst_indices','_transform_dst']),
 'caltrack':('eemeter/models/hourly_caltrack/wrapper.py',['HourlyModel.predict']),
 'caltrack-seg':('eemeter/models/hourly_caltrack/segmentation.py',['SegmentedModel.predict','CalTRACKSegmentModel.predict','iterate_segmented_dataset']),
 'caltrack-model':('eemeter/models/hourly_caltrack/model.py',['caltrack_hourly_prediction_feature_processor']),
}
for fam,(rel,qs) in sets.items():
    F=funcs(rel)
    for q in qs:
        f=F[q]
        def guards(node, target, stack=()):
            for ch in ast.iter_child_nodes(node):
                if ch is target: return stack
                st=stack
                if isinstance(node, ast.If):
                    if ch in node.body: st=stack+((ast.unparse(node.test)[:50],True),)
                    elif ch in node.orelse: st=stack+((ast.unparse(node.test)[:50],False),)
                r=guards(ch,target,st)
                if r is not None: return r
            return None
        for n in ast.walk(f):
            hit=None
            if isinstance(n, ast.Constant) and isinstance(n.value,str) and 'observed' in n.value: hit=repr(n.value)
            if isinstance(n, ast.Attribute) and n.attr=='observed': hit='.observed'
            if hit:
                # enclosing statement
                stmt=[s for s in ast.walk(f) if isinstance(s, ast.stmt) and any(x is n for x in ast.walk(s)) and not isinstance(s,(ast.FunctionDef,ast.If,ast.For,ast.While,ast.Try,ast.With))]
                stmt=min(stmt,key=lambda s:(s.end_lineno-s.lineno)) if stmt else None
                g=guards(f,stmt) if stmt else None
                print(f"{fam:9s} {q:45s} L{n.lineno:<5d} {hit:16s} | {ast.unparse(stmt).splitlines()[0][:80] if stmt else ''} | guards={[x for x in (g or ())]}")
