import numpy as np, pandas as pd, logging, warnings, json
warnings.filterwarnings("ignore"); logging.disable(logging.CRITICAL)
from opendsm.eemeter.models.hourly.data import HourlyReportingData, HourlyBaselineData
from opendsm.eemeter.models.hourly.model import HourlyModel
import opendsm.eemeter.models.hourly.model as hm
hm._cluster_temporal_features = lambda X, *a, **k: (np.arange(len(X)) % 7 >= 5).astype(int)   # sandbox-only stand-in (sklearn 1.9)
def mk(start, n):
    idx = pd.date_range(start, periods=n, freq="h", tz="America/Chicago")
    rng = np.random.default_rng(1)
    T = 60+25*np.sin((idx.dayofyear.values-100)/365*2*np.pi)+8*np.sin(idx.hour.values/24*2*np.pi)
    y = 1+0.03*np.abs(T-65)+0.05*rng.random(n)
    return pd.DataFrame({"temperature": T, "observed": y}, index=idx)
base = HourlyBaselineData(mk("2021-01-01", 24*365), is_electricity_data=True)
m = HourlyModel(settings={"seed": 3}).fit(base, ignore_disqualification=True)
rep = mk("2022-03-01", 24*30)            # spans the 2022-03-13 spring-forward day
p1 = m.predict(HourlyReportingData(rep, is_electricity_data=True), ignore_disqualification=True)["predicted"]
print("with usage        :", p1.notna().sum(), "predictions")
try:
    p2 = m.predict(HourlyReportingData(rep[["temperature"]], is_electricity_data=True), ignore_disqualification=True)["predicted"]
    print("temperature only  :", p2.notna().sum(), "predictions; identical:", bool(np.allclose(p1.values, p2.values, equal_nan=True)))
except Exception as e:
    print("temperature only  : predict raised", type(e).__name__, str(e)[:90])
