"""probe: origin analysis (copy-before-mutate) -- flow-sensitive over statement order with branch merge (throwaway)"""
import ast, pathlib
R = pathlib.Path('/repo/opendsm')
FRESH_METHODS = {"copy","rename","dropna","reindex","merge","join","to_frame","resample","sum","mean","first","astype","tz_convert","tz_localize","reset_index","sort_index","sort_values","drop","assign","union","append","fillna","ffill","bfill","interpolate","asfreq","groupby","agg","apply","map","isin","notna","isna","isnull","notnull","abs","diff","median","quantile","count","min","max","normalize","replace","strftime","get_indexer","duplicated","total_seconds","any","all","to_list","tolist","get_loc","first_valid_index","last_valid_index","startswith","rename_axis","stack","unstack","pivot_table","nunique","drop_duplicates","set_index","date_range"}
FRESH_FUNCS = {"pd.DataFrame","pd.Series","pd.concat","pd.date_range","pd.merge","pd.to_datetime","pd.Timedelta","np.array","np.append","np.delete","np.insert","list","dict","set","len","pd.merge_asof","pd.cut","pd.qcut","pd.get_dummies","pd.Categorical","pd.read_json","pd.DatetimeIndex","pd.TimedeltaIndex"}
# origin: frozenset of tags: 'FRESH', ('PARAM',name), ('VIEW',name), 'UNKNOWN'
def origin(e, env, fresh_calls):
    if isinstance(e, ast.Name): return env.get(e.id, frozenset({'UNKNOWN'}))
    if isinstance(e, ast.Constant) or isinstance(e,(ast.List,ast.Dict,ast.Tuple,ast.Set,ast.ListComp,ast.DictComp,ast.BinOp,ast.Compare,ast.UnaryOp,ast.BoolOp,ast.JoinedStr,ast.IfExp,ast.Lambda,ast.SetComp,ast.GeneratorExp)): return frozenset({'FRESH'})
    if isinstance(e, ast.Call):
        f=e.func
        if isinstance(f, ast.Attribute):
            if f.attr in FRESH_METHODS: return frozenset({'FRESH'})
            if ast.unparse(f) in FRESH_FUNCS or ast.unparse(f) in fresh_calls: return frozenset({'FRESH'})
            return frozenset({'UNKNOWN:'+ast.unparse(f)})
        if ast.unparse(f) in FRESH_FUNCS or ast.unparse(f) in fresh_calls: return frozenset({'FRESH'})
        return frozenset({'UNKNOWN:'+ast.unparse(f)})
    if isinstance(e, ast.Subscript):
        base=origin(e.value, env, fresh_calls)
        # slicing / indexing: view of base (pandas<3)
        return frozenset(('VIEW',t[1]) if isinstance(t,tuple) else t for t in base)
    if isinstance(e, ast.Attribute):
        base=origin(e.value, env, fresh_calls)
        if e.attr in ('loc','iloc','index','values','columns','at','iat'): return base
        return frozenset(('VIEW',t[1]) if isinstance(t,tuple) else t for t in base)
    return frozenset({'UNKNOWN'})
def root_name(e):
    while isinstance(e,(ast.Subscript,ast.Attribute)): e=e.value
    return e
def analyse(fn, params, fresh_calls=()):
    env={p:frozenset({('PARAM',p)}) for p in params}
    findings=[]
    def store_target(tg, s, env):
        if isinstance(tg,(ast.Subscript,ast.Attribute)):
            r=root_name(tg)
            if isinstance(r, ast.Name) and r.id!='self':
                o=env.get(r.id, frozenset({'UNKNOWN'}))
                bad=[t for t in o if isinstance(t,tuple)]
                if bad: findings.append((s.lineno, ast.unparse(tg)[:60], sorted(bad)))
    def block(stmts, env):
        for s in stmts:
            if isinstance(s, ast.Assign):
                val=origin(s.value, env, fresh_calls)
                for tg in s.targets:
                    if isinstance(tg, ast.Name): env[tg.id]=val
                    elif isinstance(tg,(ast.Tuple,ast.List)):
                        for el in tg.elts:
                            if isinstance(el, ast.Name): env[el.id]=frozenset({'FRESH'}) if val==frozenset({'FRESH'}) else val
                    else: store_target(tg, s, env)
            elif isinstance(s, ast.AugAssign):
                if not isinstance(s.target, ast.Name): store_target(s.target, s, env)
            elif isinstance(s, ast.Delete):
                for tg in s.targets: store_target(tg, s, env)
            elif isinstance(s, ast.Expr) and isinstance(s.value, ast.Call):
                c=s.value
                if any(k.arg=='inplace' and getattr(k.value,'value',False) is True for k in c.keywords) and isinstance(c.func, ast.Attribute):
                    store_target(c.func, s, env)
            elif isinstance(s, ast.If):
                e1=dict(env); e2=dict(env)
                block(s.body,e1); block(s.orelse,e2)
                for k in set(e1)|set(e2): env[k]=e1.get(k,frozenset({'UNKNOWN'}))|e2.get(k,frozenset({'UNKNOWN'}))
            elif isinstance(s,(ast.For,ast.While,ast.With)):
                block(s.body, env)
            elif isinstance(s, ast.Try):
                e0=dict(env); block(s.body, env)
                outs=[env]
                for h in s.handlers:
                    eh=dict(e0); 
                    for k in env: eh[k]=eh.get(k,frozenset())|env[k]
                    block(h.body, eh); outs.append(eh)
                ee=dict(env); block(s.orelse, ee); outs.append(ee)
                for k in set().union(*outs): env[k]=frozenset().union(*[o.get(k,frozenset()) for o in outs])
    block(fn.body, env)
    return findings
def get(rel, qual):
    t=ast.parse((R/rel).read_text()); node=t
    for part in qual.split('.'):
        node=[n for n in ast.iter_child_nodes(node) if isinstance(n,(ast.FunctionDef,ast.ClassDef)) and n.name==part][0]
    return node
cases=[('eemeter/common/transform.py','get_baseline_data'),('eemeter/common/transform.py','get_reporting_data'),
 ('eemeter/models/daily/data.py','_DailyData.from_series'),('eemeter/models/daily/data.py','_DailyData._set_data'),('eemeter/models/daily/data.py','DailyReportingData.__init__'),
 ('eemeter/models/daily/data.py','_DailyData._compute_temperature_features'),('eemeter/models/daily/data.py','_DailyData._compute_meter_value_df'),
 ('eemeter/models/billing/data.py','_BillingData._compute_meter_value_df'),('eemeter/models/billing/data.py','BillingReportingData.__init__'),
 ('eemeter/models/hourly/data.py','_HourlyData._set_data'),('eemeter/models/hourly/data.py','HourlyReportingData.__init__'),('eemeter/models/hourly/data.py','_HourlyData._get_contiguous_datetime'),
 ('eemeter/models/hourly_caltrack/data.py','HourlyReportingData.__init__'),('eemeter/models/hourly_caltrack/data.py','HourlyBaselineData.__init__'),('eemeter/models/hourly_caltrack/data.py','HourlyReportingData._correct_frequency'),
 ('eemeter/common/data_processor_utilities.py','compute_minimum_granularity'),('eemeter/common/data_processor_utilities.py','clean_billing_data'),('eemeter/common/data_processor_utilities.py','downsample_and_clean_daily_data'),
 ('common/hourly_interpolation.py','interpolate'),('common/hourly_interpolation.py','_interpolate_col')]
for rel,q in cases:
    f=get(rel,q); params=[a.arg for a in f.args.args if a.arg not in('self','cls')]
    res=analyse(f, params)
    print(f"{q:45s} params={params} -> {res if res else 'clean'}")
