import pandas as pd, numpy as np
idx = pd.DatetimeIndex(pd.date_range("2020-01-01", periods=48, freq="h", tz="UTC").tolist())  # freq None
print("orig freq before:", idx.freq)
df = pd.DataFrame({"a": np.arange(48.0)}, index=idx)
c = df.copy()
s = c["a"]
s.index.freq = s.index.inferred_freq
print("copy freq:", c.index.freq, "| orig freq after:", df.index.freq, "| same index obj:", c.index is df.index)
# direct (no copy): to_frame shares index
ser = pd.Series(np.arange(48.0), index=pd.DatetimeIndex(idx.tolist()))
fr = ser.to_frame()
fr.index.freq = fr.index.inferred_freq
print("series index freq after to_frame+set:", ser.index.freq, pd.__version__)
