"""probe: C16 -- inline sibling properties and compare closed forms with references through sympy (throwaway)"""
import ast, pathlib, sympy as sp
src = pathlib.Path('/repo/opendsm/common/metrics.py').read_text()
t = ast.parse(src)
C = {c.name: {m.name: m for m in c.body if isinstance(m, ast.FunctionDef)} for c in t.body if isinstance(c, ast.ClassDef)}
ATOMS = {}
def atom(name): return ATOMS.setdefault(name, sp.Symbol(name, positive=True))
COL = {'observed':'ColumnMetrics','predicted':'ColumnMetrics','residuals':'ColumnMetrics'}
def expr_of(cls, prop, ctx=''):
    m = C[cls][prop]
    body=[s for s in m.body if not (isinstance(s, ast.Expr) and isinstance(s.value, ast.Constant))]
    env={}
    for s in body:
        if isinstance(s, ast.Assign) and isinstance(s.targets[0], ast.Name): env[s.targets[0].id]=conv(s.value, cls, ctx, env)
        elif isinstance(s, ast.If):
            # clamp idiom: if v < 1: v = 1
            tst=s.test
            if isinstance(tst, ast.Compare) and isinstance(tst.ops[0], ast.Lt) and isinstance(tst.left, ast.Name) and len(s.body)==1 and isinstance(s.body[0], ast.Assign):
                v=tst.left.id; env[v]=sp.Max(env[v], conv(s.body[0].value, cls, ctx, env))
            elif 'isfinite' in ast.unparse(tst):
                v=[n.id for n in ast.walk(tst) if isinstance(n, ast.Name) and n.id in env][0]
                env[v]=sp.Function('finite_or')(env[v], conv(s.body[0].value, cls, ctx, env))
            elif ast.unparse(tst).endswith('is None'): pass
            else: raise NotImplementedError(ast.unparse(tst))
        elif isinstance(s, ast.Return): return conv(s.value, cls, ctx, env)
def conv(e, cls, ctx, env):
    if isinstance(e, ast.Constant): return sp.nsimplify(e.value)
    if isinstance(e, ast.Name): return env[e.id] if e.id in env else atom(e.id)
    if isinstance(e, ast.BinOp):
        a,b=conv(e.left,cls,ctx,env),conv(e.right,cls,ctx,env)
        return {ast.Add:a+b, ast.Sub:a-b, ast.Mult:a*b, ast.Div:a/b, ast.Pow:a**b}[type(e.op)]
    if isinstance(e, ast.Attribute):
        # self.prop or self.col.prop
        if isinstance(e.value, ast.Name) and e.value.id=='self':
            if e.attr in C[cls]:
                if e.attr in COL: return atom(ctx+e.attr)  # object; handled by parent
                if e.attr in ('_df','series','df'): return atom(ctx+'series' if cls=='ColumnMetrics' else 'DF')
                return expr_of(cls, e.attr, ctx)
            return atom(ctx+e.attr)
        if isinstance(e.value, ast.Attribute) and ast.unparse(e.value.value)=='self' and e.value.attr in COL:
            return expr_of('ColumnMetrics', e.attr, ctx=e.value.attr+'.')
        if isinstance(e.value, ast.Attribute) and ast.unparse(e.value)=='self._baseline':
            return expr_of('BaselineMetrics', e.attr, ctx='')
    if isinstance(e, ast.Call):
        f=ast.unparse(e.func)
        if f=='_safe_divide': return sp.Function('safe_div')(conv(e.args[0],cls,ctx,env), conv(e.args[1],cls,ctx,env))
        if f=='len': return sp.Function('n')(conv(e.args[0],cls,ctx,env))
        if f in ('np.sqrt',): return sp.sqrt(conv(e.args[0],cls,ctx,env))
        if f=='float': return conv(e.args[0],cls,ctx,env)
        if isinstance(e.func, ast.Attribute):
            recv=e.func.value; meth=e.func.attr
            r=conv_series(recv, cls, ctx)
            kw=','.join(f"{k.arg}={ast.unparse(k.value)}" for k in e.keywords)
            return sp.Function(meth+('_'+kw.replace('=','') if kw else ''))(r)
    raise NotImplementedError(ast.dump(e)[:120])
def conv_series(e, cls, ctx):
    s=ast.unparse(e)
    if cls=='ColumnMetrics' and s=='self.series': return atom(ctx+'series')
    if cls=='ColumnMetrics' and s=='self.series ** 2': return atom(ctx+'series')**2
    if s.startswith("self._df["): 
        col=ast.literal_eval(e.slice) if isinstance(e, ast.Subscript) else None
        return atom(f"{col}.series")
    if isinstance(e, ast.Call) and isinstance(e.func, ast.Attribute):
        return sp.Function(e.func.attr)(conv_series(e.func.value, cls, ctx))
    raise NotImplementedError(s)
ref = {
 'mse':   "Sum2(r)/N", 'rmse': "sqrt(Sum2(r)/N)", 'rmse_adj': "sqrt(Sum2(r)/Max(N-p,1))",
 'cvrmse': "safe_div(sqrt(Sum2(r)/N), Sum(o)/N)", 'cvrmse_adj': "safe_div(sqrt(Sum2(r)/Max(N-p,1)), Sum(o)/N)",
 'mbe': "Sum(r)/N", 'ddof': "Max(N-p,1)",
}
r,o = atom('residuals.series'), atom('observed.series')
N = sp.Function('n')(atom('DF')); p = atom('num_model_params')
loc = {'Sum2': lambda x: sp.Function('sum')(x**2), 'Sum': lambda x: sp.Function('sum')(x), 'N':N, 'p':p, 'r':r, 'o':o, 'safe_div': sp.Function('safe_div'), 'Max': sp.Max, 'sqrt': sp.sqrt}
for k,v in ref.items():
    got = expr_of('BaselineMetrics', k)
    # len(self.series) inside ColumnMetrics is n(series) -- identify with N for the three columns (same filtered frame)
    got = got.replace(lambda x: x.func==sp.Function('n'), lambda x: N)
    want = eval(v, {}, loc)
    same = sp.simplify(got - want)==0 if not got.has(sp.Function('safe_div')) else sp.simplify(got.args[0]-want.args[0])==0 and sp.simplify(got.args[1]-want.args[1])==0
    print(f"{k:12s} {'OK ' if same else 'DIFF'} got={got}")
