import numpy as np, pandas as pd, warnings
warnings.filterwarnings("ignore")
from opendsm.eemeter.common.data_processor_utilities import as_freq
idx = pd.date_range("2021-03-01", periods=48*3, freq="30min", tz="UTC")
t = pd.Series(60.0, index=idx); t.iloc[49:68] = np.nan                 # second day: 19 of 48 half-hourly readings missing (60 % present -> day kept)
tf = as_freq(t, "D", series_type="instantaneous", include_coverage=True)
tf = tf[tf.coverage > 0.5].reindex(tf.index)[["value"]].rename(columns={"value": "temperature_mean"})
tf["temperature_null"] = t.isnull().astype(int)                        # the two statements of _compute_temperature_features
tf["temperature_not_null"] = t.notnull().astype(int)
print(tf); print("true counts for day 2: null=19 not_null=29 -> coverage 0.60 (< 0.9: the day should not count as a valid temperature day)")
