import numpy as np, pandas as pd, logging, warnings
warnings.filterwarnings("ignore"); logging.disable(logging.CRITICAL)
from opendsm.eemeter.models.billing.data import BillingBaselineData
tz = "America/Chicago"
t_idx = pd.date_range("2021-01-01", "2021-12-31 23:00", freq="h", tz=tz)
temp = pd.Series(50 + 20*np.sin(np.arange(len(t_idx))/24/58), index=t_idx, name="temperature")
day = pd.Timestamp("2021-03-14", tz=tz)                       # 23-hour spring-forward day
mask = (temp.index >= day) & (temp.index < day + pd.Timedelta(days=1))
present = temp[mask].index[:12]                                # keep exactly 12 of its 23 hourly readings (52 % present)
temp[mask & ~temp.index.isin(present)] = np.nan
m_idx = pd.date_range("2021-01-01", "2022-01-01", freq="MS", tz=tz)
meter = pd.Series(900.0, index=m_idx, name="observed"); meter.iloc[-1] = np.nan
d = BillingBaselineData.from_series(meter, temp, is_electricity_data=True)
got = d.df.loc[day, "temperature"]; ref = temp[present].mean()
print("2021-03-14: 12 of 23 readings present (52 %) -> expected mean", round(ref, 3), "got", got)
