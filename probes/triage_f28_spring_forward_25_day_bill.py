"""Triage F28 (C08): a billing period of 25 local calendar days that contains the spring-forward day lasts 24 days 23 hours; clean_billing_data
measures the period with `.days` of the timestamp difference (24) and drops it as off-cycle (< 25 days): its billed usage is lost.
Run: PYTHONPATH=/repo /venv/bin/python probes/triage_f28_spring_forward_25_day_bill.py   (exit 1 = defect reproduced)"""
import sys, warnings, logging
warnings.filterwarnings("ignore"); logging.disable(logging.CRITICAL)
import numpy as np, pandas as pd
from opendsm.eemeter.common.data_processor_utilities import clean_billing_data

def run(tz, reads):
    idx = pd.DatetimeIndex([pd.Timestamp(d, tz=tz) for d in reads])
    data = pd.DataFrame({"value": [500.0] * (len(idx) - 1) + [np.nan]}, index=idx)
    w = []
    out = clean_billing_data(data.copy(), "billing_monthly", w)
    return idx, out, w

bad = 0
for tz, reads in (("America/Chicago", ["2021-02-01", "2021-03-01", "2021-03-26", "2021-04-25", "2021-05-25"]),      # 28, 25 (across 14 March), 30, 30 days
                  ("UTC", ["2021-02-01", "2021-03-01", "2021-03-26", "2021-04-25", "2021-05-25"])):
    idx, out, w = run(tz, reads)
    lengths = [(b.tz_localize(None) - a.tz_localize(None)).days for a, b in zip(idx[:-1], idx[1:])]
    print(tz, "calendar days per period", lengths, "elapsed", list((idx[1:] - idx[:-1])))
    print(out["value"].tolist(), [getattr(x, "qualified_name", x) for x in w])
    second = out["value"].iloc[1]
    if np.isnan(second):
        print("  -> the 25-day period is dropped as off-cycle in", tz)
        bad += 1
sys.exit(1 if bad else 0)
