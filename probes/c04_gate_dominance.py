"""probe: C04 gates -- truth table of the guard + dominance over the work call (throwaway)"""
import ast, pathlib, itertools
import networkx as nx
R = pathlib.Path('/repo/opendsm')

def build_cfg(fn):
    """statement-level CFG: nodes are ast stmts (by id) + ENTRY/EXIT/RAISE; if/for/while/try/with/return/raise"""
    G = nx.DiGraph(); G.add_node('ENTRY'); G.add_node('EXIT'); G.add_node('RAISE')
    def seq(stmts, preds, loop=None):
        # preds: set of nodes flowing into first stmt; returns set of nodes flowing out
        for s in stmts:
            n = id(s); G.add_node(n, stmt=s)
            for p in preds: G.add_edge(p, n)
            if isinstance(s, ast.If):
                a = seq(s.body, {n}, loop); b = seq(s.orelse, {n}, loop) if s.orelse else {n}
                preds = a | b
            elif isinstance(s, (ast.For, ast.While)):
                body_out = seq(s.body, {n}, loop=(n,))
                for p in body_out: G.add_edge(p, n)
                preds = {n} | (seq(s.orelse, {n}, loop) if s.orelse else set())
            elif isinstance(s, ast.Try):
                body_out = seq(s.body, {n}, loop)
                h_out=set()
                for h in s.handlers:
                    hn=id(h); G.add_node(hn, stmt=h); G.add_edge(n, hn)   # conservative: any point in try may jump
                    for b in ast.walk(ast.Module(body=s.body, type_ignores=[])):
                        if isinstance(b, ast.stmt) and id(b) in G: G.add_edge(id(b), hn)
                    h_out |= seq(h.body, {hn}, loop)
                else_out = seq(s.orelse, body_out, loop) if s.orelse else body_out
                preds = else_out | h_out
                if s.finalbody: preds = seq(s.finalbody, preds, loop)
            elif isinstance(s, ast.With):
                preds = seq(s.body, {n}, loop)
            elif isinstance(s, ast.Return):
                G.add_edge(n, 'EXIT'); preds=set()
            elif isinstance(s, ast.Raise):
                G.add_edge(n, 'RAISE'); preds=set()
            elif isinstance(s, (ast.Break, ast.Continue)):
                preds=set()  # not needed for these functions
            else:
                preds={n}
        return preds
    out = seq(fn.body, {'ENTRY'})
    for p in out: G.add_edge(p, 'EXIT')
    return G

def truth(test, atoms):
    """atoms: dict name -> predicate(ast expr)->bool ; evaluate test for all assignments"""
    names=list(atoms)
    rows={}
    for vals in itertools.product([False,True], repeat=len(names)):
        env=dict(zip(names,vals))
        def ev(e):
            if isinstance(e, ast.BoolOp):
                vs=[ev(v) for v in e.values]; return all(vs) if isinstance(e.op, ast.And) else any(vs)
            if isinstance(e, ast.UnaryOp) and isinstance(e.op, ast.Not): return not ev(e.operand)
            for nm,pred in atoms.items():
                if pred(e): return env[nm]
            raise ValueError("unknown atom "+ast.unparse(e))
        rows[vals]=ev(test)
    return names, rows

targets = [
 ('eemeter/models/daily/model.py','DailyModel','fit','DataSufficiencyError', lambda p: (lambda e: ast.unparse(e)==f'{p}.disqualification'), ['_fit']),
 ('eemeter/models/daily/model.py','DailyModel','predict','DisqualifiedModelError', lambda p: (lambda e: ast.unparse(e)=='self.disqualification'), ['_predict']),
 ('eemeter/models/billing/model.py','BillingModel','predict','DisqualifiedModelError', lambda p: (lambda e: ast.unparse(e)=='self.disqualification'), ['_predict']),
 ('eemeter/models/billing/weighted_model.py','BillingWeightedModel','predict','DisqualifiedModelError', lambda p: (lambda e: ast.unparse(e)=='self.disqualification'), ['_predict']),
 ('eemeter/models/hourly/model.py','HourlyModel','fit','DataSufficiencyError', lambda p: (lambda e: ast.unparse(e)==f'{p}.disqualification'), ['_fit','_adaptive_fit']),
 ('eemeter/models/hourly/model.py','HourlyModel','predict','DisqualifiedModelError', lambda p: (lambda e: ast.unparse(e)=='self.disqualification'), ['_predict']),
]
for rel, cls, meth, exc, dqpred, work in targets:
    t = ast.parse((R/rel).read_text())
    c = [n for n in t.body if isinstance(n, ast.ClassDef) and n.name==cls][0]
    f = [m for m in c.body if isinstance(m, ast.FunctionDef) and m.name==meth][0]
    data_param = f.args.args[1].arg
    flag = [a.arg for a in f.args.args if 'ignore' in a.arg][0]
    fdefault = dict(zip([a.arg for a in f.args.args][-len(f.args.defaults):], f.args.defaults))[flag]
    G = build_cfg(f)
    idom = nx.immediate_dominators(G, 'ENTRY')
    def dominates(a, b):
        x=b
        while x!=idom[x]:
            x=idom[x]
            if x==a: return True
        return False
    gates=[s for s in ast.walk(f) if isinstance(s, ast.If) and any(isinstance(r, ast.Raise) and exc in ast.unparse(r.exc) for r in s.body)]
    assert len(gates)==1, (cls,meth,len(gates))
    g=gates[0]
    names, rows = truth(g.test, {'dq': dqpred(data_param), 'ign': lambda e: isinstance(e, ast.Name) and e.id==flag})
    spec = {v: (v[0] and not v[1]) for v in rows}
    works=[s for s in ast.walk(f) if isinstance(s, ast.stmt) and any(isinstance(n, ast.Call) and isinstance(n.func, ast.Attribute) and n.func.attr in work and ast.unparse(n.func.value)=='self' for n in ast.walk(s)) and id(s) in G and not isinstance(s,(ast.If,ast.For,ast.While,ast.Try,ast.With))]
    dom = all(dominates(id(g), id(w)) for w in works)
    in_try = any(isinstance(n, ast.Try) for n in ast.walk(f))
    print(f"{cls}.{meth}: table_ok={rows==spec} raises={exc} dominates_work={dom} ({len(works)} work stmts) default={ast.unparse(fdefault)} try_in_fn={in_try} body_ends_in_raise={isinstance(g.body[-1], ast.Raise)}")
