import warnings; warnings.filterwarnings("ignore")
import numpy as np, pandas as pd, hashlib, sys
from opendsm.eemeter.models.hourly_caltrack.segmentation import CalTRACKSegmentModel
rng = np.random.default_rng(1)
idx = pd.date_range("2020-01-01", periods=24*28, freq="h", tz="UTC")
how = (idx.dayofweek*24 + idx.hour)
data = pd.DataFrame({"hour_of_week": pd.Categorical(how, categories=range(168))}, index=idx)
cols = [f"bin_{i}_occupied" for i in range(7)] + [f"bin_{i}_unoccupied" for i in range(7)]
for c in cols: data[c] = rng.uniform(0, 15, len(idx))
params = {f"C(hour_of_week)[{h}]": float(rng.normal(1,0.3)) for h in range(168)}
params.update({c: float(rng.normal(0.05,0.02)) for c in cols})
formula = "meter_value ~ C(hour_of_week) - 1 + " + " + ".join(cols)
m = CalTRACKSegmentModel("all", None, formula, params)
p = m.predict(data)
print(hashlib.sha256(p.values.tobytes()).hexdigest()[:16], float(p.sum()))
