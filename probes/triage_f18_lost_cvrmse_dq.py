import numpy as np, pandas as pd, json
from opendsm.eemeter.models.daily.model import DailyModel
from opendsm.eemeter.models.daily.parameters import DailyModelParameters, DailySubmodelParameters, ModelCoefficients, ModelType
from opendsm.eemeter.models.daily.data import DailyBaselineData
from opendsm.eemeter.common.exceptions import DisqualifiedModelError
class FakeData(DailyBaselineData):
    def __init__(self):
        self.disqualification=[]; self.warnings=[]; self.tz='UTC'
        self._df=pd.DataFrame({'temperature':[50.0],'observed':[1.0]}, index=pd.date_range('2020-01-01',periods=1,tz='UTC'))
    def log_warnings(self): pass
m=DailyModel()
class Sub:  # stand-in for a fitted component
    T_min=0;T_max=100;T_min_seg=0;T_max_seg=100;f_unc=1.0
    named_coeffs=ModelCoefficients(model_type=ModelType.TIDD, intercept=1.0)
def fake_fit(df):
    m.model={'fw-su_sh_wi':Sub()}
    m.error['CVRMSE']=99.0   # poor fit
    m.params=m._create_params_from_fit_model(); m.is_fitted=True
m._fit=fake_fit
m.fit(FakeData())
print('live model dq:', [d.qualified_name for d in m.disqualification])
m2=DailyModel.from_json(m.to_json())
print('reloaded model dq:', m2.disqualification)
