import ast, pathlib
src = pathlib.Path('/repo/opendsm/eemeter/models/hourly/model.py').read_text()
t = ast.parse(src)
cls = [n for n in t.body if isinstance(n, ast.ClassDef) and n.name=="HourlyModel"][0]
methods = {m.name: m for m in cls.body if isinstance(m, ast.FunctionDef)}
# call graph self.m
def callees(fn):
    out=set()
    for n in ast.walk(fn):
        if isinstance(n, ast.Call) and isinstance(n.func, ast.Attribute) and isinstance(n.func.value, ast.Name) and n.func.value.id=="self" and n.func.attr in methods:
            out.add(n.func.attr)
    return out
reach=set(); stack=["predict"]
while stack:
    m=stack.pop()
    if m in reach: continue
    reach.add(m); stack.extend(callees(methods[m]))
print("reach from predict:", sorted(reach))
MUT = {"append","extend","remove","insert","pop","clear","update","sort","fit","fit_transform","setdefault"}
def guard_stack(fn):
    # yield (node, guards) where guards is list of (test_src, branch)
    def rec(stmts, guards):
        for s in stmts:
            yield s, guards
            if isinstance(s, ast.If):
                yield from rec(s.body, guards+[(ast.unparse(s.test), True)])
                yield from rec(s.orelse, guards+[(ast.unparse(s.test), False)])
            elif isinstance(s, (ast.For, ast.While, ast.With, ast.Try)):
                for fld in ("body","orelse","finalbody"):
                    yield from rec(getattr(s, fld, []), guards)
                for h in getattr(s, "handlers", []):
                    yield from rec(h.body, guards)
            elif isinstance(s, ast.FunctionDef):
                yield from rec(s.body, guards)
    yield from rec(fn.body, [])
for m in sorted(reach):
    for s, g in guard_stack(methods[m]):
        fit_only = any((gs=="not self.is_fitted" and br) or (gs=="self.is_fitted" and not br) for gs,br in g)
        tgts=[]
        if isinstance(s, ast.Assign): tgts=s.targets
        elif isinstance(s, (ast.AugAssign, ast.AnnAssign)): tgts=[s.target]
        for tg in tgts:
            for e in (tg.elts if isinstance(tg, ast.Tuple) else [tg]):
                base=e
                while isinstance(base,(ast.Subscript,ast.Attribute)) and not (isinstance(base, ast.Attribute) and isinstance(base.value, ast.Name) and base.value.id=="self"):
                    base=base.value
                if isinstance(base, ast.Attribute) and isinstance(base.value, ast.Name) and base.value.id=="self":
                    print(f"{m}:{s.lineno} WRITE self.{base.attr}  [{ast.unparse(e)[:50]}] fit_only={fit_only}")
        if isinstance(s, ast.Expr) and isinstance(s.value, ast.Call) and isinstance(s.value.func, ast.Attribute) and s.value.func.attr in MUT:
            b=s.value.func.value
            while isinstance(b,(ast.Subscript,ast.Attribute)) and not (isinstance(b, ast.Attribute) and isinstance(b.value, ast.Name) and b.value.id=="self"):
                b=b.value
            if isinstance(b, ast.Attribute) and isinstance(b.value, ast.Name) and b.value.id=="self":
                print(f"{m}:{s.lineno} MUTCALL self.{b.attr}.{s.value.func.attr} fit_only={fit_only}")
