import warnings; warnings.filterwarnings("ignore")
import numpy as np, pandas as pd
# 1. legacy daily settings round trip
from opendsm.eemeter.models.daily.utilities.settings import DailySettings, DailyLegacySettings
d = DailyLegacySettings().model_dump()
try:
    DailySettings(**d); print("legacy->current settings reload: OK")
except Exception as e:
    print("legacy->current settings reload FAILS:", type(e).__name__, str(e)[:150])
try:
    DailyLegacySettings(**d); print("legacy->legacy reload OK")
except Exception as e:
    print("legacy->legacy FAILS", str(e)[:100])
# 2. chained assignment
df = pd.DataFrame({"temperature":[1.0,np.nan,3.0],"observed":[1.0,2.0,3.0]})
df[df["temperature"].isna()]["observed"] = np.nan
print("after chained assign observed:", df["observed"].tolist())
# 3. caltrack reporting data mutates caller df
from opendsm.eemeter.models.hourly_caltrack.data import HourlyReportingData
idx = pd.date_range("2020-01-01", periods=48, freq="h", tz="UTC")
src = pd.DataFrame({"temperature": np.arange(48.0), "observed": np.r_[0.0, np.arange(1.0,48.0)]}, index=idx)
before = src.copy()
try:
    HourlyReportingData(src, True)
except Exception as e:
    print("ctor err", type(e).__name__, e)
print("caller frame modified:", not before.equals(src), src["observed"].iloc[0])
src2 = pd.DataFrame({"temperature": np.arange(48.0)}, index=idx)
try:
    HourlyReportingData(src2, True)
except Exception as e:
    print("ctor err", type(e).__name__, e)
print("caller frame got new column:", list(src2.columns))
