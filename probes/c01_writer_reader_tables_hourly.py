import ast, pathlib
R = pathlib.Path('/repo/opendsm')
t = ast.parse((R/'eemeter/models/hourly/model.py').read_text())
cls = [n for n in t.body if isinstance(n, ast.ClassDef) and n.name=='HourlyModel'][0]
M = {m.name:m for m in cls.body if isinstance(m, ast.FunctionDef)}
def self_roots(e, selfname):
    out=set()
    for n in ast.walk(e):
        if isinstance(n, ast.Attribute) and isinstance(n.value, ast.Name) and n.value.id==selfname: out.add(n.attr)
    return out
# writer: locals -> roots (flow-insensitive union incl. subscript stores)
td = M['to_dict']; loc={}
def note(name, e):
    loc.setdefault(name,set()).update(self_roots(e,'self'))
    for n in ast.walk(e):
        if isinstance(n, ast.Name) and n.id in loc and n.id!=name: loc[name] |= loc[n.id]
for _ in range(3):
    for s in ast.walk(td):
        if isinstance(s, ast.Assign):
            for tg in s.targets:
                b=tg
                while isinstance(b, ast.Subscript): b=b.value
                if isinstance(b, ast.Name): note(b.id, s.value)
W={}
for c in ast.walk(td):
    if isinstance(c, ast.Call) and ast.unparse(c.func).endswith('SerializeModel'):
        for k in c.keywords:
            if isinstance(k.value, ast.Call) and ast.unparse(k.value.func).endswith('ModelInfo'):
                for kk in k.value.keywords:
                    W['info.'+kk.arg]= self_roots(kk.value,'self') | set().union(*[loc.get(n.id,set()) for n in ast.walk(kk.value) if isinstance(n, ast.Name)])
            else:
                W[k.arg]= self_roots(k.value,'self') | set().union(*[loc.get(n.id,set()) for n in ast.walk(k.value) if isinstance(n, ast.Name)])
print("WRITER"); [print("  ",k,sorted(v)) for k,v in W.items()]
# reader
fd = M['from_dict']; keys={}
def data_keys(e):
    out=[]
    for n in ast.walk(e):
        if isinstance(n, ast.Call) and isinstance(n.func, ast.Attribute) and n.func.attr=='get' and n.args and isinstance(n.args[0], ast.Constant):
            out.append(n.args[0].value)
    return out
lk={}
for _ in range(3):
    for s in ast.walk(fd):
        if isinstance(s, ast.Assign) and isinstance(s.targets[0], ast.Name):
            ks=set(data_keys(s.value))
            for n in ast.walk(s.value):
                if isinstance(n, ast.Name) and n.id in lk: ks|=lk[n.id]
            lk.setdefault(s.targets[0].id,set()).update(ks)
Rd={}
for s in ast.walk(fd):
    if isinstance(s, ast.Assign):
        tg=s.targets[0]
        if isinstance(tg, ast.Attribute):
            chain=ast.unparse(tg)
            if chain.startswith('model_cls.'):
                ks=set(data_keys(s.value))
                for n in ast.walk(s.value):
                    if isinstance(n, ast.Name) and n.id in lk: ks|=lk[n.id]
                    if isinstance(n, ast.Attribute) and isinstance(n.value, ast.Name) and n.value.id=='info': ks.add('info.'+n.attr)
                Rd[chain[len('model_cls.'):]]=ks
print("READER"); [print("  ",k,sorted(v)) for k,v in Rd.items()]
