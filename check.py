#!/usr/bin/env python3
"""Entry point:  python3-vt /verif/check.py <Cxx> --tier quick|thorough [--repo P] [--replay F]

Static analysis only: parses the source under --repo (default /repo) on every run; nothing from the
analysed repository is imported or executed.  Exit 0 = decided clauses hold (known findings are
printed as KNOWN-FINDING lines), 1 = VIOLATION, 2 = ANALYSIS-ERROR (anchor vanished / floor unmet).
"""
from __future__ import annotations

import argparse
import importlib
import json
import os
import sys
import traceback

HERE = os.path.dirname(os.path.abspath(__file__))
sys.path.insert(0, HERE)

from engine.index import AnalysisError  # noqa: E402
from engine.report import Check  # noqa: E402


def run_property(prop: str, tier: str, repo: str, seed: int, evidence_dir=None, quiet=False, selftest=True) -> int:
    mod = importlib.import_module(f"rules.{prop.lower()}")
    chk = Check(prop, tier=tier, repo_root=repo, seed=seed, evidence_dir=evidence_dir, quiet=quiet)
    try:
        mod.run(chk)
        if tier == "thorough" and selftest and os.path.abspath(repo) == "/repo":
            from selftest.runner import run_for_property
            chk.selftest = run_for_property(prop)
            if chk.selftest.get("failed"):
                r = chk.rule("SELFTEST", "checker self-test: every break variant fires, every benign variant is silent", 0)
                raise AnalysisError("self-test failed: " + "; ".join(chk.selftest["failed"][:5]))
    except AnalysisError as e:
        print(f"ANALYSIS-ERROR property={prop} {e}")
        try:
            chk.extra["fatal_analysis_error"] = str(e)
            code = chk.finish()
        except Exception:
            code = 2
        return code if code in (1, 2) else 2
    return chk.finish()


def main(argv=None) -> int:
    ap = argparse.ArgumentParser()
    ap.add_argument("property")
    ap.add_argument("--tier", default=os.environ.get("VERIF_TIER", "quick"), choices=["quick", "thorough"])
    ap.add_argument("--repo", default="/repo")
    ap.add_argument("--replay", default=None)
    ap.add_argument("--evidence-dir", default=None)
    ap.add_argument("--quiet", action="store_true")
    ap.add_argument("--no-selftest", action="store_true")
    a = ap.parse_args(argv)
    seed = int(os.environ.get("VERIF_SEED", "0") or 0)
    prop = a.property.upper()
    try:
        if a.replay:
            with open(a.replay, encoding="utf-8") as fh:
                rp = json.load(fh)
            import tempfile
            with tempfile.TemporaryDirectory() as td:
                mod = importlib.import_module(f"rules.{prop.lower()}")
                chk = Check(prop, tier="quick", repo_root=a.repo, seed=seed, evidence_dir=td, quiet=True)
                mod.run(chk)
                chk.finish()
                hits = [f for r in chk.rules.values() for f in r.findings if f.rule == rp["rule"] and f.key == rp["key"]]
            if hits:
                f = hits[0]
                print(f"REPRODUCED {f.rule} {f.where} [{f.key}]\n  {f.message}\n  detail: {json.dumps(f.detail, default=str)[:2000]}")
                print(f"VIOLATION property={prop} replay={a.replay}")
                return 1
            print(f"not reproduced on {a.repo}: rule={rp['rule']} key={rp['key']}")
            return 0
        return run_property(prop, a.tier, a.repo, seed, a.evidence_dir, a.quiet, not a.no_selftest)
    except AnalysisError as e:
        print(f"ANALYSIS-ERROR property={prop} {e}")
        return 2
    except Exception:
        traceback.print_exc()
        print(f"ANALYSIS-ERROR property={prop} internal error in the checker (traceback above)")
        return 2


if __name__ == "__main__":
    sys.exit(main())
