"""C08 R08.3 (billing side): how `_BillingData._compute_meter_value_df` turns bills into days, read off the *terms* it builds.

The method is interpreted from its AST on recording values (engine.absint.Sym) for each granularity `compute_minimum_granularity` can
report and both ways of every data-dependent branch.  On each path that has usage the obligations are:

  final-nan-convention  before the series is cleaned, a NaN reading is stored one day after the last covered day (the same `end` the
                        calendar of the result ends on, or the value it is normalised from): without it the last bill has no end and
                        its usage is lost
  spread-to-days        what is returned derives from as_freq(<cleaned>['value'], 'D') - the cumulative branch with default atoms, so
                        each bill is divided over its own days - with the open-ended final row dropped ([:-1])
Local names, helper functions, statement order and spelling (`.value` / `['value']`, `.iloc[:-1]`) do not matter."""
from __future__ import annotations

from typing import Any, Dict, List, Tuple

from engine.absint import ModuleEnv, Oracle, Sym, SymWorld, canon, explore, sym_root, sym_walk
from engine.index import AnalysisError
from engine.pyinterp import Function, Interp, InterpRaised, Stub, StubCall, Unsupported
from rules.common import bind_like

GRANULARITIES = ("billing_monthly", "billing_bimonthly", "daily", "hourly")


def outcomes(chk, fi) -> List[Dict[str, Any]]:
    cbd = chk.repo.func("opendsm.eemeter.common.data_processor_utilities", "clean_billing_daily_data")
    af = chk.repo.func("opendsm.eemeter.common.data_processor_utilities", "as_freq")
    outs: List[Dict[str, Any]] = []
    for gran in GRANULARITIES:
        orc = Oracle()

        def run():
            w = SymWorld(orc)
            df = sym_root(w, "df")
            seen: Dict[str, Any] = {"clean": [], "as_freq": []}

            class _Self(Stub):
                pass
            me = _Self()
            me.warnings, me.disqualification = [], []

            def clean(*a, **k):
                vals = bind_like(cbd, a, k)
                ps = [p_ for p_ in cbd.params]
                r = Sym(w, "call", sym_root(w, "clean_billing_daily_data"), (vals.get(ps[0]), vals.get(ps[1])), ())
                seen["clean"].append({"data": vals.get(ps[0]), "granularity": vals.get(ps[1]), "effects_before": list(w.effects), "result": r})
                return r

            def as_freq(*a, **k):
                vals = bind_like(af, a, k)
                r = Sym(w, "call", sym_root(w, "as_freq"), (vals.get("data_series"), vals.get("freq")), ())
                seen["as_freq"].append({"data": vals.get("data_series"), "freq": vals.get("freq"), "series_type": vals.get("series_type", "cumulative"),
                                        "atomic_freq": vals.get("atomic_freq", "1 Min"), "include_coverage": vals.get("include_coverage", False), "result": r})
                return r
            it = Interp(step_limit=200_000)
            env = ModuleEnv(chk.repo, fi.module, it, {"pd": sym_root(w, "pd"), "np": sym_root(w, "np"), "compute_minimum_granularity": StubCall(lambda *a, **k: gran),
                                                      "clean_billing_daily_data": StubCall(clean), "as_freq": StubCall(as_freq),
                                                      "EEMeterWarning": StubCall(lambda **k: k.get("qualified_name"))})
            try:
                r = Function(fi.node, env, it)(me, df)
            except InterpRaised as e:
                return {"raises": e.exc_name, "seen": seen}
            return {"result": r, "seen": seen, "effects": list(w.effects)}
        try:
            for tr, res in explore(run, orc, max_runs=64):
                res = dict(res)
                res["decisions"], res["granularity"] = tr, gran
                outs.append(res)
        except Unsupported as e:
            raise AnalysisError(f"{fi.key}: uses an operation outside the modelled subset: {e}")
    return outs


def _contains(term, sub) -> bool:
    k = canon(sub)
    return any(isinstance(s, Sym) and s.key() == k for s in sym_walk(term))


def judge(chk, fi) -> Tuple[List[Tuple[str, str]], int]:
    bad: Dict[str, str] = {}
    n = 0
    for o in outcomes(chk, fi):
        ctx = f"(granularity {o['granularity']}, decisions {[(t[:60], v) for t, v in o['decisions']]})"
        if "raises" in o:
            continue
        if any(("empty" in t and v) for t, v in o["decisions"]) and not o["seen"]["clean"]:
            continue      # no usage at all: nothing to spread
        n += 1
        r = o["result"]
        cl, afs = o["seen"]["clean"], o["seen"]["as_freq"]
        # ---- spread-to-days
        ok_af = [a for a in afs if a["freq"] in ("D", "d", "1D") and a["series_type"] == "cumulative" and a["atomic_freq"] == "1 Min" and a["include_coverage"] is False
                 and any(isinstance(a["data"], Sym) and _contains(a["data"], c["result"]) for c in cl) and _contains(r, a["result"])]
        if not ok_af:
            bad.setdefault("spread-to-days", f"what is returned does not derive from as_freq(<cleaned bills>['value'], 'D') with the cumulative branch and default atoms: as_freq calls "
                                             f"{[(canon(a['data'])[:80], a['freq'], a['series_type'], a['atomic_freq']) for a in afs]}, returned `{canon(r)[:160]}` {ctx}")
        else:
            a0 = ok_af[0]["result"]
            dropped = [s for s in sym_walk(r) if isinstance(s, Sym) and s._op == "item" and isinstance(s._args[1], slice) and (s._args[1].start, s._args[1].stop, s._args[1].step) in ((None, -1, None), (0, -1, None))
                       and _contains(s._args[0], a0)]
            if not dropped:
                bad.setdefault("spread-to-days", f"the open-ended final row of the spread series is not dropped ([:-1]) in what is returned: `{canon(r)[:200]}` {ctx}")
            other = [s for s in sym_walk(r) if isinstance(s, Sym) and s._op == "item" and isinstance(s._args[1], slice) and _contains(s._args[0], a0)
                     and (s._args[1].start, s._args[1].stop, s._args[1].step) not in ((None, -1, None), (0, -1, None))]
            if other:
                bad.setdefault("spread-to-days", f"the spread series is cut by `{canon(other[0])[-40:]}`: only the open-ended final row may go {ctx}")
            # every day of the spread series reaches the result: the calendar may add days (outer merge / join), never select among them
            for c in [x for x in sym_walk(r) if isinstance(x, Sym) and x._op == "call" and isinstance(x._args[0], Sym) and x._args[0]._op == "attr"]:
                recv, meth = x_recv_meth = c._args[0]._args
                pos, kw = c._args[1], dict(c._args[2])
                in_recv = isinstance(recv, Sym) and _contains(recv, a0)
                in_args = any(_contains(a_, a0) for a_ in list(pos) + list(kw.values()) if isinstance(a_, (Sym, list, tuple)))
                if not (in_recv or in_args):
                    continue
                lost = None
                if meth in ("merge", "join") and (in_recv != in_args):
                    how = kw.get("how", "inner" if meth == "merge" else "left")
                    side = "left" if in_recv else "right"
                    if how not in ("outer", side):
                        lost = f"`{meth}(how={how!r})` with the spread days on the {side}"
                elif meth == "reindex" and in_recv:
                    tgt = pos[0] if pos else kw.get("index", kw.get("labels"))
                    if not (isinstance(tgt, Sym) and _contains(tgt, a0)):
                        lost = f"`reindex({canon(tgt)[:70]})`: only the labels of that calendar survive"
                elif meth in ("truncate", "head", "tail", "dropna", "drop_duplicates", "between_time", "first", "last") and in_recv:
                    lost = f"`{meth}(...)`"
                if lost:
                    bad.setdefault("spread-to-days", f"days of the spread series are selected away by {lost}: a bill spread over its own days loses the days the calendar does not list (e.g. the days of the first "
                                                     f"month before the first reading when finer data is rolled up to month starts), and with them part of the billed usage {ctx}")
        # ---- final-nan-convention
        if not cl:
            bad.setdefault("spread-to-days", f"the bills are not cleaned by clean_billing_daily_data before they are spread {ctx}")
            continue
        c0 = cl[0]
        stores = [e for e in c0["effects_before"] if e[0] == "setitem" and e[3] == "np.nan" and "Timedelta(days=1)" in e[2] and " + " in e[2]
                  and isinstance(c0["data"], Sym) and any(isinstance(s, Sym) and s.key() == e[1] for s in sym_walk(c0["data"]))]
        ends = [canon(kv[1]) for s in sym_walk(r) if isinstance(s, Sym) and s._op == "call" and canon(s._args[0]).endswith("date_range") for kv in s._args[2] if kv[0] == "end"]
        good = False
        for e in stores:
            base = e[2]
            for end in ends or [None]:
                if end is None:
                    good = True
                    continue
                core = end[:-len(".normalize()")] if end.endswith(".normalize()") else end
                if core in base or end in base:
                    good = True
        if not good:
            bad.setdefault("final-nan-convention", f"before the bills are cleaned a NaN reading must be stored one day after the last covered day (`series[end + Timedelta(days=1)] = nan`, with the "
                                                   f"`end` the result's calendar ends on): stores found {[(e[1][:50], e[2][:90], e[3]) for e in c0['effects_before'] if e[0] == 'setitem']}, calendar end {ends[:1]} {ctx}")
    return sorted(bad.items()), n
