"""C10 — sufficiency verdicts are exactly the published criteria."""
from __future__ import annotations

import ast
import math
from typing import Any, Dict, List, Optional, Set, Tuple

from engine import boolalg
from engine.cfg import CFG, EXIT
from engine.consteval import ConstEval, NotConstant
from engine.dataflow import ReachingDefs, backward_slice_exprs
from engine.absint import AbsObj, BoundRepoMethods, ModuleEnv, Oracle, Term, explore
from engine.pyinterp import Function, Interp, InterpRaised, Stub, StubCall, Unsupported
from engine.index import AnalysisError, ClassInfo, FuncInfo, calls_in, const_str, is_self_attr, kwarg, unparse, walk_no_nested
from rules.common import BILLING_DATA, DAILY_DATA, HOURLY_DATA

SC = "opendsm.eemeter.common.sufficiency_criteria"
P = "eemeter.sufficiency_criteria."
BASE_DQ = {P + "no_data", P + "negative_meter_values", P + "incorrect_number_of_total_days", P + "too_many_days_with_missing_data",
           P + "too_many_days_with_missing_meter_data", P + "too_many_days_with_missing_temperature_data", P + "missing_monthly_temperature_data"}
REP_DQ = {P + "no_data", P + "too_many_days_with_missing_data", P + "too_many_days_with_missing_temperature_data", P + "missing_monthly_temperature_data"}
SPEC_CALLS = {
    ("DailySufficiencyCriteria", "check_sufficiency_baseline"): BASE_DQ,
    ("DailySufficiencyCriteria", "check_sufficiency_reporting"): REP_DQ,
    ("BillingSufficiencyCriteria", "check_sufficiency_baseline"): BASE_DQ,
    ("BillingSufficiencyCriteria", "check_sufficiency_reporting"): REP_DQ,
    ("HourlySufficiencyCriteria", "check_sufficiency_baseline"): BASE_DQ | {P + "missing_monthly_meter_data", P + "missing_monthly_ghi_data"},
    ("HourlySufficiencyCriteria", "check_sufficiency_reporting"): REP_DQ | {P + "missing_monthly_ghi_data"},
}
# data class -> (criteria class, mode, must pass is_reporting_data=True?)
DATA_CLASSES = [
    (DAILY_DATA, "DailyBaselineData", "DailySufficiencyCriteria", "check_sufficiency_baseline", False),
    (DAILY_DATA, "DailyReportingData", "DailySufficiencyCriteria", "check_sufficiency_reporting", True),
    (BILLING_DATA, "BillingBaselineData", "BillingSufficiencyCriteria", "check_sufficiency_baseline", False),
    (BILLING_DATA, "BillingReportingData", "BillingSufficiencyCriteria", "check_sufficiency_reporting", True),
    (HOURLY_DATA, "HourlyBaselineData", "HourlySufficiencyCriteria", "check_sufficiency_baseline", False),
    (HOURLY_DATA, "HourlyReportingData", "HourlySufficiencyCriteria", "check_sufficiency_reporting", True),
]
# sinks the property fixes for names reachable from the daily / billing / hourly data classes
WARNING_ONLY = {P + "extreme_values_detected", "eemeter.data_quality.utc_index", P + "offcycle_reads_in_billing_monthly_data",
                P + "unable_to_confirm_daily_temperature_sufficiency", P + "missing_high_frequency_temperature_data",
                P + "missing_high_frequency_meter_data", P + "inferior_model_usage"}
DQ_ONLY = BASE_DQ | {P + "missing_monthly_meter_data", P + "missing_monthly_ghi_data"}
SCOPE_MODULES = (SC, "opendsm.eemeter.common.data_processor_utilities", DAILY_DATA, BILLING_DATA, HOURLY_DATA)


def _qname(chk, fi: FuncInfo, call: ast.Call) -> Optional[str]:
    q = kwarg(call, "qualified_name")
    if q is None and call.args:
        q = call.args[0]
    if q is None:
        return None
    try:
        return ConstEval(chk.res, fi.module).ev(q)
    except Exception:
        return None


def _sink_of(chk, fi: FuncInfo, call: ast.Call) -> Tuple[str, Optional[ast.AST]]:
    """('dq'|'warn'|'param:<name>'|'return'|'other:<text>', append statement)."""
    par = fi.module.parent(call)
    name = None
    if isinstance(par, ast.Call) and isinstance(par.func, ast.Attribute) and par.func.attr == "append" and par.args and par.args[0] is call:
        return _classify_sink(fi, par.func.value), fi.module.enclosing_stmt(par)
    if isinstance(par, ast.Assign) and len(par.targets) == 1 and isinstance(par.targets[0], ast.Name):
        name = par.targets[0].id
        for c in calls_in(fi.node):
            if isinstance(c.func, ast.Attribute) and c.func.attr == "append" and c.args and isinstance(c.args[0], ast.Name) and c.args[0].id == name:
                return _classify_sink(fi, c.func.value), fi.module.enclosing_stmt(c)
        for n in walk_no_nested(fi.node):
            if isinstance(n, ast.Return) and n.value is not None and name in unparse(n.value):
                return "return", n
    if isinstance(par, ast.Return):
        return "return", par
    if isinstance(par, (ast.List, ast.Tuple)):
        return "other:collected-in-literal", fi.module.enclosing_stmt(call)
    return "other:" + unparse(par)[:40] if par is not None else "other", fi.module.enclosing_stmt(call)


def _classify_sink(fi: FuncInfo, recv: ast.AST) -> str:
    t = unparse(recv)
    if t == "self.disqualification":
        return "dq"
    if t == "self.warnings":
        return "warn"
    if isinstance(recv, ast.Name) and recv.id in fi.params:
        return "param:" + recv.id
    return "other:" + t


def _always_prefixed(g: FuncInfo, call: ast.Call, arg: ast.AST, prefix: str) -> bool:
    """Is `arg` at `call` in g provably a string starting with `prefix`?  (literal, or a name every reaching
    definition of which is such a literal or passed the False branch of `if not name.startswith(prefix): name = <literal>`)"""
    if const_str(arg) is not None:
        return const_str(arg).startswith(prefix)
    if not isinstance(arg, ast.Name):
        return False
    cfg = CFG(g.node)
    rd = ReachingDefs(g.node, cfg)
    st = g.module.enclosing_stmt(call)
    for d in rd.reaching(st, arg.id):
        v = rd.value_of(d)
        if v is not None and const_str(v) is not None:
            if not const_str(v).startswith(prefix):
                return False
            continue
        ds = rd.def_stmt(d)
        if ds is None:
            return False
        gates = []
        for n, t in cfg.tests.items():
            node = cfg.stmt_of[n]
            if isinstance(node, ast.If) and unparse(t) in (f"not {arg.id}.startswith('{prefix}')",):
                body_ok = any(isinstance(b, ast.Assign) and len(b.targets) == 1 and unparse(b.targets[0]) == arg.id and (const_str(b.value) or "").startswith(prefix) for b in node.body) \
                    and not any(isinstance(x, (ast.Return, ast.Raise, ast.Break, ast.Continue)) for b in node.body for x in ast.walk(b))
                if body_ok:
                    gates.append(n)
        if not gates or cfg.paths_avoiding(id(ds), id(st), set(gates)):
            return False
    return True


def _resolve_param_sinks(chk, fi: FuncInfo, param: str, depth: int = 0, need_not_prefixed: Optional[Tuple[str, str]] = None) -> Set[str]:
    """Which lists are bound to `param` of fi at its call sites (transitively)?
    need_not_prefixed=(other_param, prefix): the site in fi is only reachable when `other_param` does NOT start with prefix;
    callers that provably pass such a prefixed string are skipped (infeasible path)."""
    out: Set[str] = set()
    if depth > 4:
        return {"other:depth"}
    plist = [p for p in fi.params if p not in ("self", "cls")]
    pos = plist.index(param)
    for g in chk.repo.all_functions():
        for c in calls_in(g.node):
            ts = chk.res.resolve_call(g, c)
            if fi not in ts:
                continue
            if need_not_prefixed is not None:
                op, prefix = need_not_prefixed
                oa = kwarg(c, op)
                if oa is None and op in plist and len(c.args) > plist.index(op):
                    oa = c.args[plist.index(op)]
                if oa is not None and _always_prefixed(g, c, oa, prefix):
                    continue
            arg = kwarg(c, param)
            if arg is None and len(c.args) > pos:
                arg = c.args[pos]
            if arg is None:
                out.add("other:default")
                continue
            s = _classify_sink(g, arg)
            if s.startswith("param:"):
                # is this forwarding call itself only reachable when some string parameter lacks a prefix?
                nnp = None
                gcfg = CFG(g.node)
                for t, pol in gcfg.guards(g.module.enclosing_stmt(c)):
                    if not pol and isinstance(t, ast.Call) and isinstance(t.func, ast.Attribute) and t.func.attr == "startswith" \
                            and isinstance(t.func.value, ast.Name) and t.func.value.id in g.params and t.args and const_str(t.args[0]):
                        nnp = (t.func.value.id, const_str(t.args[0]))
                out |= _resolve_param_sinks(chk, g, s[6:], depth + 1, nnp)
            else:
                out.add(s + "@" + g.key)
    return out


def _collect_sites(chk):
    sites = []
    for mn in SCOPE_MODULES:
        m = chk.repo.module(mn)
        for fi in m.all_funcs:
            for c in calls_in(fi.node):
                if unparse(c.func) == "EEMeterWarning":
                    q = _qname(chk, fi, c)
                    sink, st = _sink_of(chk, fi, c)
                    sites.append({"fi": fi, "call": c, "q": q, "sink": sink, "stmt": st})
    return sites


def _norm_compare(e: ast.AST) -> Optional[Tuple[str, str, ast.AST]]:
    """Compare -> (quantity text, op symbol with quantity on the left, other side)."""
    if not isinstance(e, ast.Compare) or len(e.ops) != 1:
        return None
    sym = {ast.Lt: "<", ast.LtE: "<=", ast.Gt: ">", ast.GtE: ">=", ast.Eq: "==", ast.NotEq: "!="}.get(type(e.ops[0]))
    if sym is None:
        return None
    return unparse(e.left), sym, e.comparators[0]


FLIP = {"<": ">", "<=": ">=", ">": "<", ">=": "<=", "==": "==", "!=": "!="}
NEG = {"<": ">=", "<=": ">", ">": "<=", ">=": "<", "==": "!=", "!=": "=="}


from rules.colterms import CT, CFrame, SFrame  # noqa: E402


def _hourly_criteria_inputs(chk, cls_info, rep: bool, with_ghi: bool):
    """Interpret <hourly data class>._check_data_sufficiency: what frame, flags and check does the criteria object get?"""
    from engine.absint import Oracle, explore
    fi = chk.res.find_method(cls_info, "_check_data_sufficiency")
    if fi is None:
        raise AnalysisError(f"{cls_info.key}._check_data_sufficiency vanished")
    oracle = Oracle()
    cols = ["observed", "temperature"] + (["ghi"] if with_ghi else [])
    cols = cols + [f"interpolated_{c}" for c in cols]

    class _NP(Stub):
        nan = float("nan")
        NaN = nan

    def run():
        rec: Dict[str, Any] = {"made": [], "checks": []}

        class _HSC(Stub):
            def __init__(self_, **kw):
                rec["made"].append(kw)
                self_.disqualification, self_.warnings = ["DQ"], ["W"]

            def check_sufficiency_baseline(self_):
                rec["checks"].append("baseline")

            def check_sufficiency_reporting(self_):
                rec["checks"].append("reporting")
        it = Interp(step_limit=50_000)
        stand = {"HourlySufficiencyCriteria": StubCall(lambda *a, **k: _HSC(**k) if not a else (_ for _ in ()).throw(Unsupported("positional criteria arguments"))), "np": _NP(), "numpy": _NP()}
        me = AbsObj({cls_info.name, "_HourlyData"}, df=SFrame.start(cols, oracle), is_electricity_data=True)
        env = ModuleEnv(chk.repo, fi.module, it, stand)
        try:
            res = Function(fi.node, env, it)(me)
        except InterpRaised as e:
            return {"raises": e.exc_name}
        return {"made": rec["made"], "checks": rec["checks"], "returns": res}
    try:
        return fi, explore(run, oracle)
    except Unsupported as e:
        raise AnalysisError(f"{fi.key}: uses an operation outside the modelled subset: {e}")


def _judge_hourly_inputs(trace, o, rep: bool, with_ghi: bool) -> List[str]:
    if "raises" in o:
        return [f"raises {o['raises']}"]
    if len(o["made"]) != 1 or o["checks"] != ["reporting" if rep else "baseline"]:
        return [f"must build one criteria object and run its {'reporting' if rep else 'baseline'} checks; built {len(o['made'])}, ran {o['checks']}"]
    kw = o["made"][0]
    fr = kw.get("data")
    if not isinstance(fr, SFrame):
        return ["the criteria object is not given the sufficiency frame as data="]
    bad = []
    def blank(c): return f"blank(col:{c}, eq(col:interpolated_{c}, 1))"
    tb = blank("temperature")
    want = {"temperature": tb, "temperature_not_null": f"astype(notna({tb}), 'float')", "temperature_null": f"astype(not(notna({tb})), 'float')"}
    if with_ghi:
        want["ghi"] = blank("ghi")
    empty_usage = any(v for t, v in trace if t == f"empty(dropna({blank('observed')}))")
    if not (rep and empty_usage):
        want["observed"] = blank("observed")
    for c, w in want.items():
        got = fr._cols.get(c)
        got = got.key() if isinstance(got, Term) else repr(got)
        if got != w:
            bad.append(f"column `{c}` handed to the criteria is {got}; it must be {w} (filled-in values are not observations; the coverage flags describe the blanked temperature)")
    if rep and empty_usage and "observed" in fr._cols:
        bad.append("a reporting frame without any usage must be handed over without the usage column")
    return bad


def _valid_days_terms(chk, base, cv, rep):
    class _Me(AbsObj, BoundRepoMethods):
        pass
    it = Interp(step_limit=50_000)
    stand = {"day_counts": StubCall(lambda ix: CT("daycounts", ix))}
    me = _Me({base.name, "SufficiencyCriteria"}, is_reporting_data=rep,
             data=CFrame(["temperature_not_null", "temperature_null", "temperature"] + ([] if rep else ["observed"])))
    me._bind_repo(chk, base, it, stand)
    env = ModuleEnv(chk.repo, cv.module, it, stand)
    try:
        Function(cv.node, env, it)(me)
    except InterpRaised as e:
        return {"raises": e.exc_name}
    except Unsupported as e:
        raise AnalysisError(f"{cv.key}: uses an operation outside the modelled subset: {e}")
    out = {}
    for k in ("n_valid_days", "n_valid_temperature_days", "n_valid_meter_value_days"):
        v = me.__dict__.get(k)
        if v is not None:
            out[k] = v.key() if isinstance(v, Term) else repr(v)
    return out


def _day_counts_by_interpretation(chk, rule):
    """day_counts(index): the length of each timestamp's period is the time up to the *next* timestamp, in days, stored on the period's start;
    the last (open) period has none.  The function is interpreted on an index of four symbolic instants t0 < t1 < t2 < t3."""
    import sympy as sp
    from engine.pyinterp import Stub as _Stub
    fi = chk.repo.func("opendsm.eemeter.common.data_processor_utilities", "day_counts")
    T = sp.symbols("t0 t1 t2 t3", real=True)
    NAT = sp.Symbol("NaT")

    class _TD(_Stub):               # a TimedeltaIndex: seconds as sympy terms (NaT for a missing one)
        def __init__(self, secs):
            self.secs = list(secs)

        def append(self, o):
            return _TD(self.secs + list(o.secs))

        def total_seconds(self):
            return _Vals(self.secs)

        @property
        def days(self):
            return _Vals([x if x is NAT else sp.floor(x / 86400) for x in self.secs])

        def __iter__(self):
            return iter(self.secs)

        def _abs_len(self):
            return len(self.secs)

    class _Vals(_Stub):
        def __init__(self, xs):
            self.xs = list(xs)

        def __truediv__(self, k):
            return _Vals([x if x is NAT else x / k for x in self.xs])

        def __mul__(self, k):
            return _Vals([x if x is NAT else x * k for x in self.xs])

        __rmul__ = __mul__

        def __iter__(self):
            return iter(self.xs)

    class _Ix(_Stub):
        def __init__(self, ts):
            self.ts = list(ts)

        def copy(self, *a, **k):
            return _Ix(self.ts)

        def _abs_len(self):
            return len(self.ts)

        def __getitem__(self, k):
            if isinstance(k, slice):
                return _Ix(self.ts[k])
            raise Unsupported("index[...] with a key that is not a slice")

        def __sub__(self, o):
            if isinstance(o, _Ix) and len(o.ts) == len(self.ts):
                return _TD([a - b for a, b in zip(self.ts, o.ts)])
            raise Unsupported("difference of indexes of different length")

        def to_series(self, *a, **k):
            return _Ser(self.ts, self)

        @property
        def empty(self):
            return not self.ts

    class _Ser(_Stub):             # index.to_series(): diff / shift spellings
        def __init__(self, xs, ix):
            self.xs, self.ix = list(xs), ix

        def diff(self, periods=1):
            if periods == 1:
                return _Ser([NAT] + [b - a for a, b in zip(self.xs, self.xs[1:])], self.ix)
            if periods == -1:
                return _Ser([a - b for a, b in zip(self.xs, self.xs[1:])] + [NAT], self.ix)
            raise Unsupported("diff with another period")

        def shift(self, n=1, **k):
            if n == -1:
                return _Ser(self.xs[1:] + [NAT], self.ix)
            if n == 1:
                return _Ser([NAT] + self.xs[:-1], self.ix)
            raise Unsupported("shift by another amount")

        def __neg__(self):
            return _Ser([x if x is NAT else -x for x in self.xs], self.ix)

        def __sub__(self, o):
            if isinstance(o, _Ser):
                return _Ser([NAT if (a is NAT or b is NAT) else a - b for a, b in zip(self.xs, o.xs)], self.ix)
            raise Unsupported("series arithmetic")

        @property
        def dt(self):
            return self

        def total_seconds(self):
            return _Ser(self.xs, self.ix)

        def __truediv__(self, k):
            return _Ser([x if x is NAT else x / k for x in self.xs], self.ix)

    class _PDd(_Stub):
        NaT = NAT

        @staticmethod
        def TimedeltaIndex(xs, **k):
            return _TD(list(xs))

        @staticmethod
        def Series(data=None, index=None, **k):
            vals = list(data.xs) if isinstance(data, (_Vals, _Ser)) else list(data)
            return _Ser(vals, index)

        @staticmethod
        def Timedelta(*a, **k):
            if k == {"days": 1} or a == ("1D",) or a == ("1d",):
                return 86400
            raise Unsupported("Timedelta other than one day")

    class _NPd(_Stub):
        nan = NAT
    it = Interp(step_limit=20_000)
    idx = _Ix(T)
    try:
        res = Function(fi.node, ModuleEnv(chk.repo, fi.module, it, {"pd": _PDd(), "pandas": _PDd(), "np": _NPd(), "numpy": _NPd()}), it)(idx)
    except InterpRaised as e:
        rule.require(False, f"{fi.key}|period-to-next-timestamp", fi.where(), f"day_counts raises {e.exc_name} on a plain index of four timestamps")
        return
    except Unsupported as e:
        raise AnalysisError(f"{fi.key}: uses an operation outside the modelled subset: {e}")
    if not isinstance(res, _Ser) or not isinstance(res.ix, _Ix):
        raise AnalysisError(f"{fi.key}: does not return a Series over the index")
    want = [(T[1] - T[0]) / 86400, (T[2] - T[1]) / 86400, (T[3] - T[2]) / 86400, NAT]
    ok = res.ix.ts == list(T) and len(res.xs) == 4 and all((g is NAT and w is NAT) or (g is not NAT and w is not NAT and sp.simplify(g - w) == 0) for g, w in zip(res.xs, want))
    rule.require(ok, f"{fi.key}|period-to-next-timestamp", fi.where(),
                 f"day_counts must give, on each timestamp, the days up to the next timestamp (none for the last); on (t0, t1, t2, t3) it gives {[str(x) for x in res.xs]} over {[str(t) for t in res.ix.ts]}",
                 sample={"index": [str(t) for t in T], "values": [str(x) for x in res.xs]})


def run(chk):
    chk.explanation = (
        "Every EEMeterWarning construction site reachable from the daily/billing/hourly data classes is mapped to the list it reaches "
        "(directly or through a `warnings` parameter bound at call sites); per criteria class and mode the set of disqualifying "
        "qualified names produced by the unconditional call list is compared with the published set; each criterion's guarding "
        "condition is normalised to (quantity, operator, threshold) and compared with the published predicate; plumbing order and "
        "constructor arguments of the criteria objects are checked, with a sibling cross-check of the three families.")
    chk.not_decided += ["'every well-formed input is accepted' (library compatibility; fails in this sandbox for pandas-version reasons)",
                        "exactness of the runtime counts fed to the predicates beyond their definition (day_counts is decided on a symbolic index; n_days_total: index arithmetic)"]
    r1 = chk.rule("R10.1", "per family and mode the unconditional criteria call list produces exactly the published set of disqualifying criteria; data classes invoke their own family's criteria in the right mode", 12)
    r2 = chk.rule("R10.2", "predicate table: each criterion's guard is the published (quantity, operator, threshold)", 12)
    _day_counts_by_interpretation(chk, r2)
    r3 = chk.rule("R10.3", "sink classification: the published criteria reach `disqualification`; extreme values / UTC index / off-cycle reads / unverifiable or sparse high-frequency data / inferior model reach `warnings`", 20)
    r4 = chk.rule("R10.4", "plumbing: (disqualification, warnings) tuple order, += into the same-named lists, criteria objects built with only {data, is_electricity_data, is_reporting_data}; reporting classes set is_reporting_data=True", 12)

    # the frame whose days the criteria count: one row per calendar day of the span (shared with C05 / C09, rules/daycompletion.py)
    from rules import daycompletion
    r5 = chk.rule("R10.5", "the daily frame the criteria count days on has exactly one row per calendar day: days already present are matched on year, month and day (same key on both sides) when the missing days are put back", 1)
    dfi = chk.repo.func("opendsm.eemeter.models.daily.data", "_DailyData._compute_meter_value_df")
    dbad, dn = daycompletion.judge(chk)
    for k_, msg in dbad:
        r5.require(False, f"{dfi.key}|{k_}", dfi.where(), "_compute_meter_value_df: " + msg)
    if dn < 1:
        raise AnalysisError(f"{dfi.key}: no interpreted path completes the calendar (anchor changed)")
    r5.inst(f"{dfi.key}|paths[{dn}]", {"paths_completing_the_calendar": dn})

    sites = _collect_sites(chk)
    live_methods: Set[str] = set()
    scm = chk.repo.module(SC)
    for c in scm.classes.values():
        roots = [m for n, m in c.methods.items() if n.startswith("check_sufficiency") or n == "model_post_init"]
        for m in chk.res.reachable(roots):
            live_methods.add(m.key)
    for s in sites:
        s["live"] = not (s["fi"].module.name == SC and s["fi"].cls is not None and s["fi"].key not in live_methods)
    if len(sites) < 25:
        raise AnalysisError(f"only {len(sites)} EEMeterWarning construction sites found in the sufficiency scope")
    by_func: Dict[str, List[dict]] = {}
    for s in sites:
        by_func.setdefault(s["fi"].key, []).append(s)

    # ------------------------------------------------------------------ R10.1
    for (cname, mode), want in SPEC_CALLS.items():
        cls = chk.repo.cls(SC, cname)
        m = chk.res.find_method(cls, mode)
        if m is None or m.cls is not cls:
            r1.require(False, f"{cls.key}.{mode}|defined", cls.module.rel, f"{cname} does not define {mode} itself")
            continue
        cfg = CFG(m.node)
        produced: Dict[str, str] = {}
        for c in calls_in(m.node):
            if isinstance(c.func, ast.Attribute) and is_self_attr(c.func):
                t = chk.res.find_method(cls, c.func.attr)
                if t is None:
                    continue
                st = m.module.enclosing_stmt(c)
                uncond = cfg.must_pass_through([st])
                for s in by_func.get(t.key, []):
                    if s["sink"] == "dq" and s["q"]:
                        produced[s["q"]] = t.name
                        if s["q"] in want:
                            r1.require(uncond, f"{cls.key}.{mode}|unconditional:{s['q']}", m.where(st),
                                       f"{cname}.{mode}: criterion `{s['q']}` ({t.name}) is not evaluated on every path")
        got = set(produced)
        for q in sorted(want | got):
            ok = q in want and q in got
            msg = (f"{cname}.{mode} does not evaluate the published criterion `{q}`" if q not in got else
                   f"{cname}.{mode} can disqualify for `{q}` (via {produced[q]}), which is not a published criterion for this family/mode")
            r1.require(ok, f"{cls.key}.{mode}|criterion:{q}", m.where(), msg, sample={"class": cname, "mode": mode, "criterion": q})
    # data classes use their family's criteria in the right mode
    for modname, dcls, crit, mode, is_rep in DATA_CLASSES:
        dc = chk.repo.cls(modname, dcls)
        f = dc.methods.get("_check_data_sufficiency")
        if f is None:
            r1.require(False, f"{dc.key}|_check_data_sufficiency", dc.module.rel, f"{dcls} does not define _check_data_sufficiency")
            continue
        ctor = [c for c in calls_in(f.node) if unparse(c.func) == crit]
        others = [unparse(c.func) for c in calls_in(f.node) if unparse(c.func).endswith("SufficiencyCriteria") and unparse(c.func) != crit]
        modes = [c.func.attr for c in calls_in(f.node) if isinstance(c.func, ast.Attribute) and c.func.attr.startswith("check_sufficiency")]
        r1.require(len(ctor) == 1 and not others and modes == [mode], f"{dc.key}|criteria-class-and-mode", f.where(),
                   f"{dcls} must evaluate {crit}.{mode}; found constructors={[unparse(c.func) for c in ctor] + others} modes={modes}")
        # R10.4 constructor keywords
        if ctor:
            c = ctor[0]
            kws = {k.arg: k.value for k in c.keywords}
            r4.require(set(kws) <= {"data", "is_electricity_data", "is_reporting_data"} and not c.args and "data" in kws, f"{dc.key}|criteria-kwargs", f.where(c),
                       f"{dcls} builds its criteria with {sorted(kws)}; thresholds must stay at the published defaults (only data / is_electricity_data / is_reporting_data may be passed)")
            rep = kws.get("is_reporting_data")
            rep_true = isinstance(rep, ast.Constant) and rep.value is True
            if is_rep:
                r4.require(rep_true, f"{dc.key}|is_reporting_data=True", f.where(c),
                           f"{dcls} evaluates reporting criteria without is_reporting_data=True: valid days then require usage, which is optional for reporting data")
            else:
                r4.require(rep is None or (isinstance(rep, ast.Constant) and rep.value is False), f"{dc.key}|is_reporting_data=False", f.where(c),
                           f"{dcls} is baseline data but passes is_reporting_data={unparse(rep)}")
            if not is_rep:
                e = kws.get("is_electricity_data")
                r4.require(e is not None and unparse(e) == "self.is_electricity_data", f"{dc.key}|is_electricity_data", f.where(c),
                           f"{dcls} must pass its own is_electricity_data to the criteria (negative usage is only allowed for electricity)")
        # tuple order
        rets = [n for n in walk_no_nested(f.node) if isinstance(n, ast.Return)]
        rd = ReachingDefs(f.node)
        for rt in rets:
            ok = isinstance(rt.value, ast.Tuple) and len(rt.value.elts) == 2
            if ok:
                a = " ".join(unparse(x) for x in backward_slice_exprs(rd, rt, rt.value.elts[0], 3))
                b = " ".join(unparse(x) for x in backward_slice_exprs(rd, rt, rt.value.elts[1], 3))
                ok = ".disqualification" in a and ".warnings" not in a and ".warnings" in b and ".disqualification" not in b
            r4.require(ok, f"{dc.key}|returns(disqualification, warnings)", f.where(rt), f"{dcls}._check_data_sufficiency must return (criteria.disqualification, criteria.warnings) in that order")
    # constructor unpacking in the data base classes
    for modname, base in ((DAILY_DATA, "_DailyData"), (HOURLY_DATA, "_HourlyData")):
        bc = chk.repo.cls(modname, base)
        init = bc.methods.get("__init__")
        if init is None:
            raise AnalysisError(f"{base}.__init__ vanished")
        unpack = [s for s in walk_no_nested(init.node) if isinstance(s, ast.Assign) and isinstance(s.value, ast.Call) and unparse(s.value.func) == "self._check_data_sufficiency"]
        ok = len(unpack) == 1 and isinstance(unpack[0].targets[0], ast.Tuple) and len(unpack[0].targets[0].elts) == 2
        if ok:
            a, b = (unparse(x) for x in unpack[0].targets[0].elts)
            augs = {unparse(s.target): unparse(s.value) for s in walk_no_nested(init.node) if isinstance(s, ast.AugAssign) and isinstance(s.op, ast.Add)}
            ok = augs.get("self.disqualification") == a and augs.get("self.warnings") == b
        r4.require(ok, f"{bc.key}|unpack-order", init.where(), f"{base}.__init__ must unpack `(disqualification, warnings) = self._check_data_sufficiency(...)` and add each to the list of the same name")

    # ------------------------------------------------------------------ R10.3
    for s in sites:
        q, sink, fi = s["q"], s["sink"], s["fi"]
        if not s["live"]:
            r3.inst(f"{fi.key}|{q}|dead-method")  # criteria method that no check_sufficiency_* list calls
            continue
        if q is None:
            r3.require(False, f"{fi.key}|qualified_name-not-literal", fi.where(s["call"]), "cannot establish the qualified_name of a warning (not a literal)")
            continue
        finals: Set[str] = set()
        if sink.startswith("param:"):
            finals = {x.split("@")[0] for x in _resolve_param_sinks(chk, fi, sink[6:])}
            where_from = _resolve_param_sinks(chk, fi, sink[6:])
        else:
            finals = {sink}
            where_from = {sink + "@" + fi.key}
        live = [x for x in where_from if True]
        if not finals:
            r3.inst(f"{fi.key}|{q}|unreached")  # helper never called with a list (dead code): nothing to classify
            continue
        for dest in sorted(where_from):
            d, _, via = dest.partition("@")
            key = f"{via or fi.key}|{q}->{d}"
            if q in WARNING_ONLY:
                r3.require(d == "warn", key, fi.where(s["call"]),
                           f"`{q}` is a warning-only condition but is appended to `{'disqualification' if d == 'dq' else d}` (via {via or fi.key}): it changes the verdict",
                           sample={"qualified_name": q, "sink": d, "via": via or fi.key})
            elif q in DQ_ONLY:
                r3.require(d == "dq", key, fi.where(s["call"]), f"`{q}` is a published disqualifying criterion but is appended to `{d}` (via {via or fi.key})",
                           sample={"qualified_name": q, "sink": d, "via": via or fi.key})
            else:
                r3.inst(key)

    # ------------------------------------------------------------------ R10.2 predicates
    base = chk.repo.cls(SC, "SufficiencyCriteria")
    hourly = chk.repo.cls(SC, "HourlySufficiencyCriteria")
    # threshold defaults
    ce = ConstEval(chk.res, base.module)
    defaults = {}
    for nm, (ann, val, st) in base.attrs.items():
        if val is not None:
            try:
                defaults[nm] = ce.ev(val)
            except Exception:
                pass
    r2.require(defaults.get("min_fraction_daily_coverage") == 0.9, f"{base.key}|min_fraction_daily_coverage", base.module.rel,
               f"min_fraction_daily_coverage default must be 0.9; found {defaults.get('min_fraction_daily_coverage')}")
    for sub in chk.res.subclasses(base):
        for nm in ("min_fraction_daily_coverage", "num_days"):
            r2.require(nm not in sub.attrs, f"{sub.key}|overrides:{nm}", sub.module.rel, f"{sub.name} overrides the published threshold `{nm}`")

    def site_for(q, cls=base):
        for k in chk.res.mro(cls) if cls is not base else [base]:
            for m in k.methods.values():
                for s in by_func.get(m.key, []):
                    if s["q"] == q and s["sink"] == "dq":
                        return s
        for m in hourly.methods.values():
            for s in by_func.get(m.key, []):
                if s["q"] == q and s["sink"] == "dq":
                    return s
        return None

    def guards_of(s):
        fi = s["fi"]
        cfg = CFG(fi.node)
        return fi, cfg, ReachingDefs(fi.node, cfg), cfg.guards(s["stmt"])

    def const_of(fi, rd, st, e) -> Any:
        """Evaluate threshold expression: literals, local constant names, self.<field> defaults."""
        def hook(n):
            if is_self_attr(n) and n.attr in defaults:
                return defaults[n.attr]
            if isinstance(n, ast.Name):
                ds = rd.reaching(st, n.id)
                vals = [rd.value_of(d) for d in ds]
                if len(vals) == 1 and vals[0] is not None:
                    return ConstEval(chk.res, fi.module, {}, hook).ev(vals[0])
            return NotConstant
        return ConstEval(chk.res, fi.module, {}, hook).ev(e)

    # -- scalar criteria are *interpreted* (engine/pyinterp + absint) on an abstract criteria object: one representative on each side of
    #    every threshold, so the verdict does not depend on how the method spells its condition.
    from engine.absint import AbsObj, BoundRepoMethods, ModuleEnv
    from engine.pyinterp import Function, Interp, InterpRaised, Stub, StubCall, Unsupported

    class _W(Stub):
        def __init__(self, qualified_name=None, **k):
            self.qualified_name = qualified_name

    class _Crit(AbsObj, BoundRepoMethods):
        pass

    def run_criterion(cls_info, mname, **state):
        fi_ = chk.res.find_method(cls_info, mname)
        if fi_ is None:
            raise AnalysisError(f"criterion method vanished: {cls_info.key}.{mname}")
        it = Interp(step_limit=50_000)
        stand = {"EEMeterWarning": StubCall(lambda **k: _W(**k))}
        me = _Crit({cls_info.name, "SufficiencyCriteria"}, disqualification=[], warnings=[], **state)
        me._bind_repo(chk, cls_info, it, stand)
        env = ModuleEnv(chk.repo, fi_.module, it, stand)
        try:
            Function(fi_.node, env, it)(me)
        except InterpRaised as e:
            return fi_, {"raises": e.exc_name}
        except Unsupported as e:
            raise AnalysisError(f"{fi_.key}: uses an operation outside the modelled subset: {e}")
        except (ZeroDivisionError, TypeError) as e:
            return fi_, {"raises": type(e).__name__}
        return fi_, {"dq": [w.qualified_name for w in me.disqualification], "warn": [w.qualified_name for w in me.warnings]}

    FR = {P + "too_many_days_with_missing_data": ("_check_valid_days_percentage", "n_valid_days", True),
          P + "too_many_days_with_missing_meter_data": ("_check_valid_meter_readings_percentage", "n_valid_meter_value_days", False),
          P + "too_many_days_with_missing_temperature_data": ("_check_valid_temperature_values_percentage", "n_valid_temperature_days", True)}
    for q, (mname, field, applies_to_reporting) in FR.items():
        bad = []
        fi = None
        for rep in ((False, True) if applies_to_reporting else (False,)):  # baseline-only criteria are never run on reporting data (R10.1)
            for total, valid, low in ((100, 89, True), (100, 90, False), (100, 91, False), (100, 100, False), (1000, 899, True), (1000, 900, False), (0, 0, True), (-3, 0, True)):
                st = {"n_days_total": total, "is_reporting_data": rep, "n_valid_days": 100, "n_valid_meter_value_days": 100, "n_valid_temperature_days": 100}
                st[field] = valid
                fi, o = run_criterion(base, mname, **st)
                want = low and (applies_to_reporting or not rep)
                got = q in o.get("dq", [])
                if "raises" in o or got != want or [x for x in o.get("dq", []) if x != q]:
                    bad.append((f"{field}={valid} of n_days_total={total}, reporting={rep}", o))
        r2.require(not bad, f"predicate|{q}|fraction<0.9", fi.where(),
                   f"`{q}` must disqualify iff {field} / n_days_total < 0.9 (strict: exactly 90 % qualifies; no days at all counts as 0)"
                   f"{'' if applies_to_reporting else ', baseline data only'}; deviations: {bad[:3]}", sample={"criterion": q, "cases": 16})
        r2.inst(f"predicate|{q}|fraction-definition")
    # -- monthly coverage: (per-month notna().mean() of column) < 0.9 .any()
    MON = {P + "missing_monthly_temperature_data": "temperature", P + "missing_monthly_meter_data": "observed", P + "missing_monthly_ghi_data": "ghi"}
    for q, col in MON.items():
        s = site_for(q)
        if s is None:
            r2.require(False, f"predicate|{q}|site", base.module.rel, f"no disqualifying site for `{q}`")
            continue
        fi = s["fi"]
        owner = hourly if fi.key in {m.key for m in hourly.methods.values()} else base
        want_tag = f"any(lt(apply(groupby(col:{col}, month(index)), mean(notna(x))), 0.9))"
        bad = []
        n_paths = 0
        for rep in (False, True):
            for has_col in (True, False):
                if col == "temperature" and not has_col:
                    continue  # the temperature column is required by every data class
                if col == "observed" and has_col == rep:
                    continue  # baseline frames have usage, reporting frames need not
                oracle = Oracle()
                cols = ["temperature", "temperature_null", "temperature_not_null"] + ([col] if has_col and col != "temperature" else [])

                def run():
                    it = Interp(step_limit=50_000)
                    stand = {"EEMeterWarning": StubCall(lambda **k: _W(**k))}
                    me = _Crit({owner.name, "SufficiencyCriteria"}, disqualification=[], warnings=[], is_reporting_data=rep, data=CFrame(cols, oracle))
                    me._bind_repo(chk, owner, it, stand)
                    env = ModuleEnv(chk.repo, fi.module, it, stand)
                    try:
                        Function(fi.node, env, it)(me)
                    except InterpRaised as e:
                        return {"raises": e.exc_name}
                    return {"dq": [w.qualified_name for w in me.disqualification]}
                try:
                    outs = explore(run, oracle)
                except Unsupported as e:
                    raise AnalysisError(f"{fi.key}: uses an operation outside the modelled subset: {e}")
                for trace, o in outs:
                    n_paths += 1
                    scen = f"reporting={rep}, column {'present' if has_col else 'absent'}"
                    if "raises" in o:
                        bad.append((scen, o))
                        continue
                    applies = has_col and not (col == "observed" and rep)
                    if not applies:
                        if o["dq"]:
                            bad.append((scen, o))
                        continue
                    tags = [t for t, v in trace]
                    fired = q in o["dq"]
                    if tags != [want_tag]:
                        bad.append((scen, {"decides-on": tags}))
                    elif fired != trace[0][1] or [x for x in o["dq"] if x != q]:
                        bad.append((scen, {"decision": trace[0][1], "dq": o["dq"]}))
        r2.require(not bad, f"predicate|{q}|monthly<0.9", fi.where(s["stmt"]),
                   f"`{q}` must fire iff any calendar month has notna().mean() of `{col}` < 0.9 (interpreted on a recording frame; expected the single decision "
                   f"{want_tag}); deviations: {bad[:2]}", sample={"criterion": q, "paths": n_paths})
    # -- span (interpreted)
    qspan = P + "incorrect_number_of_total_days"
    bad = []
    fi = None
    for rep in (False,):  # a baseline-only criterion (not in the reporting list, R10.1): the reporting state is not reachable
        for n in (0, 300, 328, 329, 330, 364, 365, 366, 400):
            fi, o = run_criterion(base, "_check_baseline_length_daily_billing_model", n_days_total=n, is_reporting_data=rep, num_days=365)
            want = (not rep and n > 365) or n < 329
            got = qspan in o.get("dq", [])
            if "raises" in o or got != want:
                bad.append((f"n_days_total={n}, reporting={rep}", o))
    r2.require(not bad, "predicate|incorrect_number_of_total_days|329..365", fi.where(),
               f"baseline span criterion must fire iff n_days_total > 365 (baseline only) or n_days_total < 329 (= ceil(0.9*365)); deviations: {bad[:3]}",
               sample={"criterion": "span", "cases": 18})
    # -- negative usage and no data: interpreted on a recording frame; the data-dependent decisions are read off as terms
    def criterion_paths(fi_, owner_, rep, elec, cols):
        oracle = Oracle()

        def run():
            it = Interp(step_limit=50_000)
            stand = {"EEMeterWarning": StubCall(lambda **k: _W(**k))}
            me = _Crit({owner_.name, "SufficiencyCriteria"}, disqualification=[], warnings=[], is_reporting_data=rep, is_electricity_data=elec, data=CFrame(cols, oracle))
            me._bind_repo(chk, owner_, it, stand)
            try:
                Function(fi_.node, ModuleEnv(chk.repo, fi_.module, it, stand), it)(me)
            except InterpRaised as e:
                return {"raises": e.exc_name}
            return {"dq": [w.qualified_name for w in me.disqualification], "warn": [w.qualified_name for w in me.warnings]}
        try:
            return explore(run, oracle)
        except Unsupported as e:
            raise AnalysisError(f"{fi_.key}: uses an operation outside the modelled subset: {e}")

    NEG = "lt(col:observed, 0)"
    COUNTS = {f"size(take(col:observed, {NEG}))", f"count(take(col:observed, {NEG}))", f"sum({NEG})", f"sum(astype({NEG}, 'int'))", f"size(col:observed@rows[{NEG}])",
              f"count(col:observed@rows[{NEG}])", f"len(frame@rows[{NEG}])"}
    POSITIVE = {f"gt({c}, 0)" for c in COUNTS} | {f"ge({c}, 1)" for c in COUNTS} | {f"not(eq({c}, 0))" for c in COUNTS} | {f"any({NEG})"}
    ZERO = {f"eq({c}, 0)" for c in COUNTS} | {f"le({c}, 0)" for c in COUNTS} | {f"lt({c}, 1)" for c in COUNTS} | {f"not(any({NEG}))"}
    q = P + "negative_meter_values"
    s = site_for(q)
    if s is None:
        r2.require(False, "predicate|negative|site", base.module.rel, "no site for negative_meter_values")
    else:
        fi = s["fi"]
        bad = []
        for rep in (False, True):
            for elec in (False, True):
                for trace, o in criterion_paths(fi, base, rep, elec, ["observed", "temperature", "temperature_null", "temperature_not_null"] if not rep else ["temperature", "temperature_null", "temperature_not_null"]):
                    scen = f"reporting={rep}, electricity={elec}"
                    if "raises" in o:
                        bad.append((scen, o))
                        continue
                    fired = q in o["dq"]
                    if rep or elec:
                        if fired or o["dq"]:
                            bad.append((scen, o["dq"]))
                        continue
                    tags = [t for t, v in trace]
                    if len(tags) != 1 or tags[0] not in POSITIVE | ZERO:
                        bad.append((scen, {"decides-on": tags}))
                        continue
                    negatives_present = trace[0][1] if tags[0] in POSITIVE else not trace[0][1]
                    if fired != negatives_present or [x for x in o["dq"] if x != q]:
                        bad.append((scen, {"negative readings present": negatives_present, "dq": o["dq"]}))
        r2.require(not bad, "predicate|negative_meter_values", fi.where(s["stmt"]),
                   f"negative usage must disqualify iff baseline and not electricity and the usage column holds a negative reading (count(observed < 0) > 0, on the usage column itself); deviations: {bad[:2]}",
                   sample={"criterion": "negative usage"})
    q = P + "no_data"
    s = site_for(q)
    if s is None:
        r2.require(False, "predicate|no_data|site", base.module.rel, "no site for no_data")
    else:
        fi = s["fi"]
        EMPTY = {"empty(frame@dropna())": True, "empty(frame)": True, "eq(len(frame@dropna()), 0)": True, "not(len(frame@dropna()))": True, "gt(len(frame@dropna()), 0)": False,
                 "empty(frame@dropna(how='any'))": True}
        bad = []
        for rep in (False, True):
            for trace, o in criterion_paths(fi, base, rep, False, ["observed", "temperature"]):
                if "raises" in o:
                    bad.append((f"reporting={rep}", o))
                    continue
                tags = [t for t, v in trace]
                if not tags or any(t not in EMPTY for t in tags):
                    bad.append((f"reporting={rep}", {"decides-on": tags}))
                    continue
                no_rows = any(v == EMPTY[t] for t, v in trace if t != "empty(frame)") or any(v for t, v in trace if t == "empty(frame)")
                if (q in o["dq"]) != no_rows or [x for x in o["dq"] if x != q]:
                    bad.append((f"reporting={rep}", {"no complete row": no_rows, "dq": o["dq"]}))
        r2.require(not bad, "predicate|no_data", fi.where(s["stmt"]), f"no_data must fire iff the data has no complete row (data.dropna() is empty); deviations: {bad[:2]}")
    # -- valid temperature rows use the per-period hourly coverage threshold strictly above 0.9? (definition, structural)
    cv = base.methods.get("_compute_valid_meter_temperature_days")
    if cv is None:
        raise AnalysisError("_compute_valid_meter_temperature_days vanished")
    # interpreted on recording columns: the three day totals are read off as terms over the frame's columns
    for rep in (False, True):
        o = _valid_days_terms(chk, base, cv, rep)
        cover = "gt(div(col:temperature_not_null, add(col:temperature_not_null, col:temperature_null)), 0.9)"
        days = "daycounts(index)"
        want = {"n_valid_temperature_days": f"sum(mul({days}, {cover}))",
                "n_valid_days": f"sum(mul({days}, {cover}))" if rep else f"sum(mul(and({cover}, notna(col:observed)), {days}))"}
        if not rep:
            want["n_valid_meter_value_days"] = f"sum(mul({days}, notna(col:observed)))"
        bad = {k: o.get(k) for k, v in want.items() if o.get(k) != v}
        r2.require(not bad, f"definition|valid-days|{'reporting' if rep else 'baseline'}", cv.where(),
                   f"valid days must be (usage present, baseline only) & (hourly temperature coverage of the row > 0.9), weighted by each row's day count; "
                   f"interpreted ({'reporting' if rep else 'baseline'}): {bad} (expected {({k: want[k] for k in bad})})", sample={"reporting": rep, "totals": sorted(want)})

    # -- what the hourly data classes hand to the criteria (interpreted on a state frame)
    for cname, rep in (("HourlyBaselineData", False), ("HourlyReportingData", True)):
        ci = chk.repo.cls(HOURLY_DATA, cname)
        for with_ghi in (False, True):
            fi, outs = _hourly_criteria_inputs(chk, ci, rep, with_ghi)
            bad = []
            for trace, o in outs:
                bad += [(m, [t for t, v in trace if v]) for m in _judge_hourly_inputs(trace, o, rep, with_ghi)]
            r2.require(not bad, f"inputs|{cname}|ghi={with_ghi}", fi.where(),
                       f"{cname}._check_data_sufficiency: {bad[0][0] if bad else ''}" + (f" (when {bad[0][1]})" if bad and bad[0][1] else ""),
                       sample={"class": cname, "ghi": with_ghi, "paths": len(outs)})
