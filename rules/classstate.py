"""Shared obligation (C01 / C02 / C03 / C13): state a model or data object works with is *per instance*.

A mutable object created in a class body (``table = {...}`` at class level) exists once per process.  If a method stores into it through
``self`` (``self.table[k] = v``, ``self.table.update(...)``) or first aliases it onto the instance (``self.t = self._TABLE``) and mutates
that, every object of the class — the model fitted an hour ago, the one just loaded from JSON — sees the value written by whichever
object ran last.  The same holds for a method that rebinds a class attribute (``cls.x = ...``, ``type(self).x = ...``, ``Model.x = ...``).
That breaks, at once: "a stored model reproduces its counterfactual" (loading a second model changes the first), "using a model never
changes it / no dependence on interleavings with other meters", "regardless of what the library was used for beforehand", and, for the
split vocabulary of the daily model, "predicted under the model's own season and weekday settings".

What is decided (syntactic effect analysis over the class hierarchy, no execution):
  * M(C): class-level attributes of C (own and inherited) whose value is a mutable display / constructor;
  * an attribute name X is *shared* in C when X in M(C) and no method of the hierarchy binds ``self.X`` to a fresh value, or when every
    binding ``self.X = e`` has e an alias of a shared attribute (``self._X``, ``cls._X``, ``type(self)._X``, ``C._X``);
  * findings: an in-place mutation of a shared attribute through self (subscript store, ``del``, augmented assignment, mutating method
    call — also through a one-step local alias ``d = self.X``), and any store to a class attribute from inside a function.
Reading a class-level table, or copying it (``dict(self._X)``, ``copy.deepcopy``, ``list(...)``, a comprehension), is not a finding.
"""
from __future__ import annotations

import ast
from typing import Any, Dict, List, Optional, Set, Tuple

from engine.index import ClassInfo, FuncInfo, unparse, walk_no_nested

MUTATORS = {"append", "extend", "insert", "update", "pop", "popitem", "clear", "setdefault", "remove", "sort", "reverse", "add", "discard",
            "difference_update", "intersection_update", "symmetric_difference_update", "appendleft", "extendleft", "rotate",
            "drop", "fillna", "rename", "reset_index", "set_index", "sort_values", "sort_index", "dropna"}   # the pandas names only with inplace=True
PANDAS_INPLACE = {"drop", "fillna", "rename", "reset_index", "set_index", "sort_values", "sort_index", "dropna"}
MUTABLE_CTORS = {"list", "dict", "set", "defaultdict", "OrderedDict", "deque", "Counter", "bytearray", "collections.defaultdict", "collections.OrderedDict",
                 "collections.deque", "collections.Counter", "np.array", "np.zeros", "np.ones", "np.empty", "numpy.array", "pd.DataFrame", "pd.Series",
                 "pandas.DataFrame", "pandas.Series"}
FRESH_WRAPPERS = {"list", "dict", "set", "sorted", "tuple", "frozenset", "copy", "deepcopy", "copy.copy", "copy.deepcopy", "OrderedDict", "defaultdict"}


def _is_mutable_value(v: Optional[ast.AST]) -> bool:
    if v is None:
        return False
    if isinstance(v, (ast.List, ast.Dict, ast.Set, ast.ListComp, ast.DictComp, ast.SetComp)):
        return True
    if isinstance(v, ast.Call) and unparse(v.func) in MUTABLE_CTORS:
        return True
    return False


def mutable_class_attrs(chk, c: ClassInfo) -> Dict[str, Tuple[ClassInfo, ast.AST]]:
    out: Dict[str, Tuple[ClassInfo, ast.AST]] = {}
    for k in reversed(chk.res.mro(c)):
        for name, (ann, val, st) in k.attrs.items():
            if name in ("model_config",) or name.startswith("__"):
                continue
            if _is_pydantic_like(chk, k):
                continue   # pydantic copies field defaults per instance (trusted, see engine/pdfacts)
            if _is_mutable_value(val):
                out[name] = (k, val)
            elif name in out and val is not None:
                del out[name]   # rebound to an immutable value further down the hierarchy
    return out


def _is_pydantic_like(chk, c: ClassInfo) -> bool:
    for k in chk.res.mro(c):
        for b in k.node.bases:
            t = unparse(b)
            if t.endswith("BaseModel") or t.endswith("BaseSettings") or t in ("NamedTuple", "Enum", "str, Enum") or t.endswith("Enum"):
                return True
    decos = {unparse(d.func if isinstance(d, ast.Call) else d).split(".")[-1] for d in c.node.decorator_list}
    return bool(decos & {"dataclass", "attrs", "define"})


def _class_attr_ref(e: ast.AST, class_names: Set[str]) -> Optional[str]:
    """X if e denotes the class-level object X of the current hierarchy: self.X / cls.X / type(self).X / self.__class__.X / C.X."""
    if not isinstance(e, ast.Attribute):
        return None
    b = e.value
    if isinstance(b, ast.Name) and (b.id in ("self", "cls") or b.id in class_names):
        return e.attr
    if isinstance(b, ast.Call) and unparse(b.func) == "type" and len(b.args) == 1 and unparse(b.args[0]) == "self":
        return e.attr
    if isinstance(b, ast.Attribute) and b.attr == "__class__" and unparse(b.value) == "self":
        return e.attr
    return None


def _is_class_store_base(b: ast.AST, class_names: Set[str], in_classmethod: bool) -> bool:
    if isinstance(b, ast.Name) and (b.id in class_names or (b.id == "cls" and in_classmethod)):
        return True
    if isinstance(b, ast.Call) and unparse(b.func) == "type" and len(b.args) == 1 and unparse(b.args[0]) == "self":
        return True
    if isinstance(b, ast.Attribute) and b.attr == "__class__" and unparse(b.value) == "self":
        return True
    return False


def findings(chk, classes: Optional[List[ClassInfo]] = None) -> Tuple[List[Dict[str, Any]], int]:
    """-> (findings, number of (class, attribute) pairs and class-store sites examined)."""
    out: List[Dict[str, Any]] = []
    examined = 0
    seen_keys: Set[str] = set()
    todo = classes if classes is not None else [c for c in chk.res.all_classes() if c.module.name.startswith("opendsm")]
    for c in todo:
        if _is_pydantic_like(chk, c):
            continue
        hier = chk.res.mro(c)
        class_names = {k.name for k in hier} | {k.name for k in chk.res.subclasses(c)}
        M = mutable_class_attrs(chk, c)
        methods: List[FuncInfo] = []
        seen_m = set()
        for k in hier:   # nearest definition first
            for name, m in k.methods.items():
                if name not in seen_m:
                    seen_m.add(name)
                    methods.append(m)
        # ---- bindings self.X = e anywhere in the hierarchy
        binds: Dict[str, List[ast.AST]] = {}
        for m in methods:
            for s in ast.walk(m.node):
                if isinstance(s, ast.Assign):
                    for t in s.targets:
                        if isinstance(t, ast.Attribute) and isinstance(t.value, ast.Name) and t.value.id == "self":
                            binds.setdefault(t.attr, []).append(s.value)
                elif isinstance(s, ast.AnnAssign) and s.value is not None and isinstance(s.target, ast.Attribute) and unparse(s.target.value) == "self":
                    binds.setdefault(s.target.attr, []).append(s.value)
        shared: Dict[str, str] = {}   # attribute name on self -> class-level object it denotes
        changed = True
        for x in M:
            if x not in binds:
                shared[x] = x
        while changed:
            changed = False
            for x, vals in binds.items():
                if x in shared:
                    continue
                srcs = [_class_attr_ref(v, class_names) for v in vals]
                if vals and all(sx is not None and sx in shared and sx != x for sx in srcs):
                    shared[x] = shared[srcs[0]]
                    changed = True
        examined += len(M)
        # ---- mutation sites
        for m in methods:
            if m.cls is not None and m.cls is not c and m.cls in hier and c is not hier[0]:
                pass
            in_cm = any(d.split(".")[-1] == "classmethod" or d == "classmethod" for d in m.decorators)
            local_alias: Dict[str, str] = {}
            for s in ast.walk(m.node):
                if isinstance(s, ast.Assign) and len(s.targets) == 1 and isinstance(s.targets[0], ast.Name):
                    r = _class_attr_ref(s.value, class_names)
                    if r is not None and r in shared and isinstance(s.value.value, ast.Name) and s.value.value.id == "self":
                        local_alias[s.targets[0].id] = r

            def shared_obj(e: ast.AST) -> Optional[str]:
                if isinstance(e, ast.Attribute) and isinstance(e.value, ast.Name) and e.value.id == "self" and e.attr in shared:
                    return e.attr
                if isinstance(e, ast.Name) and e.id in local_alias:
                    return local_alias[e.id]
                return None

            for s in ast.walk(m.node):
                hit = None
                if isinstance(s, (ast.Assign, ast.AugAssign, ast.Delete)):
                    tg = s.targets if isinstance(s, (ast.Assign, ast.Delete)) else [s.target]
                    for t in tg:
                        if isinstance(t, ast.Subscript):
                            x = shared_obj(t.value)
                            if x:
                                hit = (x, "item store" if not isinstance(s, ast.Delete) else "item delete")
                        if isinstance(s, ast.AugAssign):
                            x = shared_obj(t)
                            if x:
                                hit = (x, "augmented assignment (in place for lists / sets / arrays)")
                        # stores to the class itself
                        if isinstance(t, ast.Attribute) and not isinstance(s, ast.Delete) and _is_class_store_base(t.value, class_names, in_cm):
                            key = f"{m.key}|class-store:{t.attr}"
                            if key not in seen_keys:
                                seen_keys.add(key)
                                out.append({"kind": "class-store", "class": c, "method": m, "attr": t.attr, "node": s, "key": key,
                                            "message": f"{m.qualname} assigns `{unparse(t)}`: the value lands on the class, shared by every object of it (and its subclasses), not on the object at hand"})
                elif isinstance(s, ast.Call) and isinstance(s.func, ast.Attribute) and s.func.attr in MUTATORS:
                    x = shared_obj(s.func.value)
                    if x:
                        if s.func.attr in PANDAS_INPLACE and not any(k.arg == "inplace" and isinstance(k.value, ast.Constant) and k.value.value is True for k in s.keywords):
                            x = None
                    if x:
                        hit = (x, f".{s.func.attr}(...)")
                elif isinstance(s, ast.Call) and unparse(s.func) == "setattr" and len(s.args) >= 2 and _is_class_store_base(s.args[0], class_names, in_cm):
                    key = f"{m.key}|class-store:setattr"
                    if key not in seen_keys:
                        seen_keys.add(key)
                        out.append({"kind": "class-store", "class": c, "method": m, "attr": unparse(s.args[1]), "node": s, "key": key,
                                    "message": f"{m.qualname} calls `{unparse(s)[:60]}`: the value lands on the class, shared by every object"})
                if hit:
                    x, how = hit
                    obj = shared[x]
                    owner = M[obj][0]
                    key = f"{m.key}|shared-class-state:{x}"
                    if key in seen_keys:
                        continue
                    seen_keys.add(key)
                    via = "" if x == obj else f" (self.{x} is bound to the class-level object `{obj}`)"
                    out.append({"kind": "shared-mutation", "class": c, "method": m, "attr": x, "object": obj, "node": s, "key": key,
                                "message": f"{m.qualname}: {how} on `self.{x}`{via}, a mutable object created once in the body of class {owner.name}: every {c.name} in the process "
                                           f"(fitted earlier, loaded from JSON later) shares it, so the last object to run decides the value for all"})
    return out, examined


def report(chk, rule, only_classes: Optional[List[ClassInfo]] = None, only_attrs: Optional[Set[str]] = None, what: str = "") -> int:
    fs, n = findings(chk, only_classes)
    k = 0
    for f in fs:
        if only_attrs is not None and f["attr"] not in only_attrs and f.get("object") not in only_attrs:
            continue
        m = f["method"]
        rule.violate(f["key"], m.where(f["node"]), f["message"] + (f" — {what}" if what else ""), {"kind": f["kind"], "attr": f["attr"]})
        k += 1
    rule.inst(f"class-level-state|examined[{n}]", {"mutable_class_attributes_examined": n, "findings": k})
    return n
