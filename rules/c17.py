"""C17 — hourly data preparation keeps what was measured and flags what was filled (structural clauses)."""
from __future__ import annotations

import ast
from typing import List

from engine.cfg import CFG
from engine.dataflow import FRESH, Origins, ReachingDefs, backward_slice_exprs, inplace_stores
from engine.index import AnalysisError, FuncInfo, calls_in, const_str, kwarg, unparse, walk_no_nested
from engine.pdfacts import FACTS, FILL_ONLY_METHODS
from rules.common import HOURLY_DATA

HI = "opendsm.common.hourly_interpolation"
DPU = "opendsm.eemeter.common.data_processor_utilities"


def run(chk):
    chk.explanation = (
        "The hourly data class works on a copy (origin analysis), converts zero to missing only for electricity and only in the usage "
        "column, removes duplicate timestamps keeping the first; in interpolate()/_interpolate_col every store into a data column is either "
        "a .loc store whose row selector derives from isna() of that very column or the result of a fill-only method applied to the same "
        "column; the set of originally missing cells is captured before the first store of the iteration, the flag column is initialised "
        "False and set True exactly on was-missing & now-present; a pre-existing flag column skips the column.")
    chk.trusted += [FACTS[2], FACTS[0]]
    chk.not_decided += ["the values produced by the autocorrelation fill", "'nothing remains missing unless a column was empty' (depends on fill reachability)"]
    r1 = chk.rule("R17.1", "_set_data: copy first; zero -> NaN only under is_electricity_data and only observed == 0; duplicates removed with keep='first'", 5)
    r2 = chk.rule("R17.2", "interpolation stores are bounded to cells that were missing (isna-derived .loc selector or fill-only method on the same column)", 5)
    r3 = chk.rule("R17.3", "flag = was-missing and now-present: missing set captured before the first store; flag initialised False; existing flag skips the column", 5)
    r4 = chk.rule("R17.4", "default columns interpolated: temperature, observed (+ ghi when present); outputs carry one interpolated_<col> flag per column", 3)

    r5 = chk.rule("R17.5", "gap-free frame over whole local days: contiguous hourly index from wall-clock 00:00 of the first day to wall-clock 23:00 of the last (shared with C06)", 4)
    from rules.hourlyframe import check_contiguous_index
    check_contiguous_index(chk, r5)

    # _set_data interpreted on recording values (rules/hourlyframe.py): the returned pipeline term and every in-place store
    from rules.hourlyframe import judge_set_data, set_data_outcomes
    sd, sd_outs = set_data_outcomes(chk)
    seen = set()
    for o in sd_outs:
        for ob, msg in judge_set_data(o):
            key = {"zero": f"{sd.key}|zero-to-nan", "copy": f"{sd.key}|copy-first", "order": f"{sd.key}|order", "index": f"{sd.key}|timestamps-kept"}[ob]
            if (key, msg[:70]) in seen:
                continue
            seen.add((key, msg[:70]))
            r1.require(False, key, sd.where(), f"_set_data: {msg}", sample={"electric": o["electric"]})
    for nm in ("zero-to-nan", "copy-first", "no-other-value-stores", f"paths={len(sd_outs)}"):
        r1.inst(f"{sd.key}|{nm}")
    # remove_duplicates keeps the first of each duplicated timestamp (interpreted on a recording frame)
    from engine.absint import ModuleEnv, SymWorld, canon, sym_root
    from engine.pyinterp import Function, Interp, Unsupported
    rdup = chk.repo.func(DPU, "remove_duplicates")
    try:
        w_ = SymWorld()
        it_ = Interp(step_limit=10_000)
        got = canon(Function(rdup.node, ModuleEnv(chk.repo, rdup.module, it_, {"pd": sym_root(w_, "pd"), "np": sym_root(w_, "np"), "numpy": sym_root(w_, "np")}), it_)(sym_root(w_, "x")))
    except Unsupported as e:
        raise AnalysisError(f"{rdup.key}: uses an operation outside the modelled subset: {e}")
    for neg in ("np.logical_not(", "np.invert(", "np.bitwise_not("):     # element-wise negation of a boolean array, spelled with NumPy
        while neg in got:
            i_ = got.index(neg)
            depth, j_ = 0, i_ + len(neg) - 1
            for j_ in range(i_ + len(neg) - 1, len(got)):
                depth += got[j_] == "("
                depth -= got[j_] == ")"
                if depth == 0:
                    break
            got = got[:i_] + "invert(" + got[i_ + len(neg):j_] + ")" + got[j_ + 1:]
    r1.require(got in ("x[invert(x.index.duplicated(keep='first'))]", "x.loc[invert(x.index.duplicated(keep='first'))]", "x[invert(x.index.duplicated())]", "x.loc[invert(x.index.duplicated())]"),
               f"{rdup.key}|keep-first", rdup.where(), f"remove_duplicates must keep the first *row* of each duplicated timestamp (x[~x.index.duplicated(keep='first')]); it computes `{got[:120]}`")

    # ------------------------------------------------------------------ R17.2 / R17.3: interpolate() is interpreted symbolically
    # (rules/interp_absint.py): what is finally stored in the column, and on which mask the flag is set, over every
    # data-dependent branch and one frame length on each side of every lag threshold.
    from rules.interp_absint import judge as judge_interp, outcomes as interp_outcomes
    it = chk.repo.func(HI, "interpolate")
    seen = set()
    outs = interp_outcomes(chk)
    for o in outs:
        for ob, msg in judge_interp(o):
            rule, key = (r2, f"{it.key}|data-stores-are-fill-only") if ob == "data" else (r3, f"{it.key}|flag=was-missing-and-now-present")
            if (key, msg[:70]) in seen:
                continue
            seen.add((key, msg[:70]))
            rule.require(False, key, it.where(), f"interpolate(): {msg}", sample={"n_rows": o["n_rows"], "decisions": [(t[:60], v) for t, v in o["decisions"]]})
    r2.inst(f"{it.key}|data-stores-are-fill-only")
    r2.inst(f"{it.key}|lags-by-length")
    r2.inst(f"{it.key}|paths={len(outs)}")
    for nm in ("flag=was-missing-and-now-present", "missing-set-before-first-store", "flag-init-false-then-set", "existing-flag-skips", "returns-df"):
        r3.inst(f"{it.key}|{nm}")
    ic = chk.repo.func(HI, "_interpolate_col")
    xname = ic.params[0]
    rd_ic = ReachingDefs(ic.node)
    xs = [s for s in ast.walk(ic.node) if isinstance(s, (ast.Assign, ast.AugAssign)) and isinstance((s.targets[0] if isinstance(s, ast.Assign) else s.target), ast.Subscript)
          and unparse((s.targets[0] if isinstance(s, ast.Assign) else s.target).value).startswith(xname)]
    for s in xs:
        t = s.targets[0] if isinstance(s, ast.Assign) else s.target
        sel = t.slice
        sl = " | ".join(unparse(e) for e in backward_slice_exprs(rd_ic, s, sel, 5))
        ok = isinstance(t.value, ast.Attribute) and t.value.attr == "loc" and f"{xname}.index[{xname}.isna()]" in sl
        r2.require(ok, f"{ic.key}|store:{unparse(t)[:40]}", ic.where(s), f"_interpolate_col: `{unparse(s)[:80]}` is not restricted to cells of x that are missing (selector must derive from x.index[x.isna()])",
                   sample={"store": unparse(s)[:80], "selector_slice": sl[:120]})
    if not xs:
        r2.require(False, f"{ic.key}|no-store", ic.where(), "_interpolate_col no longer fills anything")
    # in-place array writes in the helper must target fresh arrays
    og2 = Origins(ic.node, rd_ic)
    for st, recv, kind in inplace_stores(ic.node):
        if unparse(recv).startswith(xname):
            continue
        o = og2.of(recv, st)
        bad = [t2 for t2 in o if isinstance(t2, tuple)]
        r2.require(not bad, f"{ic.key}|aux-store:{unparse(recv)}", ic.where(st), f"_interpolate_col writes into {unparse(recv)} which may alias the input ({bad})")
    # early returns of _interpolate_col hand x back unchanged
    rets = [s for s in walk_no_nested(ic.node) if isinstance(s, ast.Return)]
    r2.require(all(unparse(r.value) == xname for r in rets), f"{ic.key}|returns-x", ic.where(), "_interpolate_col must return the (partially filled) input series")

    # ------------------------------------------------------------------ R17.4 (interpreted: which columns are interpolated, which flags are announced)
    from engine.absint import AbsObj, ModuleEnv, Sym, SymWorld, canon, sym_root
    from engine.pyinterp import Function, Interp, InterpRaised, StubCall, Unsupported
    ip = chk.repo.func(HOURLY_DATA, "_HourlyData._interpolate")
    bad_cols, bad_flags, bad_call = [], [], []
    n_sc = 0
    for cols in ({"temperature", "observed"}, {"temperature", "observed", "ghi"}, {"temperature", "observed", "ghi", "interpolated_ghi"}, {"temperature", "observed", "interpolated_temperature"}):
        for custom in (None, ["temperature"]):
            n_sc += 1
            w = SymWorld()
            df = sym_root(w, "df")
            w.members["df.columns"] = set(cols)
            calls = []

            def _ip(frame, columns=None, *a, **k):     # further (optional) arguments do not matter here
                calls.append((canon(frame), list(columns) if columns is not None else None))
                return Sym(w, "call", sym_root(w, "interpolate"), (frame,), ())
            me = AbsObj({"_HourlyData"}, _kwargs=({"to_be_interpolated_columns": list(custom)} if custom else {}), _outputs=["temperature", "observed"], _to_be_interpolated_columns=None)
            itp = Interp(step_limit=20_000)
            env = ModuleEnv(chk.repo, ip.module, itp, {"interpolate": StubCall(_ip)})
            try:
                res = Function(ip.node, env, itp)(me, df)
            except InterpRaised as e:
                bad_call.append(f"raises {e.exc_name} for columns {sorted(cols)}")
                continue
            except Unsupported as e:
                raise AnalysisError(f"{ip.key}: uses an operation outside the modelled subset: {e}")
            want_cols = list(custom) if custom else ["temperature", "observed"] + (["ghi"] if "ghi" in cols else [])
            got_cols = list(me._to_be_interpolated_columns or [])
            if got_cols != want_cols:
                bad_cols.append(f"frame columns {sorted(cols)}{' custom ' + str(custom) if custom else ''}: interpolates {got_cols}, expected {want_cols}")
            want_flags = [f"interpolated_{c_}" for c_ in want_cols if f"interpolated_{c_}" not in cols]
            got_flags = [o_ for o_ in me._outputs if o_.startswith("interpolated_")]
            if got_flags != want_flags:
                bad_flags.append(f"frame columns {sorted(cols)}: announces flags {got_flags}, expected {want_flags}")
            if calls != [("df", want_cols)] or canon(res) != "interpolate(df)":
                bad_call.append(f"frame columns {sorted(cols)}: interpolate called as {calls}, returns {canon(res)[:60]}")
    r4.require(not bad_cols, f"{ip.key}|default-columns", ip.where(), f"default interpolated columns must be temperature and observed, plus ghi when present (or the caller's list): {bad_cols[:2]}")
    r4.require(not bad_call, f"{ip.key}|calls-interpolate", ip.where(), f"_interpolate must call interpolate(df, columns=<the columns>) once and return its result: {bad_call[:2]}")
    r4.require(not bad_flags, f"{ip.key}|flag-outputs", ip.where(), f"each interpolated column must contribute its interpolated_<col> flag to the outputs (unless the frame already carries it): {bad_flags[:2]}")
    r4.inst(f"{ip.key}|scenarios={n_sc}")
