"""C09 — daily temperature is the local-day mean of the sub-daily temperatures (kind / threshold / count clauses)."""
from __future__ import annotations

import ast
from typing import Dict, List, Optional, Set, Tuple

from engine.cfg import CFG
from engine.dataflow import ReachingDefs
from engine.index import AnalysisError, FuncInfo, calls_in, const_str, kwarg, unparse, walk_no_nested
from rules.common import BILLING_DATA, DAILY_DATA
from rules.kinds import DPU, as_freq_branches, frame_kind, mask_terms, rescale_sites

FEAT = "opendsm.eemeter.common.features"


def _analyse_sibling(chk, r1, r2, r3, f: FuncInfo, br) -> Dict[str, object]:
    cfg = CFG(f.node)
    rd = ReachingDefs(f.node, cfg)
    shape: Dict[str, object] = {}
    # ---- R09.1: the temperature frame comes from the instantaneous (mean) branch and is never divided by coverage
    calls = [c for c in calls_in(f.node) if unparse(c.func) == "as_freq"]
    ok = len(calls) == 1 and const_str(kwarg(calls[0], "series_type")) == "instantaneous" and unparse(calls[0].args[1]) == "'D'" and unparse(kwarg(calls[0], "include_coverage")) == "True"
    r1.require(ok, f"{f.key}|as_freq-instantaneous-daily", f.where(calls[0]) if calls else f.where(),
               f"{f.qualname}: sub-daily temperature must be aggregated with as_freq(..., 'D', series_type='instantaneous', include_coverage=True) (a mean, not a sum)")
    sites = rescale_sites(chk, f)
    for s, base in sites:
        kinds = frame_kind(chk, f, s, base, br)
        r1.require("mean" not in kinds and kinds == {"sum"}, f"{f.key}|mean-divided-by-coverage", f.where(s),
                   f"{f.qualname}: `{unparse(s)[:80]}` divides a daily *mean* temperature by the day's coverage (kind {sorted(kinds)}): a day with 25 % of its readings missing comes out 33 % too warm",
                   sample={"function": f.qualname, "kind": sorted(kinds)})
    r1.inst(f"{f.key}|rescale-sites={len(sites)}")
    # ---- R09.3 (a) non-hourly route: keep coverage > 0.5, warn on <= 0.5
    masks = set()
    for n in ast.walk(f.node):
        if isinstance(n, ast.Subscript) and "temperature_features" in unparse(n.value):
            sl = n.slice.elts[0] if isinstance(n.slice, ast.Tuple) else n.slice
            m = mask_terms(sl)
            if m is not None and any("coverage" in t[0] for t in m[1]):
                masks.add(tuple(sorted(m[1])))
    r3.require(masks == {(("temperature_features.coverage", "<=", 0.5),), (("temperature_features.coverage", ">", 0.5),)}, f"{f.key}|coverage-masks", f.where(),
               f"{f.qualname}: a day with half or fewer of its readings must be missing: masks must be coverage > 0.5 (keep) and coverage <= 0.5 (warn); found {sorted(masks)}", sample={"masks": sorted(map(str, masks))})
    keep = [s for s in cfg.stmts() if isinstance(s, ast.Assign) and unparse(s.targets[0]) == "temperature_features" and ".reindex(temperature_features.index)" in unparse(s.value) and "coverage > 0.5" in unparse(s.value)]
    r3.require(len(keep) == 1 and "rename(columns={'value': 'temperature_mean'})" in unparse(keep[0].value), f"{f.key}|blank-low-coverage-days", f.where(),
               f"{f.qualname}: low-coverage days must be blanked by selecting coverage > 0.5 and reindexing onto the full daily index (value -> temperature_mean)")
    # ---- R09.3 (b) hourly route
    hourly = [c for c in calls_in(f.node) if unparse(c.func) == "compute_temperature_features"]
    ok = len(hourly) == 1 and kwarg(hourly[0], "data_quality") is not None and unparse(kwarg(hourly[0], "data_quality")) == "True" and unparse(hourly[0].args[1]) == "temp_series"
    r3.require(ok, f"{f.key}|hourly-route", f.where(), f"{f.qualname}: hourly feeds must be grouped onto the meter days by compute_temperature_features(meter_index, temp_series, data_quality=True)")
    inv = [s for s in cfg.stmts() if isinstance(s, ast.Assign) and unparse(s.targets[0]) == "invalid_temperature_rows"]
    ok = False
    if inv:
        v = inv[0].value
        if isinstance(v, ast.Compare) and isinstance(v.ops[0], ast.LtE) and unparse(v.comparators[0]) == "0.5":
            frac = unparse(v.left)
            ok = frac == "temperature_features.temperature_not_null / (temperature_features.temperature_not_null + temperature_features.temperature_null)"
    r3.require(ok, f"{f.key}|hourly-50%-rule", f.where(inv[0]) if inv else f.where(), f"{f.qualname}: a meter day is invalid iff not_null / (not_null + null) <= 0.5")
    # "iff": every further definition / in-place widening of the mask (|=, &=, a second assignment, .loc stores) makes days
    # with more than half of their readings present come out missing (or the reverse)
    extra = []
    for s in cfg.stmts():
        if s in inv[:1]:
            continue
        tgt = None
        if isinstance(s, ast.AugAssign):
            tgt = s.target
        elif isinstance(s, ast.Assign):
            tgt = s.targets[0]
        elif isinstance(s, ast.AnnAssign):
            tgt = s.target
        if tgt is None:
            continue
        base = tgt
        while isinstance(base, (ast.Subscript, ast.Attribute)):
            base = base.value
        if isinstance(base, ast.Name) and base.id == "invalid_temperature_rows":
            extra.append(s)
    for s in extra:
        r3.require(False, f"{f.key}|hourly-50%-rule:extra-term", f.where(s),
                   f"{f.qualname}: `{unparse(s)[:110]}` widens/redefines the invalid-day mask beyond not_null / (not_null + null) <= 0.5: a day with more than half of its readings present "
                   f"(e.g. 12 of the 23 readings of a spring-forward day against a median of 24) is blanked", sample={"function": f.qualname, "statement": unparse(s)[:160]})
    r3.inst(f"{f.key}|invalid-mask-definitions={1 + len(extra)}")
    blank = [s for s in cfg.stmts() if isinstance(s, ast.Assign) and isinstance(s.targets[0], ast.Subscript) and "invalid_temperature_rows" in unparse(s.targets[0]) and unparse(s.value) == "np.nan"]
    def _sel_ok(t):
        sl = t.slice
        return isinstance(sl, ast.Tuple) and len(sl.elts) == 2 and isinstance(sl.elts[0], ast.Name) and sl.elts[0].id == "invalid_temperature_rows" and const_str(sl.elts[1]) == "temperature_mean"
    r3.require(len(blank) == 1 and _sel_ok(blank[0].targets[0]), f"{f.key}|hourly-blank", f.where(), f"{f.qualname}: exactly the invalid meter days (row selector `invalid_temperature_rows`, nothing or-ed/and-ed to it) must have temperature_mean set to NaN")
    # ---- R09.2 frequency-kind typing of the count columns on the non-hourly route
    for s in cfg.stmts():
        if isinstance(s, ast.Assign) and isinstance(s.targets[0], ast.Subscript) and unparse(s.targets[0].value) == "temperature_features" and const_str(s.targets[0].slice) in ("temperature_null", "temperature_not_null"):
            col = const_str(s.targets[0].slice)
            src_raw = unparse(s.value).startswith("temp_series.")
            # kinds of temperature_features at this statement: DAILY if any reaching definition derives from as_freq(..., 'D')
            daily = False
            for d in rd.reaching(s, "temperature_features"):
                v = rd.value_of(d)
                ds = rd.def_stmt(d)
                if v is not None and ("as_freq" in unparse(v) or (".reindex(temperature_features.index)" in unparse(v))):
                    daily = True
                elif v is not None and "drop(" in unparse(v):
                    daily = True
            resampled = ".resample(" in unparse(s.value) or ".groupby(" in unparse(s.value)
            r2.require(not (daily and src_raw and not resampled), f"{f.key}|count-column:{col}", f.where(s),
                       f"{f.qualname}: `{unparse(s)[:90]}` stores the *raw* (sub-daily) series' flags into the daily frame: alignment keeps only the midnight stamps, so the per-day "
                       f"counts of present/absent readings are 0/1 instead of counts and the 90 % temperature-coverage test is fed wrong numbers", sample={"function": f.qualname, "column": col})
    shape["masks"] = sorted(map(str, masks))
    return shape


def run(chk):
    chk.explanation = (
        "Aggregation-kind typing (shared with C08): the temperature frame of the non-hourly route is of kind MEAN (as_freq instantaneous branch, "
        "checked, not assumed) and must never be divided by coverage; frequency-kind typing: columns stored into the daily frame must be "
        "daily-kind (a raw sub-daily series stored into it aligns on midnight stamps only); the 50 % rules of both routes (operator and constant); "
        "the hourly route's aggregator table (mean / count / isnull-sum with their renames); sibling cross-check of the daily and billing implementations.")
    chk.not_decided += ["merge_asof grouping of readings onto meter days and all time-zone arithmetic (pandas)", "exactness of the counts on the hourly route beyond their aggregator definitions"]
    r1 = chk.rule("R09.1", "a MEAN-kind temperature is never rescaled by coverage (both siblings)", 4)
    r2 = chk.rule("R09.2", "frequency-kind typing: count columns stored into the daily frame are daily-kind", 4)
    r3 = chk.rule("R09.3", "50 % rules and aggregator table: keep coverage > 0.5; hourly route mean/count/isnull-sum with renames; invalid iff not_null/(not_null+null) <= 0.5", 10)
    r4 = chk.rule("R09.4", "sibling cross-check: the daily and billing _compute_temperature_features agree on these obligations", 1)
    br = as_freq_branches(chk)
    if br.get("instantaneous", {}).get("value") != "mean":
        r1.require(False, "as_freq|instantaneous=mean", "data_processor_utilities.py", f"as_freq's instantaneous branch must aggregate with mean; found {br.get('instantaneous')}")
    d = chk.repo.func(DAILY_DATA, "_DailyData._compute_temperature_features")
    b = chk.repo.func(BILLING_DATA, "_BillingData._compute_temperature_features")
    sd = _analyse_sibling(chk, r1, r2, r3, d, br)
    sb = _analyse_sibling(chk, r1, r2, r3, b, br)
    r4.require(sd == sb, "siblings|daily~billing _compute_temperature_features", b.where(), f"the two implementations differ in their coverage masks: {sd} vs {sb}")
    # hourly-route aggregator table in features.compute_temperature_features
    ctf = chk.repo.func(FEAT, "compute_temperature_features")
    t = unparse(ctf.node)
    r3.require("[('not_null', 'count'), ('null', lambda x: x.isnull().sum())]" in t, f"{ctf.key}|count-aggregators", ctf.where(), "present readings must be counted with `count`, absent ones with isnull().sum()")
    r3.require("('temp', 'not_null'): 'temperature_not_null'" in t and "('temp', 'null'): 'temperature_null'" in t, f"{ctf.key}|count-renames", ctf.where(), "the count columns must be renamed to temperature_not_null / temperature_null (not swapped)")
    r3.require("temp_agg_funcs.extend([('mean', 'mean')])" in t and "('temp', 'mean'): 'temperature_mean'" in t, f"{ctf.key}|mean-aggregator", ctf.where(), "the day's temperature must be aggregated with mean and named temperature_mean")
    r3.require("temp_groups = _matching_groups(meter_data_index, temp_df, tolerance)" in t and "temp_groups.agg({'temp': temp_agg_funcs})" in t, f"{ctf.key}|grouped-onto-meter-index", ctf.where(), "readings must be grouped onto the meter index before aggregating")
    r3.require("n_hours_dropped=df.temperature_mean.isnull().astype(int)" in t and "n_hours_kept=df.temperature_mean.notnull().astype(int)" in t and "temperature_null=df.n_hours_dropped" in t and "temperature_not_null=df.n_hours_kept" in t,
               f"{ctf.key}|hourly-fast-route-counts", ctf.where(), "hourly fast route: null / not-null flags must feed temperature_null / temperature_not_null respectively")
