"""C09 — daily temperature is the local-day mean of the sub-daily temperatures (kind / threshold / count clauses)."""
from __future__ import annotations

import ast
from typing import Dict, List, Optional, Set, Tuple

from engine.cfg import CFG
from engine.dataflow import ReachingDefs
from engine.index import AnalysisError, FuncInfo, calls_in, const_str, kwarg, unparse, walk_no_nested
from rules.common import BILLING_DATA, DAILY_DATA
from engine.pattern import PatCtx, make_resolver
from rules.kinds import DPU, as_freq_branches, frame_kind, mask_terms, rescale_sites

FEAT = "opendsm.eemeter.common.features"


def _analyse_sibling(chk, r1, r2, r3, f: FuncInfo, br) -> Dict[str, object]:
    cfg = CFG(f.node)
    rd = ReachingDefs(f.node, cfg)
    shape: Dict[str, object] = {}
    pc = PatCtx(f.node)
    res, stmt_of = make_resolver(f.node)
    params = [p for p in f.params if p != "self"]
    if len(params) < 2:
        raise AnalysisError(f"{f.qualname}: expected (df, meter_index) parameters")
    DF, MI = params[0], params[1]
    if not pc.has(f"_TS_ = {DF}['temperature']"):
        raise AnalysisError(f"{f.qualname}: the temperature series is no longer taken as {DF}['temperature']")
    TS = pc.name("_TS_")
    # ---- R09.1: the temperature frame comes from the instantaneous (mean) branch and is never divided by coverage
    sites = rescale_sites(chk, f)
    for s, base in sites:
        kinds = frame_kind(chk, f, s, base, br)
        r1.require("mean" not in kinds and kinds == {"sum"}, f"{f.key}|mean-divided-by-coverage", f.where(s),
                   f"{f.qualname}: `{unparse(s)[:80]}` divides a daily *mean* temperature by the day's coverage (kind {sorted(kinds)}): a day with 25 % of its readings missing comes out 33 % too warm",
                   sample={"function": f.qualname, "kind": sorted(kinds)})
    r1.inst(f"{f.key}|rescale-sites={len(sites)}")
    # ---- R09.3 (a) non-hourly route, by one-row interpretation (rules/tempcoverage_absint.py): as_freq hands back a day of mean T and
    # coverage c; the day keeps T (unscaled) iff c > 0.5, is NaN otherwise, and the missing-data warning is filed iff c <= 0.5
    from rules.tempcoverage_absint import T_MEAN, W_MISSING, outcomes as _cov_outcomes
    keep_bad, warn_bad, scale_bad, masks_seen, af_bad = [], [], [], [], []
    for o in _cov_outcomes(chk, f):
        c_ = o["coverage"]
        if "raises" in o or "returns" in o:
            keep_bad.append(f"coverage {c_:g}: {o.get('raises') or o.get('returns')}")
            continue
        want_keep = c_ > 0.5
        if want_keep and o["value"] is None:
            keep_bad.append(f"a day with {c_:.0%} of its readings is blanked")
        if not want_keep and (o["value"] is not None or not o["present"]):
            keep_bad.append(f"a day with {c_:.0%} of its readings " + ("keeps a temperature" if o["value"] is not None else "is dropped instead of being blanked"))
        if want_keep and o["value"] is not None and abs(o["value"] - T_MEAN) > 1e-9:
            scale_bad.append(f"a day with {c_:.0%} of its readings comes out as {o['value']:.4g} instead of the mean {T_MEAN} as_freq computed")
        if ((W_MISSING in o["warned"]) != (not want_keep)):
            warn_bad.append(f"coverage {c_:g}: warnings {o['warned']}")
        masks_seen.append((c_, o["value"] is not None, W_MISSING in o["warned"]))
        af = o.get("as_freq")
        if af is None or not (af["freq"] in ("D", "d", "1D") and af["series_type"] == "instantaneous" and af["include_coverage"] is True and af["atomic_freq"] == "1 Min"
                              and af["data_is_temperature_column"] and af["calls"] == 1):
            af_bad.append(f"as_freq is called with {af}")
    shape["masks"] = sorted(map(str, masks_seen))
    r3.require(not keep_bad and not warn_bad, f"{f.key}|coverage-masks", f.where(),
               f"{f.qualname}: a day with half or fewer of its readings must be missing and reported (keep iff coverage > 0.5, warn iff coverage <= 0.5); interpreted: {(keep_bad + warn_bad)[:3]}",
               sample={"masks": sorted(map(str, masks_seen))})
    r3.require(not keep_bad, f"{f.key}|blank-low-coverage-days", f.where(),
               f"{f.qualname}: low-coverage days must stay rows holding NaN (value -> temperature_mean); interpreted: {keep_bad[:3]}")
    r1.require(not af_bad, f"{f.key}|as_freq-instantaneous-daily", f.where(),
               f"{f.qualname}: sub-daily temperature must be aggregated with as_freq(<temperature column>, 'D', series_type='instantaneous', include_coverage=True) (a mean, not a sum), once; interpreted: {af_bad[:1]}")
    r1.require(not scale_bad, f"{f.key}|mean-not-rescaled", f.where(), f"{f.qualname}: {scale_bad[:2]}")
    # ---- R09.3 (b) hourly route, by one-row interpretation with a typical row (rules/temphourly_absint.py): compute_temperature_features hands
    # back a meter day with n present / m absent readings among complete days; the day keeps its mean iff n / (n + m) > 0.5, is a NaN row
    # otherwise, and the warning is filed iff a day was blanked
    from rules.temphourly_absint import T_MEAN as TH, W_MISSING as WH, outcomes as _hourly_outcomes
    kept_low, blank_high, wiring, warn_bad2, altered, dropped, table = [], [], [], [], [], [], []
    hs = _hourly_outcomes(chk, f)
    for o in hs:
        n_, m_ = o["n"], o["m"]
        tag = f"{n_}/{n_ + m_}"
        comp_ = o.get("companion")
        if "raises" in o or "returns" in o:
            kept_low.append(f"{tag}: {o.get('raises') or o.get('returns')}")
            continue
        want_blank = n_ / (n_ + m_) <= 0.5
        got_blank = o["value"] is None
        table.append((tag, "alone" if comp_ is None else "beside a day without readings", not got_blank, WH in o["warned"]))
        if not o["present"]:
            dropped.append(tag)
            continue
        if want_blank and not got_blank and tag not in kept_low:
            kept_low.append(tag)
        if got_blank and not want_blank and tag not in blank_high:
            blank_high.append(tag)
        if not got_blank and abs(o["value"] - TH) > 1e-9:
            altered.append(f"{tag}: {o['value']:.4g}")
        if (WH in o["warned"]) != (got_blank or comp_ is not None):
            warn_bad2.append(f"{tag}: warnings {o['warned']}, day {'blanked' if got_blank else 'kept'}" + ("" if comp_ is None else ", another day of the frame has no reading at all"))
        c_ = o["call"]
        if not (c_.get("calls") == 1 and c_.get("meter_index") and c_.get("temperature") and c_.get("data_quality") is True and not c_.get("extra")):
            wiring.append(str(c_))
        if o.get("buffer_left"):
            wiring.append("the buffer day appended to the meter index is still a row of the result")
    r3.require(not wiring, f"{f.key}|hourly-route", f.where(),
               f"{f.qualname}: hourly feeds must be grouped onto the meter days by compute_temperature_features(meter_index, temp_series, data_quality=True) with the library defaults; interpreted: {wiring[:1]}")
    r3.require(not kept_low, f"{f.key}|hourly-50%-rule", f.where(),
               f"{f.qualname}: a meter day is missing iff not_null / (not_null + null) <= 0.5; days that keep a temperature with half or fewer of their readings present (present/all): {kept_low[:5]}",
               sample={"table": [list(t) for t in table]})
    if blank_high:
        r3.require(False, f"{f.key}|hourly-50%-rule:blanked-above-half:{','.join(blank_high)}", f.where(),
                   f"{f.qualname}: days with more than half of their readings present are blanked (present/all readings of the day, among complete 24-reading days): {blank_high} - e.g. "
                   f"the 23-hour spring-forward day with 12 readings; the invalid-day mask is wider than not_null / (not_null + null) <= 0.5",
                   sample={"function": f.qualname, "blanked_above_half": blank_high, "table": [list(t) for t in table]})
    r3.require(not dropped and not altered, f"{f.key}|hourly-blank", f.where(),
               f"{f.qualname}: exactly the invalid meter days must have temperature_mean set to NaN, every day stays a row and a kept day keeps the mean it was given; interpreted: dropped {dropped[:3]}, altered {altered[:3]}")
    r3.require(not warn_bad2, f"{f.key}|hourly-warning", f.where(),
               f"{f.qualname}: the missing-temperature warning is filed iff a meter day was blanked; interpreted: {warn_bad2[:3]}")
    r3.inst(f"{f.key}|hourly-outcomes[{len(hs)}]", {"table": [list(t) for t in table]})
    # ---- R09.2 frequency-kind typing of the count columns on the non-hourly route
    from engine.dataflow import backward_slice_exprs as _bse
    for s in cfg.stmts():
        if isinstance(s, ast.Assign) and isinstance(s.targets[0], ast.Subscript) and isinstance(s.targets[0].value, ast.Name) and const_str(s.targets[0].slice) in ("temperature_null", "temperature_not_null"):
            col = const_str(s.targets[0].slice)
            src_raw = unparse(s.value).startswith(TS + ".")
            # kind of the frame stored into, at this statement: DAILY if anything that flows into it derives from as_freq(..., 'D') (whatever the
            # intermediate frames are called)
            frame_name = ast.Name(id=s.targets[0].value.id, ctx=ast.Load())
            daily = any(isinstance(c_, ast.Call) and unparse(c_.func).split(".")[-1] == "as_freq" for e_ in _bse(rd, s, frame_name, 10) for c_ in ast.walk(e_))
            resampled = ".resample(" in unparse(s.value) or ".groupby(" in unparse(s.value)
            r2.require(not (daily and src_raw and not resampled), f"{f.key}|count-column:{col}", f.where(s),
                       f"{f.qualname}: `{unparse(s)[:90]}` stores the *raw* (sub-daily) series' flags into the daily frame: alignment keeps only the midnight stamps, so the per-day "
                       f"counts of present/absent readings are 0/1 instead of counts and the 90 % temperature-coverage test is fed wrong numbers", sample={"function": f.qualname, "column": col})
    shape["masks"] = sorted(map(str, masks_seen))
    return shape


def run(chk):
    chk.explanation = (
        "Aggregation-kind typing (shared with C08): the temperature frame of the non-hourly route is of kind MEAN (as_freq instantaneous branch, "
        "checked, not assumed) and must never be divided by coverage; frequency-kind typing: columns stored into the daily frame must be "
        "daily-kind (a raw sub-daily series stored into it aligns on midnight stamps only); the 50 % rules of both routes (operator and constant); "
        "the hourly route's aggregator table (mean / count / isnull-sum with their renames); sibling cross-check of the daily and billing implementations.")
    chk.not_decided += ["merge_asof grouping of readings onto meter days and all time-zone arithmetic (pandas)", "exactness of the counts on the hourly route beyond their aggregator definitions"]
    r1 = chk.rule("R09.1", "a MEAN-kind temperature is never rescaled by coverage (both siblings)", 4)
    r2 = chk.rule("R09.2", "frequency-kind typing: count columns stored into the daily frame are daily-kind", 4)
    r3 = chk.rule("R09.3", "50 % rules and aggregator table: keep coverage > 0.5; hourly route mean/count/isnull-sum with renames; invalid iff not_null/(not_null+null) <= 0.5", 10)
    r4 = chk.rule("R09.4", "sibling cross-check: the daily and billing _compute_temperature_features agree on these obligations", 1)
    br = as_freq_branches(chk)
    if br.get("instantaneous", {}).get("value") != "mean":
        r1.require(False, "as_freq|instantaneous=mean", "data_processor_utilities.py", f"as_freq's instantaneous branch must aggregate with mean; found {br.get('instantaneous')}")
    # the temperature branch of as_freq, interpreted and compared with its reference term (rules/asfreq_absint.py): readings carried forward on
    # the atomic grid (every atomic step, however long the gap in rows), averaged per day, coverage = atoms present / atoms in the day
    from rules.asfreq_absint import check as check_as_freq
    check_as_freq(chk, r1, r1, kinds=("instantaneous",))
    d = chk.repo.func(DAILY_DATA, "_DailyData._compute_temperature_features")
    b = chk.repo.func(BILLING_DATA, "_BillingData._compute_temperature_features")
    sd = _analyse_sibling(chk, r1, r2, r3, d, br)
    sb = _analyse_sibling(chk, r1, r2, r3, b, br)
    r4.require(sd == sb, "siblings|daily~billing _compute_temperature_features", b.where(), f"the two implementations differ in their coverage masks: {sd} vs {sb}")
    # hourly-route aggregator table in features.compute_temperature_features
    ctf = chk.repo.func(FEAT, "compute_temperature_features")
    # interpreted on recording frames (rules/tempfeat_absint.py): which aggregate of which grouping comes out under which name
    from rules.tempfeat_absint import interpret, judge
    obligations = ("count-aggregators", "count-renames", "mean-aggregator", "grouped-onto-meter-index", "renames-applied", "hourly-fast-route-counts", "rows", "shape")
    found = {}
    n_paths = 0
    for freq in ("D", None, "h"):
        for trace, o in interpret(chk, ctf, freq):
            n_paths += 1
            for ob, msg in judge(trace, o, freq):
                found.setdefault(ob, f"meter index frequency {freq}: {msg}" + (f" (when {[t for t, v in trace if v]})" if any(v for t, v in trace) else ""))
    for ob in obligations:
        r3.require(ob not in found, f"{ctf.key}|{ob}", ctf.where(), f"compute_temperature_features(meter_index, temperatures, data_quality=True): {found.get(ob, '')}",
                   sample={"obligation": ob, "paths": n_paths})
    _readings_reach_aggregation(chk)
    _meter_days_complete(chk)


def _meter_days_complete(chk):
    """R09.6: the meter days the temperatures are grouped onto are *all* calendar days of the span (shared with C05, rules/daycompletion.py)."""
    from rules import daycompletion
    r6 = chk.rule("R09.6", "each day's temperature is the mean of that day only: the daily data class puts every calendar day of the span back as a meter row (days matched on year, month and day), so no day's readings are pooled into its predecessor", 1)
    fi = chk.repo.func(DAILY_DATA, "_DailyData._compute_meter_value_df")
    bad, n = daycompletion.judge(chk)
    for k_, msg in bad:
        r6.require(False, f"{fi.key}|{k_}", fi.where(), "_compute_meter_value_df: " + msg)
    if n < 1:
        raise AnalysisError(f"{fi.key}: no interpreted path completes the calendar (anchor changed)")
    r6.inst(f"{fi.key}|paths[{n}]", {"paths_completing_the_calendar": n})


def _readings_reach_aggregation(chk):
    """R09.5: _set_data (shared by the daily and billing classes) is interpreted on a state frame: at the call of
    _compute_temperature_features the temperature column must still be the caller's readings (only whole rows may have been dropped)."""
    from engine.absint import AbsObj, ClassRef, ModuleEnv, Opaque
    from engine.pyinterp import Function, Interp, InterpRaised, Stub, StubCall, Unsupported
    from rules.colterms import CT, SFrame
    r5 = chk.rule("R09.5", "the temperature readings reach the aggregation unaltered: _set_data hands _compute_temperature_features the caller's temperature column (rows may be de-duplicated, values not touched)", 4)
    fi = chk.repo.func(DAILY_DATA, "_DailyData._set_data")

    class _Idx(AbsObj):
        def __getattr__(self, name):
            if name.startswith("_"):
                raise AttributeError(name)
            return Opaque(f"index.{name}")

        def duplicated(self, keep="first"):
            return CT("index.duplicated", keep)

    class _PD(Stub):
        DatetimeIndex = ClassRef("DatetimeIndex")

        @staticmethod
        def to_datetime(x, **k):
            return x

    class _NP(Stub):
        nan = float("nan")

    for elec in (True, False):
        for unit in ("ns", "us"):
            seen: Dict[str, object] = {}

            def meter(df):
                seen["meter"] = df
                return AbsObj({"DataFrame"}, index=Opaque("meter.index"))

            def temps(df, meter_index):
                seen["temps"] = df
                return Opaque("temp"), Opaque("coverage")
            idx = _Idx({"DatetimeIndex"}, tz=Opaque("tz"), dtype=AbsObj({"dtype"}, unit=unit))
            me = AbsObj({"_DailyData"}, is_electricity_data=elec, warnings=[], disqualification=[],
                        _compute_meter_value_df=StubCall(meter), _compute_temperature_features=StubCall(temps), _merge_meter_temp=StubCall(lambda m, t: Opaque("merged")))
            it = Interp(step_limit=50_000)
            stand = {"pd": _PD(), "pandas": _PD(), "np": _NP(), "numpy": _NP(), "remove_duplicates": StubCall(lambda d: d.rowop("remove_duplicates")),
                     "EEMeterWarning": StubCall(lambda **k: Opaque("warning"))}
            env = ModuleEnv(chk.repo, fi.module, it, stand)
            key = f"{fi.key}|temperature-unaltered|electricity={elec}|index-unit={unit}"
            try:
                Function(fi.node, env, it)(me, SFrame.start(["observed", "temperature"], index=idx))
            except InterpRaised as e:
                r5.require(False, key, fi.where(), f"_set_data raises {e.exc_name} on a well-formed frame (tz-aware DatetimeIndex, observed + temperature)")
                continue
            except Unsupported as e:
                raise AnalysisError(f"{fi.key}: uses an operation outside the modelled subset: {e}")
            fr = seen.get("temps")
            if not isinstance(fr, SFrame):
                r5.require(False, key, fi.where(), "_set_data does not hand the input frame to _compute_temperature_features")
                continue
            t = fr._cols.get("temperature")
            got = t.key() if isinstance(t, CT) else repr(t)
            r5.require(got == "col:temperature", key, fi.where(),
                       f"_set_data alters the temperature readings before they are aggregated: the column handed to _compute_temperature_features is `{got}` "
                       f"(a reading that is changed or blanked here is no longer 'present': the day's mean and its coverage counts are then wrong)",
                       sample={"electricity": elec, "temperature": got, "rows": fr._rows})
            sel = [r for r in fr._rows if r not in ("remove_duplicates", "select(not(index.duplicated('first')))")]
            r5.require(not sel, key + "|rows", fi.where(), f"_set_data drops rows of the input before the temperature is aggregated other than duplicate stamps: {sel}")
