"""Coefficient-vector conventions of the daily model, shared by C01 (R01.7) and C12 (R12.x)."""
from __future__ import annotations

import ast
from typing import Dict, List, Optional, Set, Tuple

from engine.index import AnalysisError, FuncInfo, const_str, unparse, walk_no_nested

OR = "opendsm.eemeter.models.daily.optimize_results"
PA = "opendsm.eemeter.models.daily.parameters"
FM = "opendsm.eemeter.models.daily.base_models.full_model"
HTC = "opendsm.eemeter.models.daily.base_models.hdd_tidd_cdd"
CHT = "opendsm.eemeter.models.daily.base_models.c_hdd_tidd"
TIDD = "opendsm.eemeter.models.daily.base_models.tidd"

SHAPES = {
    "hdd_tidd_cdd_smooth": ("hdd_bp", "hdd_beta", "hdd_k", "cdd_bp", "cdd_beta", "cdd_k", "intercept"),
    "hdd_tidd_cdd": ("hdd_bp", "hdd_beta", "cdd_bp", "cdd_beta", "intercept"),
    "c_hdd_tidd_smooth": ("c_hdd_bp", "c_hdd_beta", "c_hdd_k", "intercept"),
    "c_hdd_tidd": ("c_hdd_bp", "c_hdd_beta", "intercept"),
    "tidd": ("intercept",),
}


def str_lists(node: ast.AST) -> List[Tuple[str, ...]]:
    out = []
    for n in ast.walk(node):
        if isinstance(n, ast.List) and n.elts and all(isinstance(e, ast.Constant) and isinstance(e.value, str) for e in n.elts):
            out.append(tuple(e.value for e in n.elts))
    return out


def to_np_array_table(chk) -> Dict[str, List[str]]:
    f = chk.repo.func(PA, "ModelCoefficients.to_np_array")
    out: Dict[str, List[str]] = {}
    def walk(node):
        if isinstance(node, ast.If):
            t = node.test
            if isinstance(t, ast.Compare) and unparse(t.left) == "self.model_type":
                ty = unparse(t.comparators[0]).split("ModelType.")[-1]
                rets = [s for s in node.body if isinstance(s, ast.Return)]
                if rets and isinstance(rets[0].value, ast.Call) and rets[0].value.args and isinstance(rets[0].value.args[0], ast.List):
                    out[ty] = [e.attr if isinstance(e, ast.Attribute) else unparse(e) for e in rets[0].value.args[0].elts]
            for o in node.orelse:
                walk(o)
    for s in f.node.body:
        walk(s)
    return out


def model_key_table(chk) -> Dict[str, str]:
    """ModelType member -> model_key string (ModelCoefficients.model_key)."""
    f = chk.repo.func(PA, "ModelCoefficients.model_key")
    out: Dict[str, str] = {}
    def walk(node):
        if isinstance(node, ast.If):
            rets = [s for s in node.body if isinstance(s, ast.Return)]
            key = const_str(rets[0].value) if rets else None
            t = node.test
            if isinstance(t, ast.Compare) and unparse(t.left) == "self.model_type" and key is not None:
                c = t.comparators[0]
                members = c.elts if isinstance(c, (ast.List, ast.Tuple)) else [c]
                for m in members:
                    out[unparse(m).split("ModelType.")[-1]] = key
            for o in node.orelse:
                walk(o)
    for s in f.node.body:
        walk(s)
    return out


def unpack_table(chk) -> Dict[str, List[str]]:
    """model_key -> names unpacked from x in get_full_model_x."""
    f = chk.repo.func(FM, "get_full_model_x")
    out: Dict[str, List[str]] = {}
    def walk(node):
        if isinstance(node, ast.If):
            t = node.test
            if isinstance(t, ast.Compare) and unparse(t.left) == "model_key" and const_str(t.comparators[0]):
                key = const_str(t.comparators[0])
                for s in node.body:
                    if isinstance(s, ast.Assign) and unparse(s.value) == "x" and isinstance(s.targets[0], (ast.List, ast.Tuple)):
                        out[key] = [e.id for e in s.targets[0].elts]
            for o in node.orelse:
                walk(o)
    for s in f.node.body:
        walk(s)
    return out


def check_conventions(chk, rule):
    """The five coef_id sequences agree at every writer/reader site, position by position."""
    want = set(SHAPES.values())
    sites = {
        "OptimizedResult.reduce_model": chk.repo.func(OR, "OptimizedResult.reduce_model") if chk.repo.try_func(OR, "OptimizedResult.reduce_model") else chk.repo.func(OR, "reduce_model"),
        "OptimizedResult._set_model_key": chk.repo.func(OR, "OptimizedResult._set_model_key"),
        "ModelCoefficients.from_np_arrays": chk.repo.func(PA, "ModelCoefficients.from_np_arrays"),
    }
    for nm, f in sites.items():
        got = set(str_lists(f.node))
        got = {g for g in got if g[-1] == "intercept"}
        for shp in sorted(want | got, key=len):
            rule.require(shp in want and shp in got, f"{f.key}|shape:{'/'.join(shp)}", f.where(),
                         f"{nm}: coefficient-id sequence {list(shp)} " + ("is missing" if shp not in got else "is not one of the five agreed vector shapes"),
                         sample={"site": nm, "shape": list(shp)})
    # _set_model_key: each shape maps to the model_key of that name
    smk = sites["OptimizedResult._set_model_key"]
    for n in ast.walk(smk.node):
        if isinstance(n, ast.If) and isinstance(n.test, ast.Compare) and isinstance(n.test.comparators[0], ast.List):
            lst = tuple(const_str(e) for e in n.test.comparators[0].elts)
            keys = [const_str(s.value) for s in n.body if isinstance(s, ast.Assign) and unparse(s.targets[0]) == "self.model_key"]
            if keys and lst in want:
                rule.require(SHAPES.get(keys[0]) == lst, f"{smk.key}|key:{keys[0]}", smk.where(n), f"_set_model_key maps {list(lst)} to `{keys[0]}`, whose agreed shape is {SHAPES.get(keys[0])}")
    # fit functions' coef_id lists
    for mod, fn, keys in ((HTC, "fit_hdd_tidd_cdd", ("hdd_tidd_cdd_smooth", "hdd_tidd_cdd")), (CHT, "fit_c_hdd_tidd", ("c_hdd_tidd_smooth", "c_hdd_tidd")), (TIDD, "fit_tidd", ("tidd",))):
        f = chk.repo.func(mod, fn)
        got = {g for g in str_lists(f.node) if g[-1] == "intercept"}
        for k in keys:
            rule.require(SHAPES[k] in got, f"{f.key}|coef_id:{k}", f.where(), f"{fn}: coef_id for `{k}` must be {list(SHAPES[k])}; found {sorted(got)}")
        extra = got - {SHAPES[k] for k in keys}
        rule.require(not extra, f"{f.key}|coef_id-extra", f.where(), f"{fn}: unexpected coefficient-id sequence(s) {sorted(extra)}")
    # get_full_model_x unpack order == shape of that model_key
    up = unpack_table(chk)
    gx = chk.repo.func(FM, "get_full_model_x")
    for k, shp in SHAPES.items():
        rule.require(tuple(up.get(k, ())) == shp, f"{gx.key}|unpack:{k}", gx.where(), f"get_full_model_x unpacks `{k}` as {up.get(k)}; agreed order is {list(shp)}",
                     sample={"site": "get_full_model_x", "model_key": k, "unpack": up.get(k)})
    # to_np_array(ModelType) produces the shape of model_key(ModelType) (c_hdd_* fields are the hdd_* or cdd_* triple)
    tn = to_np_array_table(chk)
    mk = model_key_table(chk)
    ta = chk.repo.func(PA, "ModelCoefficients.to_np_array")
    for ty in sorted(set(tn) | set(mk)):
        key = mk.get(ty)
        arr = tn.get(ty)
        ok = key in SHAPES and arr is not None
        if ok:
            shp = SHAPES[key]
            if key.startswith("c_hdd"):
                side = "hdd" if ty.startswith("HDD") else "cdd"
                ok = tuple(a.replace(side + "_", "c_hdd_") for a in arr) == shp and all(a == "intercept" or a.startswith(side + "_") for a in arr)
            else:
                ok = tuple(arr) == shp
        rule.require(ok, f"{ta.key}|type:{ty}", ta.where(), f"ModelType.{ty}: to_np_array yields {arr}, model_key `{key}` expects {SHAPES.get(key)}",
                     sample={"model_type": ty, "model_key": key, "vector": arr})
    return tn, mk
