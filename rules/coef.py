"""Coefficient-vector conventions of the daily model, shared by C01 (R01.7) and C12 (R12.x)."""
from __future__ import annotations

import ast
from typing import Dict, List, Optional, Set, Tuple

from engine.index import AnalysisError, FuncInfo, const_str, unparse, walk_no_nested

OR = "opendsm.eemeter.models.daily.optimize_results"
PA = "opendsm.eemeter.models.daily.parameters"
FM = "opendsm.eemeter.models.daily.base_models.full_model"
HTC = "opendsm.eemeter.models.daily.base_models.hdd_tidd_cdd"
CHT = "opendsm.eemeter.models.daily.base_models.c_hdd_tidd"
TIDD = "opendsm.eemeter.models.daily.base_models.tidd"

SHAPES = {
    "hdd_tidd_cdd_smooth": ("hdd_bp", "hdd_beta", "hdd_k", "cdd_bp", "cdd_beta", "cdd_k", "intercept"),
    "hdd_tidd_cdd": ("hdd_bp", "hdd_beta", "cdd_bp", "cdd_beta", "intercept"),
    "c_hdd_tidd_smooth": ("c_hdd_bp", "c_hdd_beta", "c_hdd_k", "intercept"),
    "c_hdd_tidd": ("c_hdd_bp", "c_hdd_beta", "intercept"),
    "tidd": ("intercept",),
}


def str_lists(node: ast.AST) -> List[Tuple[str, ...]]:
    out = []
    for n in ast.walk(node):
        if isinstance(n, ast.List) and n.elts and all(isinstance(e, ast.Constant) and isinstance(e.value, str) for e in n.elts):
            out.append(tuple(e.value for e in n.elts))
    return out


FIELDS = ("intercept", "hdd_bp", "hdd_beta", "hdd_k", "cdd_bp", "cdd_beta", "cdd_k")


def _coefficients_object(chk, member):
    from engine.absint import AbsObj, BoundRepoMethods, Term

    class _MC(AbsObj, BoundRepoMethods):
        pass
    me = _MC({"ModelCoefficients"}, model_type=member, **{f: Term(f) for f in FIELDS})
    return me


def _model_types(chk):
    from engine.absint import enum_class
    ec = enum_class(chk.repo.cls(PA, "ModelType"))
    if ec is None:
        raise AnalysisError("ModelType is no longer an Enum of literal members")
    return list(ec)


def _interp_on_types(chk, qual: str):
    """{ModelType member name: what ModelCoefficients.<qual> gives for a coefficients object of that type}, by interpretation."""
    from engine.absint import ModuleEnv, Term
    from engine.pyinterp import Function, Interp, InterpRaised, Stub, Unsupported
    f = chk.repo.func(PA, "ModelCoefficients." + qual)

    class _NP(Stub):
        @staticmethod
        def array(x, **k):
            return list(x)
    out = {}
    for member in _model_types(chk):
        it = Interp(step_limit=20_000)
        me = _coefficients_object(chk, member)
        me._bind_repo(chk, chk.repo.cls(PA, "ModelCoefficients"), it, {"np": _NP(), "numpy": _NP()})
        try:
            r = Function(f.node, ModuleEnv(chk.repo, f.module, it, {"np": _NP(), "numpy": _NP()}), it)(me)
        except InterpRaised as e:
            r = f"raises {e.exc_name}"
        except Unsupported as e:
            raise AnalysisError(f"{f.key}: uses an operation outside the interpreted subset: {e}")
        if isinstance(r, (list, tuple)):
            r = [x.key() if isinstance(x, Term) else repr(x) for x in r]
        out[member.name] = r
    return out


def to_np_array_table(chk) -> Dict[str, List[str]]:
    """ModelType member -> the coefficient fields to_np_array lays out, in order (interpreted per member on symbolic fields)."""
    return {k: v for k, v in _interp_on_types(chk, "to_np_array").items() if isinstance(v, list)}


def model_key_table(chk) -> Dict[str, str]:
    """ModelType member -> model_key string (ModelCoefficients.model_key, interpreted per member)."""
    return {k: v for k, v in _interp_on_types(chk, "model_key").items() if isinstance(v, str) and not v.startswith("raises ")}


def unpack_table(chk) -> Dict[str, List[str]]:
    """model_key -> names unpacked from x in get_full_model_x."""
    f = chk.repo.func(FM, "get_full_model_x")
    out: Dict[str, List[str]] = {}
    def walk(node):
        if isinstance(node, ast.If):
            t = node.test
            if isinstance(t, ast.Compare) and unparse(t.left) == "model_key" and const_str(t.comparators[0]):
                key = const_str(t.comparators[0])
                for s in node.body:
                    if isinstance(s, ast.Assign) and unparse(s.value) == "x" and isinstance(s.targets[0], (ast.List, ast.Tuple)):
                        out[key] = [e.id for e in s.targets[0].elts]
            for o in node.orelse:
                walk(o)
    for s in f.node.body:
        walk(s)
    return out


def check_conventions(chk, rule):
    """The five coef_id sequences agree at every writer/reader site, position by position."""
    want = set(SHAPES.values())
    sites = {
        "OptimizedResult.reduce_model": chk.repo.func(OR, "OptimizedResult.reduce_model") if chk.repo.try_func(OR, "OptimizedResult.reduce_model") else chk.repo.func(OR, "reduce_model"),
        "OptimizedResult._set_model_key": chk.repo.func(OR, "OptimizedResult._set_model_key"),
        "ModelCoefficients.from_np_arrays": chk.repo.func(PA, "ModelCoefficients.from_np_arrays"),
    }
    for nm, f in sites.items():
        got = set(str_lists(f.node))
        got = {g for g in got if g[-1] == "intercept"}
        for shp in sorted(want | got, key=len):
            rule.require(shp in want and shp in got, f"{f.key}|shape:{'/'.join(shp)}", f.where(),
                         f"{nm}: coefficient-id sequence {list(shp)} " + ("is missing" if shp not in got else "is not one of the five agreed vector shapes"),
                         sample={"site": nm, "shape": list(shp)})
    # _set_model_key: each shape maps to the model_key of that name
    smk = sites["OptimizedResult._set_model_key"]
    for n in ast.walk(smk.node):
        if isinstance(n, ast.If) and isinstance(n.test, ast.Compare) and isinstance(n.test.comparators[0], ast.List):
            lst = tuple(const_str(e) for e in n.test.comparators[0].elts)
            keys = [const_str(s.value) for s in n.body if isinstance(s, ast.Assign) and unparse(s.targets[0]) == "self.model_key"]
            if keys and lst in want:
                rule.require(SHAPES.get(keys[0]) == lst, f"{smk.key}|key:{keys[0]}", smk.where(n), f"_set_model_key maps {list(lst)} to `{keys[0]}`, whose agreed shape is {SHAPES.get(keys[0])}")
    # fit functions' coef_id lists: read off the interpreted fit functions (rules/fit_tables.py: the optimiser and the objective factory are
    # recorders), so it does not matter whether the list is a literal, a named constant or the entry of a lookup table
    from rules.fit_tables import outcomes as _fit_outcomes
    seen_fit = {}
    for o in _fit_outcomes(chk):
        f, k, rec = o["function"], o["key"], o["rec"]
        ids = tuple((rec.get("objective") or {}).get("coef_id") or ()) if isinstance(rec, dict) else ()
        ids_o = tuple((rec.get("optimizer") or {}).get("coef_id") or ()) if isinstance(rec, dict) else ()
        seen_fit.setdefault((f.key, k), (f, set()))[1].update({ids, ids_o})
    for (fk, k), (f, got) in seen_fit.items():
        rule.require(got == {SHAPES[k]}, f"{fk}|coef_id:{k}", f.where(), f"{f.name}: coef_id for `{k}` must be {list(SHAPES[k])}; the optimiser / objective get {sorted(got)}")
    if len(seen_fit) < 5:
        from engine.index import AnalysisError as _AE
        raise _AE(f"coefficient conventions: only {len(seen_fit)} (fit function, model key) pairs interpreted")
    # get_full_model_x unpack order == shape of that model_key
    up = unpack_table(chk)
    gx = chk.repo.func(FM, "get_full_model_x")
    for k, shp in SHAPES.items():
        rule.require(tuple(up.get(k, ())) == shp, f"{gx.key}|unpack:{k}", gx.where(), f"get_full_model_x unpacks `{k}` as {up.get(k)}; agreed order is {list(shp)}",
                     sample={"site": "get_full_model_x", "model_key": k, "unpack": up.get(k)})
    # to_np_array(ModelType) produces the shape of model_key(ModelType) (c_hdd_* fields are the hdd_* or cdd_* triple)
    tn = to_np_array_table(chk)
    mk = model_key_table(chk)
    ta = chk.repo.func(PA, "ModelCoefficients.to_np_array")
    for ty in sorted(set(tn) | set(mk)):
        key = mk.get(ty)
        arr = tn.get(ty)
        ok = key in SHAPES and arr is not None
        if ok:
            shp = SHAPES[key]
            if key.startswith("c_hdd"):
                side = "hdd" if ty.startswith("HDD") else "cdd"
                ok = tuple(a.replace(side + "_", "c_hdd_") for a in arr) == shp and all(a == "intercept" or a.startswith(side + "_") for a in arr)
            else:
                ok = tuple(arr) == shp
        rule.require(ok, f"{ta.key}|type:{ty}", ta.where(), f"ModelType.{ty}: to_np_array yields {arr}, model_key `{key}` expects {SHAPES.get(key)}",
                     sample={"model_type": ty, "model_key": key, "vector": arr})
    return tn, mk
