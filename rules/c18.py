"""C18 — CalTRACK hourly: month routing, weights, bin features, occupancy masks, hour-of-week."""
from __future__ import annotations

import ast
import itertools
import math
from typing import Any, Dict, List, Optional, Tuple

from engine.consteval import ConstEval, NotConstant
from engine.index import AnalysisError, FuncInfo, calls_in, const_str, kwarg, unparse, walk_no_nested
from engine.rowabs import ABSENT, NPRow, PDRow, Ser
from engine.absint import ModuleEnv
from engine.pyinterp import Function, Interp, InterpRaised, Unsupported

SEG = "opendsm.eemeter.models.hourly_caltrack.segmentation"
MODEL = "opendsm.eemeter.models.hourly_caltrack.model"
FEAT = "opendsm.eemeter.common.features"
ABBR = ["jan", "feb", "mar", "apr", "may", "jun", "jul", "aug", "sep", "oct", "nov", "dec"]


def _check_segmented_predict(chk, r2, sm, sinit, spred, mapping, names1, W1):
    """SegmentedModel.__init__ + predict interpreted under the one-row abstraction for an hour of every month: each fitted window model
    answers with its own number, so the hour's prediction says which window answered and with which weight."""
    from engine.absint import AbsObj, BoundRepoMethods
    from engine.pyinterp import Stub, StubCall
    from engine.rowabs import Idx, RowFrame, RowTable
    windows = sorted(set(mapping.values()))
    value_of = {w: 100.0 * (i + 1) for i, w in enumerate(windows)}

    class _Me(AbsObj, BoundRepoMethods):
        pass

    class _Fitted(Stub):
        def __init__(self, name):
            self.segment_name = name

        def predict(self, data, *a, **k):
            return Ser(value_of[self.segment_name])

    class _SegData(Stub):
        def __init__(self, w):
            self.weight = Ser(w)

        def __getitem__(self, k):
            if k == "weight":
                return Ser(self.weight.v)
            raise Unsupported("segmented data[...] other than the weight column")

    for missing in (None, "own"):
        for m in range(1, 13):
            mon = ABBR[m - 1]
            fitted = [w for w in windows if not (missing == "own" and w == mapping[mon])]
            seen = {}

            def seg_ts(index, segment_type="single", drop_zero_weight_segments=False):
                seen["segment_time_series"] = (index, segment_type, drop_zero_weight_segments)
                return RowTable({c: Ser(W1[c][m]) for c in names1})

            def iterate(data, segmentation=None, feature_processor=None, feature_processor_kwargs=None, feature_processor_segment_name_mapping=None):
                seen["iterate"] = (segmentation, feature_processor, feature_processor_kwargs, feature_processor_segment_name_mapping)
                if not isinstance(segmentation, dict):
                    raise Unsupported("iterate_segmented_dataset without the segmentation built by segment_time_series")
                return iter([(c, _SegData(v.v)) for c, v in segmentation.items()])
            it = Interp(step_limit=50_000)
            stand = {"np": NPRow(), "numpy": NPRow(), "pd": PDRow(), "pandas": PDRow(), "segment_time_series": StubCall(seg_ts), "iterate_segmented_dataset": StubCall(iterate),
                     "HourlyModelPrediction": StubCall(lambda **k: k.get("result"))}
            me = _Me({sm.name})
            me._bind_repo(chk, sm, it, stand)
            key = f"{spred.key}|route:{mon}" + ("" if missing is None else "|own-window-not-fitted")
            temperature = Ser(55.0)
            try:
                Function(sinit.node, ModuleEnv(chk.repo, sinit.module, it, stand), it)(me, [_Fitted(w) for w in fitted], "one_month", dict(mapping), "PROCESSOR", {"k": 1})
                res = Function(spred.node, ModuleEnv(chk.repo, spred.module, it, stand), it)(me, temperature.index, temperature)
            except InterpRaised as e:
                r2.require(False, key, spred.where(), f"SegmentedModel raises {e.exc_name} when predicting an hour of {mon}")
                continue
            except Unsupported as e:
                raise AnalysisError(f"{spred.key}: uses an operation outside the one-row abstraction: {e}")
            from engine.rowabs import RowFrame as _RF
            if isinstance(res, _RF):     # built with Series.to_frame(name) instead of DataFrame({name: series})
                got = res["predicted_usage"] if "predicted_usage" in res.columns else None
            else:
                got = res.get("predicted_usage") if isinstance(res, dict) else None
            gv = got.v if isinstance(got, Ser) else None
            want = value_of[mapping[mon]] if missing is None else math.nan
            ok = gv is not None and gv is not ABSENT and ((math.isnan(want) and isinstance(gv, float) and math.isnan(gv)) or (not math.isnan(want) and abs(gv - want) < 1e-9))
            who = [w for w, v in value_of.items() if gv is not None and gv is not ABSENT and not (isinstance(gv, float) and math.isnan(gv)) and abs(gv - v) < 1e-9]
            r2.require(ok, key, spred.where(),
                       f"an hour of `{mon}` must be predicted by the model fitted on `{mapping[mon]}` with weight 1" + (" and stay NaN when that model does not exist (not 0, not another window's answer)" if missing else "")
                       + f"; interpreted prediction {gv}" + (f" (= the answer of {who})" if who else ""), sample={"month": mon, "prediction": None if gv is None or gv is ABSENT or (isinstance(gv, float) and math.isnan(gv)) else gv})
            if missing is None and m == 1:
                sts = seen.get("segment_time_series")
                r2.require(sts is not None and isinstance(sts[0], Idx) and sts[1] == "one_month", f"{spred.key}|segmentation-type", spred.where(),
                           f"SegmentedModel.predict must segment the temperature index with its prediction_segment_type; called with {sts[1:] if sts else None}")
                itr = seen.get("iterate")
                r2.require(itr is not None and itr[1] == "PROCESSOR" and itr[2] == {"k": 1} and itr[3] == dict(mapping), f"{spred.key}|processor-plumbing", spred.where(),
                           "SegmentedModel.predict must hand its own feature processor, its keyword arguments and the segment-name mapping to iterate_segmented_dataset")


def _weight_matrix(chk, fi: FuncInfo):
    """The weight-table function interpreted under the one-row abstraction for an hour of every calendar month: returns
    (column names in frame order, the same list, W[name][month])."""
    from engine.pyinterp import Stub
    from engine.rowabs import RowTable

    class _UtcInstants(Stub):
        """index.values / to_numpy(): the instants as UTC wall clock (the time zone is dropped)."""

        def __init__(self, y, mo):
            self.y, self.mo = y, mo

        def astype(self, t):
            if t in ("datetime64[M]", "M8[M]", "<M8[M]"):
                return _UtcInstants(self.y, self.mo)
            if t in (int, "int", "int64", "i8"):
                return Ser((self.y - 1970) * 12 + (self.mo - 1))   # months since the epoch (after the cast to month resolution)
            raise Unsupported(f"astype({t!r}) of datetime values")

    class _MonthIndex(Stub):
        """One hour of local calendar month m (year 2017).  `du` says where that hour falls on the UTC calendar: the same month, the next
        one (last local hours of a month, west of Greenwich) or the previous one (first local hours, east of Greenwich)."""

        def __init__(self, m, du=0, aware=True):
            self._m, self._du, self._aware = m, du, aware
            self.month = Ser(m)
            self.year = Ser(2017)
            self.tz = "some/zone" if aware else None

        def _utc(self):
            y, u = 2017, self._m + (self._du if self._aware else 0)
            if u > 12:
                y, u = y + 1, u - 12
            if u < 1:
                y, u = y - 1, u + 12
            return y, u

        @property
        def values(self):
            return _UtcInstants(*self._utc())

        def to_numpy(self, *a, **k):
            return _UtcInstants(*self._utc())

        def tz_localize(self, tz=None, **k):
            if tz is None:
                return _MonthIndex(self._m, 0, False)      # local wall clock kept
            if self._aware:
                from engine.pyinterp import InterpRaised
                raise InterpRaised("TypeError", "Already tz-aware, use tz_convert to convert.")
            return _MonthIndex(self._m, 0, True)

        def tz_convert(self, tz=None, **k):
            if not self._aware:
                from engine.pyinterp import InterpRaised
                raise InterpRaised("TypeError", "Cannot convert tz-naive timestamps, use tz_localize to localize")
            y, u = self._utc()
            if tz is None or str(tz).upper() == "UTC":
                return _MonthIndex(u, 0, tz is not None)    # UTC wall clock
            raise Unsupported("tz_convert to a zone other than UTC")

    names = None
    W: Dict[str, Dict[int, float]] = {}
    for m, du, aware in [(m_, du_, True) for m_ in range(1, 13) for du_ in (0, 1, -1)] + [(m_, 0, False) for m_ in range(1, 13)]:
        it = Interp(step_limit=20_000)
        idx = _MonthIndex(m, du, aware)
        try:
            t = Function(fi.node, ModuleEnv(chk.repo, fi.module, it, {"np": NPRow(), "numpy": NPRow(), "pd": PDRow(), "pandas": PDRow()}), it)(idx)
        except InterpRaised as e:
            raise AnalysisError(f"{fi.key}: raises {e.exc_name} for an hour of month {m}")
        except Unsupported as e:
            raise AnalysisError(f"{fi.key}: weight table uses an operation outside the one-row abstraction: {e}")
        if not isinstance(t, RowTable):
            raise AnalysisError(f"{fi.key}: does not return a frame built from named weight columns")
        if t.index_given is not idx:
            raise AnalysisError(f"{fi.key}: weights are not indexed by the input index")
        cols = list(t.keys())
        if names is None:
            names = cols
        elif cols != names:
            raise AnalysisError(f"{fi.key}: the weight columns depend on the month of the hour ({cols} vs {names})")
        for c in cols:
            v = t[c]
            w = v.v if isinstance(v, Ser) else (1.0 if getattr(v, "b", None) is True else (0.0 if getattr(v, "b", None) is False else v))
            if not isinstance(w, (int, float)) or w is ABSENT:
                raise AnalysisError(f"{fi.key}: weight `{c}` of month {m} is not a number")
            if (du, aware) == (0, True):
                W.setdefault(c, {})[m] = float(w)
            else:
                W.setdefault("__other_clock__", {}).setdefault((m, du, aware), {})[c] = float(w)
    # the weights are a function of the *local* calendar month: an hour whose UTC month differs, and a tz-naive index, get the same row
    off = W.pop("__other_clock__", {})
    W["__clock_deviations__"] = [(m, du, aware, c, w, W[c][m]) for (m, du, aware), row in off.items() for c, w in row.items() if abs(w - W[c][m]) > 1e-12]
    return names, list(names), W


def _eval_weight(e: ast.AST, m: int, env: Dict[str, Any], chk, fi) -> float:
    # strip .astype(float)
    if isinstance(e, ast.Call) and isinstance(e.func, ast.Attribute) and e.func.attr == "astype":
        e = e.func.value
    hook = lambda n: m if unparse(n) == "index.month" else NotConstant
    if isinstance(e, ast.Call) and isinstance(e.func, ast.Attribute) and e.func.attr == "map" and unparse(e.func.value) == "index.month" \
            and len(e.args) == 1 and isinstance(e.args[0], ast.Lambda) and len(e.args[0].args.args) == 1:
        lam = e.args[0]
        env2 = dict(env)
        env2[lam.args.args[0].arg] = m
        v = ConstEval(chk.res, fi.module, env2, hook).ev(lam.body)
    else:
        v = ConstEval(chk.res, fi.module, dict(env), hook).ev(e)
    return float(v)


def _months_of_name(name: str) -> Optional[List[int]]:
    parts = name.replace("-weighted", "").split("-")
    try:
        return [ABBR.index(p) + 1 for p in parts]
    except ValueError:
        return None


def run(chk):
    chk.explanation = (
        "The three weight-table functions are evaluated from their source for each of the 12 months (literal rows, the column "
        "expression interpreted with index.month := m), giving 12x12 matrices that are checked exhaustively against the "
        "partition-of-unity / neighbour-half-weight statements; the prediction routing map is joined against the weighted table; "
        "compute_temperature_bin_features is interpreted under a one-row abstraction of Series for all subsets of a candidate "
        "endpoint list and temperatures on, between and beyond the endpoints; occupancy masks and hour_of_week are checked structurally.")
    chk.not_decided += ["pandas alignment inside reindex/merge beyond the one-row abstraction", "that index.month is the local calendar month of each hour (pandas)"]
    chk.trusted += ["Series arithmetic aligns on the index union (missing on one side -> NaN); x.reindex(idx, fill_value=0) fills absent rows with 0; NaN compares False"]
    r1 = chk.rule("R18.1", "weight tables: one_month bijective; three_month 3-cover of cyclic neighbours; weighted = 1 own / 0.5 the two neighbours / 0 elsewhere; names, columns and dispatch agree", 60)
    r2 = chk.rule("R18.2", "prediction routing: month -> window centred on that month, predicted with one_month segments, weight>0 rows only, summed with min_count=1", 16)
    r3 = chk.rule("R18.3", "hour_of_week == 24*dayofweek + hour; warning universe is range(168)", 2)
    r4 = chk.rule("R18.4", "occupied / unoccupied features are zeroed by complementary tests of the same occupancy series, identically in fit and prediction processors", 4)
    r5 = chk.rule("R18.5", "bin features: bin0 = min(T, r0); bin i = clamp(T, l, r) - l; NaN stays NaN; rows sum to T (one-row abstract interpretation, all endpoint subsets)", 100)

    # ------------------------------------------------------------------ R18.1
    f1 = chk.repo.func(SEG, "_segment_weights_one_month")
    f3 = chk.repo.func(SEG, "_segment_weights_three_month")
    fw = chk.repo.func(SEG, "_segment_weights_three_month_weighted")
    try:
        n1, c1, W1 = _weight_matrix(chk, f1)
        n3, c3, W3 = _weight_matrix(chk, f3)
        nw, cw, Ww = _weight_matrix(chk, fw)
    except NotConstant as e:
        r1.require(False, "weight-tables|evaluable", f1.where(), f"cannot establish the weight tables: an entry is not a literal ({e})")
        n1 = None
    if n1 is not None:
        for fi, Wt in ((f1, W1), (f3, W3), (fw, Ww)):
            dev = Wt.pop("__clock_deviations__", [])
            r1.require(not dev, f"{fi.key}|local-calendar-month", fi.where(),
                       f"{fi.qualname}: the weights must follow the local calendar month of each hour; " + "; ".join(
                           f"an hour of local month {m} that lies in {'the next' if du > 0 else 'the previous' if du < 0 else 'the same'} month on the UTC clock"
                           f"{'' if aware else ' (tz-naive index)'} gets weight {w} in `{c}` instead of {w0}" for m, du, aware, c, w, w0 in dev[:2]),
                       sample={"function": fi.qualname, "clock_scenarios": 48})
        for fi, names, cols in ((f1, n1, c1), (f3, n3, c3), (fw, nw, cw)):
            r1.require(cols == names, f"{fi.key}|columns==keys", fi.where(), f"{fi.key}: `columns=` list {cols} differs from the generated keys {names}: unmatched columns are silently all-NaN")
            r1.require(len(names) == len(set(names)) == 12, f"{fi.key}|12-distinct-segments", fi.where(), f"{fi.key}: expected 12 distinct segments, found {len(names)} ({len(set(names))} distinct)")
        # one_month
        for m in range(1, 13):
            full = [n for n in n1 if W1[n][m] == 1.0]
            other = [n for n in n1 if W1[n][m] not in (0.0, 1.0)]
            ok = len(full) == 1 and not other and full[0] == ABBR[m - 1]
            r1.require(ok, f"{f1.key}|month:{m}", f1.where(), f"one_month: month {m} must have weight 1 in exactly the segment `{ABBR[m-1]}`; found full={full} other={other}",
                       sample={"table": "one_month", "month": m, "weights": {n: W1[n][m] for n in n1 if W1[n][m]}})
        # three_month
        for m in range(1, 13):
            segs = [n for n in n3 if W3[n][m] == 1.0]
            bad = [n for n in n3 if W3[n][m] not in (0.0, 1.0)]
            r1.require(len(segs) == 3 and not bad, f"{f3.key}|month:{m}", f3.where(), f"three_month: month {m} must lie in exactly 3 windows; found {segs} {bad}")
        for n in n3:
            ms = _months_of_name(n)
            got = sorted(m for m in range(1, 13) if W3[n][m] == 1.0)
            cyc = ms is not None and len(ms) == 3 and ms[1] == ms[0] % 12 + 1 and ms[2] == ms[1] % 12 + 1
            r1.require(cyc and sorted(ms) == got, f"{f3.key}|window:{n}", f3.where(), f"three_month: window `{n}` covers months {got}, its name says {ms} (must be three cyclically consecutive months)")
        # weighted
        centre: Dict[str, int] = {}
        for n in nw:
            full = [m for m in range(1, 13) if Ww[n][m] == 1.0]
            half = sorted(m for m in range(1, 13) if Ww[n][m] == 0.5)
            other = [m for m in range(1, 13) if Ww[n][m] not in (0.0, 0.5, 1.0)]
            ms = _months_of_name(n)
            ok = len(full) == 1 and not other and ms is not None and len(ms) == 3 and n.endswith("-weighted")
            if ok:
                c = full[0]
                centre[n] = c
                ok = ms[1] == c and ms[0] == (c - 2) % 12 + 1 and ms[2] == c % 12 + 1 and half == sorted([ms[0], ms[2]])
            r1.require(ok, f"{fw.key}|window:{n}", fw.where(),
                       f"three_month_weighted: window `{n}` must weigh its centre month 1 and the two neighbouring months 0.5; found full={full} half={half} other={other}",
                       sample={"table": "three_month_weighted", "window": n, "weights": {m: Ww[n][m] for m in range(1, 13) if Ww[n][m]}})
        for m in range(1, 13):
            full = [n for n in nw if Ww[n][m] == 1.0]
            half = [n for n in nw if Ww[n][m] == 0.5]
            nb = {(m - 2) % 12 + 1, m % 12 + 1}
            ok = len(full) == 1 and len(half) == 2 and centre.get(full[0]) == m and {centre.get(h) for h in half} == nb \
                and all(Ww[n][m] in (0.0, 0.5, 1.0) for n in nw)
            r1.require(ok, f"{fw.key}|month:{m}", fw.where(),
                       f"three_month_weighted: month {m} must carry full weight in exactly its own window and half weight in exactly its two neighbours' windows; found full={full} half={half}")
    # dispatch
    sts = chk.repo.func(SEG, "segment_time_series")
    disp = None
    for n in walk_no_nested(sts.node):
        if isinstance(n, ast.Dict) and all(const_str(k) is not None for k in n.keys) and len(n.keys) >= 3:
            disp = {const_str(k): unparse(v) for k, v in zip(n.keys, n.values)}
    want = {"single": "_segment_weights_single", "one_month": "_segment_weights_one_month", "three_month": "_segment_weights_three_month",
            "three_month_weighted": "_segment_weights_three_month_weighted"}
    r1.require(disp == want, f"{sts.key}|dispatch", sts.where(), f"segment_time_series dispatch {disp} != {want}")
    raises = [n for n in walk_no_nested(sts.node) if isinstance(n, ast.Raise)]
    r1.require(bool(raises), f"{sts.key}|invalid-type-raises", sts.where(), "segment_time_series no longer rejects an unknown segment type")
    single = chk.repo.func(SEG, "_segment_weights_single")
    r1.require("1.0" in unparse(single.node) or "{'all': 1}" in unparse(single.node), f"{single.key}|all-ones", single.where(), "single segmentation must weigh every hour 1.0")

    # ------------------------------------------------------------------ R18.2
    psi = chk.repo.cls(MODEL, "_PredictionSegmentInfo")
    init = psi.methods.get("__init__")
    if init is None:
        raise AnalysisError("_PredictionSegmentInfo.__init__ vanished")
    # the constructor is interpreted for the weighted segmentation: the mapping and the prediction type are read off the object,
    # however they are spelled (a literal dict, dict(zip(...)) of two tables, named constants)
    from engine.absint import AbsObj as _AO, ModuleEnv as _ME
    from engine.pyinterp import Function as _Fn, Interp as _In, InterpRaised as _IR
    mapping = None
    ptype_found = None
    try:
        _it = _In(step_limit=50_000)
        _me = _AO({psi.name})
        _Fn(init.node, _ME(chk.repo, init.module, _it, {}), _it)(_me, "three_month_weighted")
        mapping = _me.__dict__.get("prediction_segment_name_mapping")
        ptype_found = _me.__dict__.get("prediction_segment_type")
        if not isinstance(mapping, dict) or not all(isinstance(k_, str) and isinstance(v_, str) for k_, v_ in mapping.items()):
            mapping = None
    except _IR as e:
        r2.require(False, f"{init.key}|mapping-literal", init.where(), f"_PredictionSegmentInfo('three_month_weighted') raises {e.exc_name}")
    except Unsupported as e:
        raise AnalysisError(f"{init.key}: uses an operation outside the modelled subset: {e}")
    if mapping is None:
        r2.require(False, f"{init.key}|mapping-literal", init.where(), "cannot establish the month -> fitted-window mapping (the constructor does not leave a dict of names)")
    elif n1 is not None:
        r2.require(sorted(mapping) == sorted(ABBR), f"{init.key}|mapping-keys", init.where(), f"prediction mapping keys {sorted(mapping)} are not the 12 one_month segment names")
        for mon, win in mapping.items():
            m = ABBR.index(mon) + 1 if mon in ABBR else None
            ok = win in Ww and m is not None and Ww[win][m] == 1.0
            r2.require(ok, f"{init.key}|route:{mon}", init.where(),
                       f"hours of `{mon}` are predicted by `{win}`, which is not the window centred on that month (weight {Ww.get(win, {}).get(m)})",
                       sample={"month": mon, "predicted_by": win, "weight_of_month_in_window": Ww.get(win, {}).get(m)})
        # prediction type one_month in the weighted branch
        r2.require(ptype_found == "one_month", f"{init.key}|prediction-type", init.where(), f"three_month_weighted models must predict with one_month segments; found {ptype_found!r}")
    sm = chk.repo.cls(SEG, "SegmentedModel")
    sinit, spred = sm.methods.get("__init__"), sm.methods.get("predict")
    if sinit is None or spred is None:
        raise AnalysisError("SegmentedModel.__init__/predict vanished")
    if mapping is not None and n1 is not None:
        _check_segmented_predict(chk, r2, sm, sinit, spred, mapping, n1, W1)

    # ------------------------------------------------------------------ R18.3
    ctf = chk.repo.func(FEAT, "compute_time_features")
    defs = {}
    for s in walk_no_nested(ctf.node):
        if isinstance(s, ast.Assign) and isinstance(s.targets[0], ast.Name):
            defs.setdefault(s.targets[0].id, []).append(s.value)
    how = None
    for name, vals in defs.items():
        for v in vals:
            if isinstance(v, ast.Call) and isinstance(v.func, ast.Attribute) and v.func.attr == "rename" and v.args and const_str(v.args[0]) == "hour_of_week":
                how = v.func.value
    ok = False
    if how is not None:
        def source(e):
            if isinstance(e, ast.Name) and e.id in defs:
                v = defs[e.id][0]
                if isinstance(v, ast.Call) and unparse(v.func) == "pd.Series" and v.args:
                    return unparse(v.args[0])
            return unparse(e)
        import sympy
        d, h = sympy.symbols("d h")
        def tosym(e):
            if isinstance(e, ast.BinOp):
                l, r = tosym(e.left), tosym(e.right)
                return {ast.Add: l + r, ast.Mult: l * r, ast.Sub: l - r}.get(type(e.op), None) if l is not None and r is not None else None
            if isinstance(e, ast.Constant) and isinstance(e.value, (int, float)):
                return sympy.Integer(e.value) if isinstance(e.value, int) else sympy.Float(e.value)
            s = source(e)
            if s == "index.dayofweek" or s == "index.weekday":
                return d
            if s == "index.hour":
                return h
            return None
        sy = tosym(how)
        ok = sy is not None and sympy.simplify(sy - (24 * d + h)) == 0
    r3.require(ok, f"{ctf.key}|hour_of_week", ctf.where(), f"hour_of_week must equal 24*dayofweek + hour; found `{unparse(how) if how is not None else None}`")
    gm = chk.repo.func(FEAT, "get_missing_hours_of_week_warning")
    r3.require("set(range(168))" in unparse(gm.node), f"{gm.key}|universe", gm.where(), "the hour-of-week universe must be range(168)")

    # ------------------------------------------------------------------ R18.4
    shapes = {}
    for fname in ("caltrack_hourly_fit_feature_processor", "caltrack_hourly_prediction_feature_processor"):
        fi = chk.repo.func(MODEL, fname)
        zero = {}
        for s in walk_no_nested(fi.node):
            if isinstance(s, ast.Assign) and len(s.targets) == 1 and isinstance(s.targets[0], ast.Subscript) and isinstance(s.targets[0].slice, ast.Compare) \
                    and isinstance(s.value, ast.Constant) and s.value.value == 0:
                t = s.targets[0]
                cmpx = t.slice
                zero[unparse(t.value)] = (unparse(cmpx.left), type(cmpx.ops[0]).__name__, unparse(cmpx.comparators[0]))
        occ = [v for k, v in zero.items() if k.startswith("occupied")]
        uno = [v for k, v in zero.items() if k.startswith("unoccupied")]
        ok = len(occ) == 1 and len(uno) == 1 and occ[0][0] == uno[0][0] and occ[0][1] == uno[0][1] == "Eq" and {occ[0][2], uno[0][2]} == {"0", "1"} and occ[0][2] == "0"
        r4.require(ok, f"{fi.key}|complementary-masks", fi.where(),
                   f"{fname}: occupied features must be zeroed where occupancy == 0 and unoccupied where occupancy == 1 (same series); found {zero}")
        # the occupancy series comes from compute_occupancy_feature(hour_of_week, occupancy_lookup[segment_name])
        src_ok = any(unparse(c.func) == "compute_occupancy_feature" for c in calls_in(fi.node)) and "occupancy_lookup[segment_name]" in unparse(fi.node)
        r4.require(src_ok, f"{fi.key}|occupancy-source", fi.where(), f"{fname}: occupancy must be looked up for the segment's own name by hour of week")
        shapes[fname] = zero
        # both bin feature sets derive from the same temperature series
        bins_calls = [unparse(c.args[0]) for c in calls_in(fi.node) if unparse(c.func) == "compute_temperature_bin_features" and c.args]
        r4.require(len(bins_calls) == 2 and len(set(bins_calls)) == 1, f"{fi.key}|same-temperature", fi.where(), f"{fname}: occupied/unoccupied bin features use different temperature inputs {bins_calls}")
    r4.require(len(set(map(lambda z: tuple(sorted(z.items())), shapes.values()))) == 1, "siblings|fit~prediction feature processors", chk.repo.func(MODEL, "caltrack_hourly_prediction_feature_processor").where(),
               f"fit and prediction feature processors mask occupancy differently: {shapes}")

    # ------------------------------------------------------------------ R18.5
    cb = chk.repo.func(FEAT, "compute_temperature_bin_features")
    cand = [30.0, 45.0, 60.5, 75.0]
    temps = [-40.0, 29.0, 30.0, 30.5, 44.9, 45.0, 52.0, 60.5, 61.0, 75.0, 75.25, 120.0, 0.0, float("nan")]
    n_ok = 0
    fail = None
    try:
        for k in range(len(cand) + 1):
            for sub in itertools.combinations(cand, k):
                for T in temps:
                    it = Interp(step_limit=20_000)
                    try:
                        out = Function(cb.node, ModuleEnv(chk.repo, cb.module, it, {"np": NPRow(), "numpy": NPRow(), "pd": PDRow(), "pandas": PDRow()}), it)(Ser(T), list(sub))
                    except InterpRaised as e:
                        out = f"raises {e.exc_name}"
                    if not isinstance(out, dict) or len(out) != len(sub) + 1:
                        fail = (sub, T, f"expected {len(sub)+1} bins, got {out!r}")
                        break
                    ends = [-math.inf] + list(sub) + [math.inf]
                    vals = []
                    for i in range(len(sub) + 1):
                        v = out.get(f"bin_{i}")
                        if not isinstance(v, Ser):
                            fail = (sub, T, f"bin_{i} missing")
                            break
                        vals.append(v.v)
                        l, r = ends[i], ends[i + 1]
                        if math.isnan(T):
                            exp = math.nan
                        elif i == 0:
                            exp = min(T, r)
                        else:
                            exp = min(max(T, l), r) - l
                        same = (v.v is not ABSENT) and ((math.isnan(exp) and isinstance(v.v, float) and math.isnan(v.v)) or (not math.isnan(exp) and abs(v.v - exp) < 1e-9))
                        if not same:
                            fail = (sub, T, f"bin_{i} = {v.v}, expected {exp} (bin ({l}, {r}])")
                            break
                    if fail:
                        break
                    if not math.isnan(T) and abs(sum(vals) - T) > 1e-9:
                        fail = (sub, T, f"bins sum to {sum(vals)}, not to T")
                        break
                    n_ok += 1
                    r5.inst(f"{cb.key}|endpoints={list(sub)}|T={T}", {"endpoints": list(sub), "T": T, "bins": [None if (isinstance(x, float) and math.isnan(x)) else x for x in vals]})
                if fail:
                    break
            if fail:
                break
    except Unsupported as e:
        raise AnalysisError(f"{cb.key}: cannot establish the bin-feature table: construct outside the one-row abstraction: {e}")
    if fail:
        r5.violate(f"{cb.key}|bin-table", cb.where(), f"compute_temperature_bin_features: endpoints={list(fail[0])} T={fail[1]}: {fail[2]}", {"endpoints": list(fail[0]), "T": fail[1]})
    _check_weights_on_callers_index(chk)


def _check_weights_on_callers_index(chk):
    """R18.6: segment_time_series is interpreted with the weight builders as recorders: they must be given the caller's index itself
    (its months are the local calendar months of the hours), and the frame handed back must be the one they built."""
    from engine.absint import Opaque
    from engine.pyinterp import Stub, StubCall
    r6 = chk.rule("R18.6", "month weights are built from the caller's own index (local calendar months), for every segment type, time-zone-aware or not, with and without dropping empty segments", 16)
    st = chk.repo.func(SEG, "segment_time_series")
    builders = {"single": "_segment_weights_single", "one_month": "_segment_weights_one_month", "three_month": "_segment_weights_three_month",
                "three_month_weighted": "_segment_weights_three_month_weighted"}

    class IndexTok(Stub):
        def __init__(self, aware, ops=()):
            self.aware, self.ops = aware, tuple(ops)
            self.tz = Opaque("tz") if aware else None
            self.tzinfo = self.tz

        def __getattr__(self, name):
            if name.startswith("_"):
                raise AttributeError(name)

            def op(*a, **k):
                return IndexTok(self.aware, self.ops + (f"{name}({', '.join(map(repr, a))})",))
            return op

    class Totals(Stub):
        def __init__(self, cols): self.cols = list(cols)
        def __gt__(self, o): return self
        def __getitem__(self, k): return self
        @property
        def index(self): return self
        def tolist(self): return list(self.cols)
        to_list = tolist

    class WFrame(Stub):
        _settable = True

        def __init__(self, builder, on, cols=("a", "b")):
            self.builder, self.on, self.cols = builder, on, list(cols)
            self.index = on

        def sum(self, *a, **k): return Totals(self.cols)

        def __getitem__(self, k):
            if isinstance(k, list):
                w = WFrame(self.builder, self.on, k)
                w.index = self.index
                return w
            raise Unsupported("weights[...] with a key that is not a column list")

        @property
        def columns(self): return list(self.cols)

        def loc(self): raise Unsupported("weights.loc")

    for seg_type, bname in builders.items():
        for aware in (True, False):
            for drop in (False, True):
                calls = []

                def mk(b):
                    return StubCall(lambda ix, *a, **k: (calls.append((b, ix)), WFrame(b, ix))[1])
                stand = {n: mk(n) for n in builders.values()}
                stand["_get_hourly_coverage_warning"] = StubCall(lambda *a, **k: None)
                stand["_get_calendar_year_coverage_warning"] = StubCall(lambda *a, **k: None)
                it = Interp(step_limit=20_000)
                caller = IndexTok(aware)
                key = f"{st.key}|{seg_type}|{'tz-aware' if aware else 'naive'}|drop_empty={drop}"
                try:
                    res = Function(st.node, ModuleEnv(chk.repo, st.module, it, stand), it)(caller, seg_type, drop)
                except InterpRaised as e:
                    r6.require(False, key, st.where(), f"segment_time_series raises {e.exc_name} for segment type `{seg_type}`")
                    continue
                except Unsupported as e:
                    raise AnalysisError(f"{st.key}: uses an operation outside the modelled subset: {e}")
                bad = None
                if [b for b, ix in calls] != [bname]:
                    bad = f"segment type `{seg_type}` must be built by {bname} (called: {[b for b, ix in calls]})"
                elif calls[0][1] is not caller:
                    ix = calls[0][1]
                    bad = (f"the weights are built on `index.{'.'.join(ix.ops)}`, not on the caller's index: the month of an hour is then not its local calendar month "
                           f"(hours within the UTC offset of a month boundary are weighted into, and predicted by, the neighbouring month's model)") if isinstance(ix, IndexTok) else "the weights are not built on the caller's index"
                elif not isinstance(res, WFrame) or res.builder != bname:
                    bad = "the frame handed back is not the one the weight builder made"
                elif res.index is not caller:
                    bad = "the weights' index is replaced by something other than the caller's index"
                r6.require(bad is None, key, st.where(), f"segment_time_series: {bad}", sample={"segment_type": seg_type, "tz_aware": aware, "drop_empty": drop})
