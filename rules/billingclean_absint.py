"""clean_billing_data (off-cycle rule, CalTRACK 2.2.3.4 / 2.2.3.5) interpreted under the one-row abstraction (engine/rowabs.py).

The generic row is an interior billing period of `d` days: the forward difference of the read dates is d on that row.  For every d on each
side of the published limits and both billing granularities the outcome says whether the period's usage is still there (or blanked) and
whether the off-cycle warning fired.  How the limits are spelled (literals, a lookup table, named masks, one block or two) does not
matter; a changed operator or constant changes the outcome table."""
from __future__ import annotations

import math
from typing import Any, Dict, List

from engine.absint import ModuleEnv
from engine.index import AnalysisError
from engine.pyinterp import Function, Interp, InterpRaised, Stub, StubCall, Unsupported
from engine.rowabs import ABSENT, Idx, NPRow, PDRow, RowFrame, Ser
from rules.kinds import DPU

DAYS = [1, 24, 25, 26, 30, 34, 35, 36, 60, 69, 70, 71, 120]
VALUE = 300.0


class _RowVal(Stub):
    """The generic row's entry of a per-row list (list(index_diff.days))."""

    def __init__(self, v):
        self.v = v

    def _ar(self, o, f):
        if isinstance(o, _RowVal):
            o = o.v
        if not isinstance(o, (int, float)) or isinstance(o, bool):
            raise Unsupported("arithmetic between a period length and " + type(o).__name__)
        return _RowVal(f(self.v, o))

    def __truediv__(self, o): return self._ar(o, lambda a, b: a / b)
    def __floordiv__(self, o): return self._ar(o, lambda a, b: a // b)
    def __mul__(self, o): return self._ar(o, lambda a, b: a * b)
    __rmul__ = __mul__
    def __add__(self, o): return self._ar(o, lambda a, b: a + b)
    __radd__ = __add__
    def __sub__(self, o): return self._ar(o, lambda a, b: a - b)
    def __round__(self, n=None): return _RowVal(round(self.v, n) if n is not None else round(self.v))
    def __int__(self): return int(self.v)
    def __float__(self): return float(self.v)


class _Days(Stub):
    def __init__(self, d):
        self.d = d

    def __iter__(self):
        return iter([_RowVal(self.d)])

    def _abs_len(self):
        return 1

    def tolist(self):
        return [_RowVal(self.d)]

    to_list = tolist


SHIFT = {"autumn": 3600.0, "spring": -3600.0, "wall": 0.0}


class _IdxDiff(Stub):
    """Difference of consecutive read dates.  Read dates are local midnights: a period of d calendar days that contains the autumn clock change
    lasts d days and one hour (`.days` = d), one that contains the spring change d days less one hour (`.days` = d - 1); differences of
    wall-clock (tz-naive) stamps are exactly d days."""

    def __init__(self, d, span="autumn"):
        self.d, self.span = d, span
        self.days = _Days(d - 1 if span == "spring" else d)

    def total_seconds(self):
        return _Days(self.d * 86400.0 + SHIFT[self.span])

    def __truediv__(self, o):
        raise Unsupported("division of index differences (use .days or total_seconds())")


class _BIdx(Idx):
    """Index of billing read dates: consecutive differences are the period lengths (d days on the generic row)."""

    def __init__(self, present, d, span="autumn"):
        super().__init__(present)
        self.d, self.span = d, span

    def __getitem__(self, k):
        if isinstance(k, slice):
            return _BSlice(self, k)
        r = super().__getitem__(k)
        return _BIdx(r.present, self.d, self.span)

    # wall-clock views of the read dates: differences are whole calendar days
    def tz_localize(self, tz=None, *a, **k):
        if tz is not None:
            raise Unsupported("tz_localize(<zone>) on the read dates")
        return _BIdx(self.present, self.d, "wall")

    def normalize(self):
        return _BIdx(self.present, self.d, self.span)

    @property
    def tz(self):
        from engine.absint import Opaque
        return Opaque("tz")


class _BSlice(Stub):
    def __init__(self, idx, sl):
        self.idx, self.sl = idx, sl

    def __sub__(self, o):
        if isinstance(o, _BSlice) and (self.sl.start, self.sl.stop) == (1, None) and (o.sl.start, o.sl.stop) == (None, -1):
            if self.idx.span != o.idx.span:
                raise Unsupported("difference of read dates in different clocks")
            return _IdxDiff(self.idx.d, self.idx.span)          # index[1:] - index[:-1]: forward differences
        raise Unsupported("index slice arithmetic other than index[1:] - index[:-1]")


class _BFrame(RowFrame):
    def __init__(self, cols, present=True, d=30, span="autumn"):
        super().__init__(cols, present)
        self.__dict__["_d"] = d
        self.__dict__["_span"] = span

    @property
    def index(self):
        return _BIdx(self._present, self.__dict__["_d"], self.__dict__["_span"])

    @property
    def empty(self):
        return False     # a whole-frame question: the other billing periods are there whatever happens to the generic one

    def _wrap(self, fr):
        if isinstance(fr, RowFrame) and not isinstance(fr, _BFrame):
            return _BFrame(fr._cols, fr._present, self.__dict__["_d"], self.__dict__["_span"])
        return fr

    def __getitem__(self, k):
        if isinstance(k, slice):
            if (k.start, k.stop, k.step) == (None, 0, None):
                return _BFrame(self._cols, False, self.__dict__["_d"], self.__dict__["_span"])      # data[:0]: the empty frame
            if (k.start, k.stop, k.step) == (None, -1, None):
                return _BFrame(self._cols, self._present, self.__dict__["_d"], self.__dict__["_span"])   # all but the open last period: the generic row is interior
            raise Unsupported("frame slice other than [:0] / [:-1]")
        return self._wrap(super().__getitem__(k))

    def copy(self, deep=True):
        return self._wrap(super().copy())

    def reindex(self, index=None, **k):
        return self._wrap(super().reindex(index, **k))

    def dropna(self, **k):
        return self._wrap(super().dropna(**k))


class _PD(PDRow):
    @staticmethod
    def Series(data=None, index=None, **k):
        if isinstance(data, list) and any(isinstance(x, _RowVal) for x in data) and isinstance(index, Idx) and not k:
            # forward differences aligned on the period's *start*: the per-row entries first, the open last period's NaN after them;
            # any other arrangement shifts every length onto a neighbouring period (shown here as an impossible length)
            ok = isinstance(data[0], _RowVal) and isinstance(data[-1], float) and math.isnan(data[-1])
            v = data[0].v if ok else -1
            return Ser(v if index.present else ABSENT)
        return PDRow.Series(data, index, **k)

    @staticmethod
    def isnull(x):
        return isinstance(x, float) and math.isnan(x)


def outcomes(chk) -> List[Dict[str, Any]]:
    fi = chk.repo.func(DPU, "clean_billing_data")
    out = []
    for iv, span, d in [(iv_, sp_, d_) for iv_ in ("billing_monthly", "billing_bimonthly") for sp_ in ("autumn", "spring") for d_ in DAYS]:
        if True:
            warned: List[Any] = []
            it = Interp(step_limit=50_000)
            env = ModuleEnv(chk.repo, fi.module, it, {"np": NPRow(), "numpy": NPRow(), "pd": _PD(), "pandas": _PD(),
                                                      "EEMeterWarning": StubCall(lambda **k: k.get("qualified_name")),
                                                      # trusted summary (its definition is decided by C10 R10.6): elapsed time to the next read in days, a float
                                                      "day_counts": StubCall(lambda ix, *a, **k: Ser((ix.d * 86400.0 + SHIFT[ix.span]) / 86400.0 if getattr(ix, "present", True) else ABSENT)
                                                      if isinstance(ix, _BIdx) else (_ for _ in ()).throw(Unsupported("day_counts of something that is not the frame's index")))})
            try:
                res = Function(fi.node, env, it)(_BFrame({"value": VALUE}, True, d, span), iv, warned)
            except InterpRaised as e:
                out.append({"interval": iv, "days": d, "span": span, "raises": e.exc_name})
                continue
            except Unsupported as e:
                raise AnalysisError(f"{fi.key}: uses an operation outside the one-row abstraction: {e}")
            if isinstance(res, Ser):
                res = RowFrame({"value": res.v if res.v is not ABSENT else float("nan")}, res.v is not ABSENT)
            if not isinstance(res, RowFrame):
                out.append({"interval": iv, "days": d, "span": span, "returns": repr(res)[:60]})
                continue
            ds = res.describe()
            v = ds["values"].get("value")
            out.append({"interval": iv, "days": d, "span": span, "present": ds["present"], "kept": bool(ds["present"] and v == VALUE), "value": v, "warned": list(warned)})
    return out
