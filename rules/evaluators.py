"""Abstract interpretation of the two daily curve evaluators — DailyModel._predict_submodel (stored model) and
OptimizedResult.eval (fitted component) — shared by C11/R11.3 (load decomposition), C01/R01.6 (sibling evaluators) and
C12/R12.4 (which temperature limits are read).

Both are interpreted from their AST with the numeric helpers replaced by recording stand-ins: get_full_model_x, get_smooth_coeffs
and full_model return tokens that remember the arguments they were given, arrays are terms, `zeros_like(...)[idx] = ...` records
the store.  The result is a description of *which value is passed in which role*, independent of local names, helper functions or
statement order, judged against the obligations and compared between the two siblings."""
from __future__ import annotations

from typing import Any, Dict, List, Tuple

from engine.absint import AbsObj, BoundRepoMethods, ModuleEnv, Term
from engine.index import AnalysisError, FuncInfo
from engine.pyinterp import Function, Interp, InterpRaised, Stub, Unsupported

KEYS = {"hdd_tidd_cdd_smooth": 7, "hdd_tidd_cdd": 5, "c_hdd_tidd_smooth": 4, "c_hdd_tidd": 3, "tidd": 1}


class Tok(Term):
    """A term with comparisons (a comparison of arrays is again an array-valued term)."""

    def __le__(self, o): return Tok("le", self, o)
    def __ge__(self, o): return Tok("ge", self, o)
    def __lt__(self, o): return Tok("lt", self, o)
    def __gt__(self, o): return Tok("gt", self, o)
    def __sub__(self, o): return Tok("sub", self, o)
    def __mul__(self, o): return Tok("mul", self, o)
    __rmul__ = __mul__
    __hash__ = Term.__hash__

    def __eq__(self, o):
        return isinstance(o, Term) and o.key() == self.key()

    def __getitem__(self, k):
        if isinstance(k, Term):
            return Tok("take", self, k)
        if isinstance(k, int):
            return Tok("item", self, k)
        raise Unsupported("array[...] with " + type(k).__name__)

    def astype(self, *a, **k):
        return self

    def flatten(self, *a, **k):
        return self

    ravel = squeeze = flatten

    def reshape(self, *a, **k):
        if a in ((-1,), ((-1,),)) and not k:
            return self
        raise Unsupported("reshape other than reshape(-1)")

    @property
    def dtype(self):
        return FLOAT


FLOAT = float


class Vec(Tok):
    """The stored coefficient vector: a NumPy array the evaluator may index with position lists and store into; a vector that was
    written to is no longer `X` (its key lists the stores), so whatever it is handed to afterwards is seen to get something else."""

    def __init__(self, name: str):
        super().__init__(name)
        self.stores: List[Tuple[int, str]] = []

    def key(self) -> str:
        return self.op if not self.stores else f"{self.op}{{{', '.join(f'{i}:={v}' for i, v in self.stores)}}}"

    def _cell(self, i: int):
        for j, v in reversed(self.stores):
            if j == i:
                return Tok(v)
        return Tok("item", Tok(self.op), i)

    def __getitem__(self, k):
        if isinstance(k, (list, tuple)) and all(isinstance(i, int) for i in k):
            return [self._cell(i) for i in k]
        if isinstance(k, int):
            return self._cell(k)
        return Tok.__getitem__(self, k)

    def __setitem__(self, k, v):
        if isinstance(k, int):
            k, v = [k], [v]
        if not (isinstance(k, (list, tuple)) and all(isinstance(i, int) for i in k)) or not isinstance(v, (list, tuple)) or len(v) != len(k):
            raise Unsupported("store into the coefficient vector other than positions := values")
        for i, x in zip(k, v):
            self.stores.append((i, _k(x)))

    def copy(self):
        c = Vec(self.op)
        c.stores = list(self.stores)
        return c

    __hash__ = Term.__hash__

    def __eq__(self, o):
        return isinstance(o, Term) and o.key() == self.key()


class ZArr(Stub):
    def __init__(self, like: Term):
        self.like = like
        self.stores: List[Tuple[str, str]] = []

    def __setitem__(self, k, v):
        if not isinstance(k, Term) or not isinstance(v, Term):
            raise Unsupported("store into a zero array with non-symbolic index/value")
        self.stores.append((k.key(), v.key()))

    def key(self):
        # every array of the evaluator has the shape of the temperatures: what the zeros are shaped like does not matter
        return f"zeros{self.stores}"


class Rec:
    def __init__(self):
        self.gx: List[Tuple] = []
        self.sm: List[Tuple] = []
        self.fm: List[Tuple] = []


def _k(x) -> str:
    if isinstance(x, Term):
        return x.key()
    if isinstance(x, ZArr):
        return x.key()
    if isinstance(x, (list, tuple)):
        return "[" + ", ".join(_k(e) for e in x) + "]"
    return repr(x)


class NPe(Stub):
    float64 = float

    @staticmethod
    def array(x):
        return list(x) if isinstance(x, (list, tuple)) else x

    @staticmethod
    def ones_like(x):
        return Tok("ones_like", x)

    @staticmethod
    def zeros_like(x):
        return ZArr(x)

    @staticmethod
    def argwhere(m):
        # positions of the true cells and the boolean mask itself select the same cells of a 1-d array: both are the mask term
        if not isinstance(m, Term):
            raise Unsupported("np.argwhere of a non-symbolic mask")
        return m

    @staticmethod
    def where(m, *ab):
        if not isinstance(m, Term):
            raise Unsupported("np.where of a non-symbolic mask")
        if not ab:
            return (m,)
        if len(ab) != 2:
            raise Unsupported("np.where with two arguments")
        a, b = ab
        # np.where(mask, values, zeros) is the zero array with values[mask] stored at mask
        if isinstance(b, ZArr) or (isinstance(b, (int, float)) and not isinstance(b, bool) and b == 0):
            if not isinstance(a, Term):
                raise Unsupported("np.where(mask, <non-symbolic values>, zeros)")
            z = ZArr(b.like if isinstance(b, ZArr) else a)
            z.stores = (list(b.stores) if isinstance(b, ZArr) else []) + [(m.key(), Tok("take", a, m).key())]
            return z
        raise Unsupported("np.where(mask, a, b) with b other than zeros")

    @staticmethod
    def flatnonzero(m):
        return m

    @staticmethod
    def nonzero(m):
        return (m,)


def _stand_ins(rec: Rec) -> Dict[str, Any]:
    from engine.pyinterp import StubCall

    def gx(model_key, x, T_min, T_max, T_min_seg, T_max_seg):
        rec.gx.append((model_key, _k(x), _k(T_min), _k(T_max), _k(T_min_seg), _k(T_max_seg)))
        return [Tok(f"fx{i}") for i in range(7)]

    def sm(hbp, pk, cbp, pck):
        rec.sm.append((_k(hbp), _k(pk), _k(cbp), _k(pck)))
        return [Tok(f"sm{i}") for i in range(4)]

    def fm(*a):
        rec.fm.append(tuple(_k(x) for x in a))
        return Tok("MODEL")
    return {"np": NPe(), "numpy": NPe(), "get_full_model_x": StubCall(gx), "get_smooth_coeffs": StubCall(sm), "full_model": StubCall(fm)}


def interpret_evaluator(chk, fi: FuncInfo, kind: str, model_key: str) -> Dict[str, Any]:
    rec = Rec()
    it = Interp(step_limit=50_000)
    env = ModuleEnv(chk.repo, fi.module, it, _stand_ins(rec))
    lim = {k: Tok(k) for k in ("T_min", "T_max", "T_min_seg", "T_max_seg")}
    X = Vec("X")
    T = Tok("T")
    if kind == "stored":
        coefficients = AbsObj({"ModelCoefficients"}, model_key=model_key)
        coefficients.to_np_array = lambda: X
        sub = AbsObj({"DailySubmodelParameters"}, coefficients=coefficients, temperature_constraints=dict(lim), f_unc=Tok("F_UNC"))
        me = AbsObj({"DailyModel"})
        args = (me, sub, T)
    else:
        me = AbsObj({"OptimizedResult"}, model_key=model_key, x=X, f_unc=Tok("F_UNC"), **lim)
        args = (me, T)
    try:
        res = Function(fi.node, env, it)(*args)
    except InterpRaised as e:
        return {"raises": e.exc_name}
    from engine.pyinterp import Record
    if isinstance(res, Record) and len(list(res._values())) == 4:
        res = tuple(res._values())     # a NamedTuple / record of the four arrays unpacks like the plain tuple
    if not (isinstance(res, tuple) and len(res) == 4):
        return {"returns": repr(res)[:80]}
    return {"model": _k(res[0]), "f_unc": _k(res[1]), "hdd_load": _k(res[2]), "cdd_load": _k(res[3]), "get_full_model_x": rec.gx, "get_smooth_coeffs": rec.sm, "full_model": rec.fm}


def judge(o: Dict[str, Any], model_key: str) -> List[Tuple[str, str]]:
    bad: List[Tuple[str, str]] = []
    if "model" not in o:
        return [("shape", f"the evaluator does not return (model, f_unc, hdd_load, cdd_load): {o}")]
    if o["get_full_model_x"] != [(model_key, "X", "T_min", "T_max", "T_min_seg", "T_max_seg")]:
        bad.append(("limits", f"get_full_model_x must be called once as (model_key, x, T_min, T_max, T_min_seg, T_max_seg) with the component's own values; found {o['get_full_model_x']}"))
    smooth = model_key == "hdd_tidd_cdd_smooth"
    if smooth:
        if o["get_smooth_coeffs"] != [("fx0", "fx2", "fx3", "fx5")]:
            bad.append(("order", f"the smoothing fractions must be converted with get_smooth_coeffs(hdd_bp, pct_hdd_k, cdd_bp, pct_cdd_k) = positions 0, 2, 3, 5 of the expanded vector; found {o['get_smooth_coeffs']}"))
        vec = ["sm0", "fx1", "sm1", "sm2", "fx4", "sm3", "fx6"]
    else:
        if o["get_smooth_coeffs"]:
            bad.append(("order", f"get_smooth_coeffs is applied to a `{model_key}` model (its k entries are not fractions)"))
        vec = [f"fx{i}" for i in range(7)]
    if len(o["full_model"]) != 1:
        bad.append(("kernel-gets-x", f"the kernel must be called exactly once; called {len(o['full_model'])} times"))
        return bad
    fm = list(o["full_model"][0])
    if fm[:7] != vec:
        bad.append(("kernel-gets-x", f"the kernel must be called with the vector x ({'after smoothing' if smooth else 'as expanded'}) in kernel order {vec}; found {fm[:7]}"))
    if fm[7:] != ["[T_min, T_max]", "T"]:
        bad.append(("kernel-gets-x", f"the kernel must be given the fit range [T_min, T_max] and the temperatures; found {fm[7:]}"))
    if o["model"] != "MODEL":
        bad.append(("kernel-gets-x", f"the returned model values are `{o['model']}`, not the kernel's result"))
    if o["f_unc"] not in ("mul(ones_like(MODEL), F_UNC)", "mul(F_UNC, ones_like(MODEL))"):
        bad.append(("f_unc", f"the uncertainty must be the component's f_unc for every temperature; found {o['f_unc']}"))
    bp_h, bp_c, c0 = fm[0], fm[3], fm[6]
    lo = f"sub(MODEL, {c0})"
    want_h = f"zeros[('le(T, {bp_h})', 'take({lo}, le(T, {bp_h}))')]"
    want_c = f"zeros[('ge(T, {bp_c})', 'take({lo}, ge(T, {bp_c}))')]"
    if o["hdd_load"] != want_h:
        bad.append(("loads", f"heating load must be (model - intercept) where T <= hdd_bp and zero elsewhere, with hdd_bp and intercept the entries 0 and 6 of the vector handed to the kernel; found {o['hdd_load']} (expected {want_h})"))
    if o["cdd_load"] != want_c:
        bad.append(("loads", f"cooling load must be (model - intercept) where T >= cdd_bp and zero elsewhere, with cdd_bp and intercept the entries 3 and 6 of the vector handed to the kernel; found {o['cdd_load']} (expected {want_c})"))
    return bad


def evaluator_outcomes(chk, fi: FuncInfo, kind: str) -> Dict[str, Dict[str, Any]]:
    out = {}
    for mk in KEYS:
        try:
            out[mk] = interpret_evaluator(chk, fi, kind, mk)
        except Unsupported as e:
            raise AnalysisError(f"{fi.key}: uses an operation outside the modelled subset (model_key={mk}): {e}")
    return out
