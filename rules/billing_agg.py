"""Abstract interpretation of BillingModel.predict / BillingWeightedModel.predict (shared by C19, C07/R07.4, C06/R06.2).

The method is interpreted from its AST (engine/pyinterp + engine/absint) for every spelling of the `aggregation` argument the
property talks about, with and without an `observed` column, on an abstract frame: the frame returned by `self._predict(df)` is
a token F; `F[col]`, `.resample(rule)`, the reductions and `pd.concat(..., axis=1)` build a description of the result
(column, source frame, rule, reduction).  The reduction handed to `.apply/.agg` is recognised by applying it to a symbol
(absint.symbolic_apply), so a lambda, a named module function or `lambda x: (x**2).sum()**0.5` all read sqrt(sum(sq(x))).

What comes out is *what the function does*, independent of locals, helpers, constants or the shape of the if/elif chain."""
from __future__ import annotations

import ast
from typing import Any, Dict, List, Optional, Tuple

from engine.absint import AbsObj, BoundRepoMethods, ClassRef, ModuleEnv, NumpyTerms, symbolic_apply
from engine.index import AnalysisError, FuncInfo
from engine.pyinterp import Function, Interp, InterpRaised, Stub, Unsupported

RSS = "sqrt(sum(sq(x)))"


class AColumns(Stub):
    def __init__(self, cols):
        self.cols = set(cols)

    def __contains__(self, k):
        return k in self.cols

    def __iter__(self):
        return iter(sorted(self.cols))

    def tolist(self):
        return sorted(self.cols)

    to_list = tolist


class AFrame(Stub):
    """A frame token.  `origin` says where it came from ('input' = the data object's frame, 'predict' = result of self._predict)."""

    def __init__(self, origin: str, cols, ops: Tuple[str, ...] = ()):
        self.origin, self.cols, self.ops = origin, set(cols), tuple(ops)
        self.stage: Dict[str, Any] = {}

    @property
    def columns(self):
        return AColumns(self.cols)

    @property
    def index(self):
        return AIndexTok(self)

    def copy(self, *a, **k):
        return AFrame(self.origin, self.cols, self.ops)

    def __getitem__(self, k):
        if isinstance(k, str):
            if k not in self.cols:
                raise InterpRaised("KeyError", repr(k))
            return ACol(self, k)
        if isinstance(k, list) and all(isinstance(x, str) for x in k):
            miss = [x for x in k if x not in self.cols]
            if miss:
                raise InterpRaised("KeyError", repr(miss))
            return AFrame(self.origin, k, self.ops + (f"select{sorted(k)}",))
        raise Unsupported("frame[...] with " + type(k).__name__)

    def resample(self, rule=None, *a, **k):
        if a or k or rule is None:
            raise Unsupported("resample() with extra arguments")
        return AFrameRes(self, rule)

    def __contains__(self, k):        # `"col" in frame` asks for a column label
        return k in self.cols

    def __iter__(self):               # iterating a frame yields its column labels
        return iter(sorted(self.cols))

    def __getattr__(self, name):
        # row-changing / value-changing operations are recorded, not modelled
        if name.startswith("_"):
            raise AttributeError(name)
        if name in ("loc", "iloc", "at", "iat", "values", "T", "shape", "dtypes", "empty"):
            raise AttributeError(name)

        def op(*a, **k):
            # any pandas method on the frame: recorded by name (tz_convert, shift, dropna, ...), the judges require "no operation"
            return AFrame(self.origin, self.cols, self.ops + (name,))
        return op

    def desc(self):
        return {"frame": self.origin, "ops": list(self.ops)}


class AIndexTok(Stub):
    def __init__(self, fr):
        self.fr = fr

    def __getattr__(self, name):
        if name.startswith("_"):
            raise AttributeError(name)
        from engine.absint import Opaque
        return Opaque(f"index.{name}")


class AFrameRes(Stub):
    """frame.resample(rule): selecting a column gives that column's resampler."""

    def __init__(self, frame: AFrame, rule):
        self.frame, self.rule = frame, rule

    def __getitem__(self, k):
        if isinstance(k, str):
            return ARes(self.frame[k], self.rule)
        raise Unsupported("frame.resample(...)[...] with something other than one column name")

    def __getattr__(self, name):
        if name.startswith("_"):
            raise AttributeError(name)
        if name in self.frame.cols:
            return ARes(self.frame[name], self.rule)
        raise Unsupported(f"frame.resample(...).{name}: whole-frame reductions are not modelled")


class ACol(Stub):
    def __init__(self, frame: AFrame, col: str):
        self.frame, self.col = frame, col

    def resample(self, rule=None, *a, **k):
        if a or k or rule is None:
            raise Unsupported("resample() with extra arguments")
        return ARes(self, rule)

    def copy(self):
        return self


# reductions r with r(r(parts)) == r(whole) when the coarse periods are unions of the fine ones (calendar months -> month pairs)
_COMPOSABLE = {"sum(x)", "first(x)", "max(x)", "min(x)", "sqrt(sum(sq(x)))"}
_NESTED_RULES = {("MS", "2MS"), ("MS", "MS"), ("2MS", "2MS")}


class ARes(Stub):
    def __init__(self, col: ACol, rule):
        self.col, self.rule = col, rule

    def _agg(self, kind: str):
        first = getattr(self.col.frame, "stage", {}).get(self.col.col)
        if first is not None:
            # second aggregation stage over a table of aggregates: exact for the composable reductions on nested periods, otherwise
            # it stays what it is - a reduction of period values, not of the daily rows (a mean of monthly means is not the mean)
            if first.kind == kind and kind in _COMPOSABLE and (str(first.rule), str(self.rule)) in _NESTED_RULES and not self.col.frame.ops:
                r = AAgg(first.col, self.rule, kind)
                r.name = getattr(first, "name", first.col.col)
                return r
            return AAgg(self.col, self.rule, f"{kind} of per-{first.rule} {first.kind}")
        return AAgg(self.col, self.rule, kind)

    def sum(self, *a, **k):
        if a or k:
            return self._agg(f"sum?{sorted(k.items())}")
        return self._agg("sum(x)")

    def mean(self, *a, **k):
        return self._agg("mean(x)" if not a and not k else "mean?")

    def first(self, *a, **k):
        return self._agg("first(x)" if not a and not k else "first?")

    def last(self, *a, **k):
        return self._agg("last(x)")

    def max(self, *a, **k):
        return self._agg("max(x)")

    def min(self, *a, **k):
        return self._agg("min(x)")

    def median(self, *a, **k):
        return self._agg("median(x)")

    def count(self, *a, **k):
        return self._agg("count(x)")

    def _f(self, f=None, *a, func=None, **k):
        f = f if f is not None else func
        if a or k or f is None:
            raise Unsupported("aggregator with extra arguments")
        return self._agg(symbolic_apply(_INTERP[0], f))

    apply = agg = aggregate = _f


class AAgg(Stub):
    def __init__(self, col: ACol, rule, kind: str):
        self.col, self.rule, self.kind = col, rule, kind

    def rename(self, name):
        r = AAgg(self.col, self.rule, self.kind)
        r.name = name
        return r

    def desc(self):
        return {"column": getattr(self, "name", self.col.col), "source_column": self.col.col, "from": self.col.frame.origin, "from_ops": list(self.col.frame.ops), "rule": self.rule, "reduction": self.kind}


class AConcat(Stub):
    def __init__(self, items, axis, ops: Tuple[str, ...] = ()):
        self.items, self.axis, self.ops = items, axis, tuple(ops)

    def _as_frame(self) -> AFrame:
        """The aggregated table used as a frame again (a second aggregation stage): its origin says what it was made from."""
        if self.axis not in (1, "columns") or not all(isinstance(x, AAgg) for x in self.items):
            raise Unsupported("a concatenation that is not a column-wise table of aggregates, used as a frame")
        rules = sorted({str(x.rule) for x in self.items})
        srcs = sorted({x.col.frame.origin for x in self.items})
        fr = AFrame(f"aggregate[{','.join(rules)}] of {','.join(srcs)}", [getattr(x, "name", x.col.col) for x in self.items], self.ops)
        fr.stage = {getattr(x, "name", x.col.col): x for x in self.items}
        return fr

    @property
    def columns(self):
        return self._as_frame().columns

    def __getitem__(self, k):
        return self._as_frame()[k]

    def resample(self, rule=None, *a, **k):
        return self._as_frame().resample(rule, *a, **k)

    def __getattr__(self, name):
        if name.startswith("_") or name in ("loc", "iloc", "values", "T", "shape", "empty", "index"):
            raise AttributeError(name)

        def op(*a, **k):
            return AConcat(self.items, self.axis, self.ops + (name,))
        return op


class PD(Stub):
    @staticmethod
    def concat(objs=None, axis=0, **k):
        if k or objs is None:
            raise Unsupported(f"pd.concat with {sorted(k)}")
        if isinstance(objs, dict):
            items = []
            for name, v in objs.items():
                if v is None:
                    continue
                if isinstance(v, AAgg):
                    v = v.rename(name)
                items.append(v)
        else:
            items = [x for x in objs if x is not None]  # pandas drops None entries silently
        return AConcat(items, axis)

    @staticmethod
    def DataFrame(data=None, **k):
        if isinstance(data, dict) and not k:
            items = []
            for name, v in data.items():
                if v is None:
                    raise Unsupported("pd.DataFrame with a None column")
                if isinstance(v, AAgg):
                    v = v.rename(name)
                items.append(v)
            return AConcat(items, 1)
        raise Unsupported("pd.DataFrame(...) form not modelled")


_INTERP: List[Interp] = [None]  # type: ignore

ALL_COLS = ["season", "weekday_weekend", "temperature", "observed", "predicted", "predicted_unc", "heating_load", "cooling_load", "model_split", "model_type"]
AGG_VALUES = [None, "none", "None", "NONE", "monthly", "bimonthly", "weekly", "MS", "2MS", "quarterly", "bi-monthly", "daily", ""]


class _Model(AbsObj, BoundRepoMethods):
    """What the scenario does not set (private helper methods, class-level tables and messages) is the repository class's own, interpreted."""

    def __init__(self, classes, with_observed: bool):
        super().__init__(classes, is_fitted=True, disqualification=[], warnings=[], baseline_timezone="TZ", _data_df_name="df")
        self._with_observed = with_observed
        self.predict_calls = 0

    def _predict(self, df, *a, **k):
        if not isinstance(df, AFrame) or df.origin != "input" or df.ops:
            raise Unsupported("self._predict called with something other than the data object's frame")
        self.predict_calls += 1
        cols = [c for c in ALL_COLS if c != "observed" or self._with_observed]
        return AFrame("predict", cols)


def interpret_predict(chk, fi: FuncInfo, classes, aggregation, with_observed: bool) -> Dict[str, Any]:
    """Outcome of predict(reporting_data, aggregation=<value>) on the abstract model/data: {'raises': name} or {'returns': description}."""
    it = Interp(step_limit=200_000)
    _INTERP[0] = it
    env = ModuleEnv(chk.repo, fi.module, it, {"np": NumpyTerms(), "numpy": NumpyTerms(), "pd": PD(), "pandas": PD()})
    model = _Model(classes, with_observed)
    if fi.cls is not None:
        model._bind_repo(chk, fi.cls, it, {"np": NumpyTerms(), "numpy": NumpyTerms(), "pd": PD(), "pandas": PD()})
    in_cols = [c for c in ("season", "weekday_weekend", "temperature", "observed") if c != "observed" or with_observed]
    data = AbsObj({"BillingBaselineData", "BillingReportingData", "DailyBaselineData", "DailyReportingData"}, tz="TZ", df=AFrame("input", in_cols), warnings=[], disqualification=[])
    f = Function(fi.node, env, it)
    try:
        res = f(model, data, aggregation=aggregation)
    except InterpRaised as e:
        return {"raises": e.exc_name.split(".")[-1], "predict_calls": model.predict_calls}
    except (AttributeError, TypeError) as e:
        # python-level failure of the interpreted code on these inputs (e.g. None.lower()): what the real code would raise
        return {"raises": type(e).__name__, "predict_calls": model.predict_calls}
    if isinstance(res, AFrame):
        return {"returns": "frame", "frame": res.desc(), "predict_calls": model.predict_calls}
    if isinstance(res, AConcat):
        items = []
        for x in res.items:
            if isinstance(x, AAgg):
                items.append(x.desc())
            else:
                items.append({"other": type(x).__name__})
        return {"returns": "concat", "axis": res.axis, "items": items, "ops": list(res.ops), "predict_calls": model.predict_calls}
    return {"returns": "other", "value": repr(res)[:80], "predict_calls": model.predict_calls}


def interpret_plain_predict(chk, fi: FuncInfo, classes, with_observed: bool) -> Dict[str, Any]:
    """DailyModel.predict(reporting_data) on the abstract model / data object: what is handed back."""
    it = Interp(step_limit=200_000)
    _INTERP[0] = it
    env = ModuleEnv(chk.repo, fi.module, it, {"np": NumpyTerms(), "numpy": NumpyTerms(), "pd": PD(), "pandas": PD()})
    model = _Model(classes, with_observed)
    if fi.cls is not None:
        model._bind_repo(chk, fi.cls, it, {"np": NumpyTerms(), "numpy": NumpyTerms(), "pd": PD(), "pandas": PD()})
    model._baseline_data_type = ClassRef("DailyBaselineData")
    model._reporting_data_type = ClassRef("DailyReportingData")
    in_cols = [c for c in ("season", "weekday_weekend", "temperature", "observed") if c != "observed" or with_observed]
    data = AbsObj({"DailyBaselineData", "DailyReportingData"}, tz="TZ", df=AFrame("input", in_cols), warnings=[], disqualification=[])
    try:
        res = Function(fi.node, env, it)(model, data)
    except InterpRaised as e:
        return {"raises": e.exc_name.split(".")[-1], "predict_calls": model.predict_calls}
    except Unsupported as e:
        raise AnalysisError(f"{fi.key}: predict uses an operation outside the modelled subset: {e}")
    if isinstance(res, AFrame):
        return {"returns": "frame", "frame": res.desc(), "predict_calls": model.predict_calls}
    return {"returns": "other", "value": repr(res)[:80], "predict_calls": model.predict_calls}


SPEC = {
    "predicted": "sum(x)", "observed": "sum(x)", "heating_load": "sum(x)", "cooling_load": "sum(x)",
    "temperature": "mean(x)", "predicted_unc": RSS,
    "season": "first(x)", "model_split": "first(x)", "model_type": "first(x)",
}
RULES = {"monthly": "MS", "bimonthly": "2MS"}


def billing_outcomes(chk, fi: FuncInfo, classes) -> Dict[Tuple[Any, bool], Dict[str, Any]]:
    out = {}
    for agg in AGG_VALUES:
        for wo in (True, False):
            try:
                out[(agg, wo)] = interpret_predict(chk, fi, classes, agg, wo)
            except Unsupported as e:
                raise AnalysisError(f"{fi.key}: predict uses an operation outside the modelled subset (aggregation={agg!r}): {e}")
    return out
