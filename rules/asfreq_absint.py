"""as_freq (the resampling primitive behind C08 and C09) decided by symbolic interpretation.

The function is interpreted from its AST on recording values (engine.absint.Sym): the series is a root symbol, every pandas
operation yields a term, so the returned value *is* the dataflow that produces it — independent of local names, of how often a
sub-expression is bound to a local, of helper functions, constants and early returns.  The terms are compared with a reference
written here in plain Python over the same recording values, which states the property-level facts:

  cumulative     value    = per-period SUM of the series spread as  value * (atomic interval / own forward interval), carried forward
                            (ffill) over the reading's interval; a period whose first atomic sample is missing stays missing
  instantaneous  value    = per-period MEAN of the series carried forward on the atomic grid
  both           coverage = COUNT of atomic samples present in the period / number of atomic samples of the period
  the input is de-duplicated first; each reading's interval is the forward difference to the next stamp (the last one open)."""
from __future__ import annotations

from typing import Any, Dict, List, Optional, Tuple

from engine.absint import ModuleEnv, Oracle, Sym, SymWorld, canon, explore, sym_root, sym_walk
from engine.index import AnalysisError
from engine.pyinterp import Function, Interp, InterpRaised, StubCall, Unsupported

DPU = "opendsm.eemeter.common.data_processor_utilities"


def _world():
    w = SymWorld()
    S = sym_root(w, "S", classes={"pd.Series", "Series"})
    pd = sym_root(w, "pd")
    np_ = sym_root(w, "np")
    dedup = lambda x: Sym(w, "call", sym_root(w, "remove_duplicates"), (x,), ())
    return w, S, pd, np_, dedup


def reference(kind: str, freq: str, atomic: str) -> Dict[str, str]:
    w, S, pd, np_, dedup = _world()
    s = dedup(S)
    td = (s.index[1:] - s.index[:-1]).append(pd.TimedeltaIndex([pd.NaT]))
    if kind == "cumulative":
        atoms = (s * (pd.Timedelta(atomic).total_seconds() / td.total_seconds())).asfreq(atomic, method="ffill")
        bins = atoms.resample(freq, origin=s.index[0])
        value = bins.sum()
        value = value[bins.first().notnull()].reindex(value.index)
    else:
        atoms = s.asfreq(atomic, method="ffill")
        bins = atoms.resample(freq, origin=s.index[0])
        value = bins.mean()
    ncov = bins.count()
    ntot = value.resample(atomic).count().resample(freq, origin=value.index[0]).count()
    return {"value": value.key(), "coverage": (ncov / ntot).key(), "frame": value.to_frame("value").key()}


def interpret(chk, kind: Optional[str], freq: str = "D", include_coverage: bool = True) -> List[Dict[str, Any]]:
    fi = chk.repo.func(DPU, "as_freq")
    outs = []
    orc = Oracle()

    def run():
        w, S, pd, np_, dedup = _world()
        w.oracle = orc
        it = Interp(step_limit=100_000)
        env = ModuleEnv(chk.repo, fi.module, it, {"pd": pd, "np": np_, "remove_duplicates": StubCall(dedup)})
        kw = {"include_coverage": include_coverage}
        if kind is not None:
            kw["series_type"] = kind
        try:
            r = Function(fi.node, env, it)(S, freq, **kw)
        except InterpRaised as e:
            return {"raises": e.exc_name}
        if isinstance(r, Sym):
            d = {"returns": r.key() if not r._cols else None, "frame": Sym(w, r._op, *r._args).key(), "cols": {k: canon(v) for k, v in r._cols.items()}, "effects": list(w.effects)}
            return d
        return {"returns": canon(r)}
    try:
        for tr, res in explore(run, orc):
            res = dict(res)
            res["decisions"] = tr
            outs.append(res)
    except Unsupported as e:
        raise AnalysisError(f"{fi.key}: uses an operation outside the modelled subset: {e}")
    return outs


def primary_aggregator(term: str) -> Optional[str]:
    """The reduction applied to the resampled atomic series that produces the value (first `.resample(...).<agg>()` from the outside)."""
    import re
    m = re.search(r"\.resample\('D', origin=[^()]*(?:\([^()]*\)[^()]*)*?\)\.(\w+)\(\)", term)
    return m.group(1) if m else None


def branches(chk) -> Dict[str, Dict[str, str]]:
    """series_type -> {'value': aggregator, 'coverage': aggregator}, read off the interpreted terms (for the kind typing of C08/C09)."""
    out: Dict[str, Dict[str, str]] = {}
    for kind in ("cumulative", "instantaneous"):
        for o in interpret(chk, kind):
            if o.get("cols") and "coverage" in o["cols"] and not any(v for t, v in o["decisions"] if ".empty" in t):
                fr = o["frame"]
                val = primary_aggregator(fr)
                cov = primary_aggregator(o["cols"]["coverage"])
                if val and cov:
                    out[kind] = {"value": val, "coverage": cov}
    return out


def check(chk, r_kind, r_spread, kinds=("cumulative", "instantaneous")) -> None:
    """Obligations for C08 R08.2 (aggregation kinds, coverage, all-missing-stays-missing) and R08.3 (spreading); C09 R09.1 judges the
    instantaneous (temperature) branch with the same obligations."""
    fi = chk.repo.func(DPU, "as_freq")
    d = fi.param_defaults()
    import ast as _ast
    atomic = _ast.literal_eval(d["atomic_freq"]) if "atomic_freq" in d else "1 Min"
    default_kind = _ast.literal_eval(d["series_type"]) if "series_type" in d else None
    if "cumulative" in kinds:
        r_kind.require(default_kind == "cumulative", f"{fi.key}|default-cumulative", fi.where(), "as_freq's default series_type must be cumulative (meter data)")
    for kind in kinds:
        ref = reference(kind, "D", atomic)
        outs = interpret(chk, kind)
        main = [o for o in outs if "cols" in o and o["cols"] and not any(v for t, v in o["decisions"] if ".empty" in t)]
        r_kind.require(bool(main), f"{fi.key}|{kind}-branch", fi.where(), f"as_freq(series_type={kind!r}, include_coverage=True) does not return a frame with a coverage column: {str(outs)[:200]}")
        for o in main[:1]:
            got_v, got_c = o["frame"], o["cols"].get("coverage")
            ok_v = got_v == ref["frame"]
            if kind == "cumulative":
                agg_ok = primary_aggregator(got_v) == "sum"
                r_kind.require(agg_ok and primary_aggregator(got_c or "") == "count", f"{fi.key}|cumulative-branch", fi.where(),
                               f"as_freq(series_type='cumulative') must aggregate the spread series with sum and count its coverage; found value via `{primary_aggregator(got_v)}`, coverage via `{primary_aggregator(got_c or '')}`",
                               sample={"branch": kind, "value": got_v[:300]})
                if agg_ok:
                    missing_ok = ".first().notnull()]" in got_v and got_v.endswith(".to_frame('value')") and ".reindex(" in got_v
                    r_kind.require(missing_ok, f"{fi.key}|all-missing-stays-missing", fi.where(),
                                   "a target period with no data must stay missing (sum of nothing is not 0 usage): the sums are kept only where the period's first atomic sample is present, then reindexed onto all periods",
                                   sample={"value": got_v[:300]})
                    r_spread.require(ok_v, f"{fi.key}|spread-factor", fi.where(),
                                     f"a reading must be spread as value * (atomic interval / own forward interval) and carried forward (asfreq(atomic, method='ffill')) before summing per period; computed `{got_v[:400]}`, reference `{ref['frame'][:400]}`",
                                     sample={"computed": got_v[:400], "reference": ref["frame"][:400]})
            else:
                r_kind.require(primary_aggregator(got_v) == "mean" and primary_aggregator(got_c or "") == "count", f"{fi.key}|instantaneous-branch", fi.where(),
                               f"as_freq(series_type='instantaneous') must aggregate with mean; found value via `{primary_aggregator(got_v)}`", sample={"branch": kind, "value": got_v[:300]})
                r_spread.require(ok_v, f"{fi.key}|instantaneous-carried-forward", fi.where(), f"instantaneous data must be carried forward on the atomic grid and averaged per period; computed `{got_v[:300]}`, reference `{ref['frame'][:300]}`")
            r_kind.require(got_c == ref["coverage"], f"{fi.key}|coverage-definition|{kind}", fi.where(),
                           f"coverage must be the number of atomic samples present divided by the number in the period; computed `{str(got_c)[:300]}`, reference `{ref['coverage'][:300]}`")
        # an empty input comes back unchanged, a non-series is rejected
        emp = [o for o in outs if any(v for t, v in o["decisions"] if ".empty" in t)]
        r_kind.require(all(o.get("returns") == "S" for o in emp) and bool(emp), f"{fi.key}|empty-passes-through|{kind}", fi.where(), f"an empty series must be returned unchanged; found {str(emp)[:120]}")
    if "cumulative" in kinds:
        r_spread.inst(f"{fi.key}|dedup")
        r_spread.inst(f"{fi.key}|own-forward-interval")
        r_spread.inst(f"{fi.key}|constant-rate")
