"""C13 — each day is predicted by exactly one sub-model: that of its season and day type."""
from __future__ import annotations

import ast
import itertools
import math
from typing import Any, Dict, List, Optional, Set, Tuple

from engine.cfg import CFG
from engine.consteval import ConstEval, NotConstant
from engine.index import AnalysisError, FuncInfo, calls_in, const_str, unparse, walk_no_nested
from engine.absint import AbsObj, BoundRepoMethods, ModuleEnv
from engine.pyinterp import Env, Function, Interp, InterpRaised, Stub, Unsupported
from rules.common import DAILY_MODEL, method

SEASONS = {"su": "summer", "sh": "shoulder", "wi": "winter"}
UNSPLIT = "fw-su_sh_wi"
CELLS = [(s, d) for s in ("summer", "shoulder", "winter") for d in range(1, 8)]


# ---------------------------------------------------------------------- stubs handed to the interpreted code
class Mask(Stub):
    def __init__(self, cells: Set[Tuple[str, int]], table: Dict[Tuple[str, int], int]):
        self.cells, self.table = set(cells), table

    def __and__(self, o):
        return Mask(self.cells & o.cells, self.table)

    def __or__(self, o):
        return Mask(self.cells | o.cells, self.table)

    def __invert__(self):
        return Mask(set(self.table) - self.cells, self.table)

    def sum(self):
        return sum(self.table[c] for c in self.cells)

    @property
    def values(self):
        return self


class Col(Stub):
    def __init__(self, which: int, table):
        self.which, self.table = which, table

    def isin(self, vals):
        vals = list(vals) if not isinstance(vals, str) else [vals]
        return Mask({c for c in self.table if c[self.which] in vals}, self.table)

    def __eq__(self, v):
        return Mask({c for c in self.table if c[self.which] == v}, self.table)

    __hash__ = None

    @property
    def values(self):
        return self


class Meter(Stub):
    """Abstraction of the baseline frame: number of days per (season, day_of_week 1..7) cell."""

    def __init__(self, table: Dict[Tuple[str, int], int]):
        self.table = table
        self.selected: Optional[Set[Tuple[str, int]]] = None

    def __getitem__(self, k):
        if isinstance(k, str):
            if k == "season":
                return Col(0, self.table)
            if k == "day_of_week":
                return Col(1, self.table)
            raise Unsupported(f"column {k}")
        if isinstance(k, Mask):
            m = Meter({c: n for c, n in self.table.items() if c in k.cells})
            m.selected = set(k.cells)
            return m
        raise Unsupported("meter subscript")

    @property
    def loc(self):
        me = self

        class _Loc(Stub):
            def __getitem__(self_, k):
                if isinstance(k, Mask):
                    return me[k]
                if isinstance(k, tuple) and len(k) == 2 and isinstance(k[0], Mask) and isinstance(k[1], slice) and k[1] == slice(None):
                    return me[k[0]]
                raise Unsupported("meter.loc[...] with something other than a row mask")
        return _Loc()


class _BoundSelf(AbsObj, BoundRepoMethods):
    """The model object of an interpreted method: attributes set by the rule, every other method is the repository's own, interpreted."""


class NS(Stub):
    def __init__(self, **kw):
        self.__dict__.update(kw)


def _parse_combo(combo: str) -> Optional[List[Tuple[str, List[str]]]]:
    out = []
    for comp in combo.split("__"):
        if len(comp) < 5 or comp[2] != "-" or comp[:2] not in ("fw", "wd", "we"):
            return None
        seasons = comp[3:].split("_")
        if not seasons or any(s not in SEASONS for s in seasons):
            return None
        out.append((comp[:2], seasons))
    return out


def _cover(parsed) -> Optional[str]:
    """Exact cover of {wd, we} x {su, sh, wi}?  Returns a reason string if not."""
    seen: Dict[Tuple[str, str], int] = {}
    for pre, seasons in parsed:
        for s in seasons:
            for d in (("wd", "we") if pre == "fw" else (pre,)):
                seen[(d, s)] = seen.get((d, s), 0) + 1
    for d in ("wd", "we"):
        for s in SEASONS:
            n = seen.get((d, s), 0)
            if n != 1:
                return f"cell ({d},{s}) is covered {n} times"
    return None


def run(chk):
    chk.explanation = (
        "The literal split options are evaluated and checked to be set partitions; the candidate generator, de-duplication, trimming, "
        "routing (_meter_segment) and arg-min (_best_combination) methods are *interpreted from their AST* by the checker's own interpreter "
        "for a closed pure subset of Python, on the literal options of the same source and on an abstraction of the baseline frame as "
        "day counts per (season, weekday) cell: every generated candidate is an exact cover of the 6 (day type, season) cells, the unsplit "
        "model is always kept, under all 16 allow-flag combinations x 16 Gaussian-filter outcomes x data scenarios no kept split isolates a "
        "forbidden or unsupported season or separates day types when forbidden, routing selects each of the 21 (season, weekday) cells by "
        "exactly one sub-model of every candidate, and the chosen candidate is the first strict minimum.")
    chk.trusted += ["the checker's interpreter (engine/pyinterp.py) as the semantics of the pure combinatorial helpers", "pandas isin/&/boolean-mask row selection select the rows whose cell satisfies the conjunction"]
    chk.not_decided += ["the Gaussian-overlap test itself (ellipsoid_split_filter is replaced by every possible outcome)", "numerical values of the selection criterion (C16 covers the formulas used elsewhere)"]
    r1 = chk.rule("R13.1", "literal options are set partitions; combo_dictionary maps su/sh/wi to the season labels and wd/we/fw to complementary weekday sets from the model's own settings", 8)
    r2 = chk.rule("R13.2", "routing: every candidate's sub-models select each (season, weekday) cell exactly once; key grammar written = key grammar parsed; prediction iterates the stored sub-model keys", 30)
    from rules import classstate
    from rules.common import DAILY_MODEL as _DM
    classstate.report(chk, r2, [chk.repo.cls(*_DM)] + list(chk.res.subclasses(chk.repo.cls(*_DM))), {"combo_dictionary", "seasonal_options", "day_options"},
                      what="the split vocabulary (season / weekday groups) must be the model's own: here the most recently constructed model decides it for all")
    r3 = chk.rule("R13.3", "every generated candidate is an exact cover; the unsplit model is generated, always kept, and is the baseline of the criterion", 30)
    r4 = chk.rule("R13.4", "forbidden or unsupported splits are never kept: 16 flag combinations x 16 Gaussian outcomes x data scenarios", 700)
    r5 = chk.rule("R13.5", "arg-min: _best_combination returns the first strict minimum of the selection criterion over self.combinations", 6)
    r6 = chk.rule("R13.6", "every ModelSelectionCriteria member has a branch in selection_criteria; non-RMSE criteria are normalised by N", 11)

    dm = chk.repo.cls(*DAILY_MODEL)
    init = method(chk, dm, "__init__")
    # A stored model routes with the *stored* season / weekday maps only if from_dict builds the new object through the constructor with
    # them: the routing tables (R13.1) are derived from the settings there and nowhere else.  Shared with C01 (rules/daily_roundtrip.py):
    # the writer and from_dict are interpreted back to back; here only the construction of the reloaded object is judged.
    r7 = chk.rule("R13.7", "a reloaded model routes days with the stored season / weekday settings: from_dict constructs the model with the stored settings (the routing tables are derived in the constructor)", 2)
    from rules.daily_roundtrip import round_trip as _daily_round_trip
    _cp, _fd = method(chk, dm, "_create_params_from_fit_model"), method(chk, dm, "from_dict")
    for _tj in (True, False):
        try:
            _o = _daily_round_trip(chk, dm, _cp, _fd, _tj)
        except Unsupported as e:
            raise AnalysisError(f"{_fd.key}: daily round trip uses an operation outside the modelled subset: {e}")
        _msg = (_o.get("diffs") or {}).get("settings") if "raises" not in _o else None
        r7.require(_msg is None, f"{_fd.key}|reloaded-model-built-from-stored-settings|{'json' if _tj else 'dict'}", _fd.where(),
                   f"{_fd.qualname}: {_msg}; the weekday / weekend day lists and season labels the reloaded model routes with are those of the default settings, whatever the stored model says "
                   f"(a Friday-Saturday weekend is predicted with the Saturday-Sunday sub-model)", sample={"through_json": _tj})
    # The constructor is interpreted from its AST on an abstract model object (settings replaced by a stand-in carrying one weekday map);
    # the vocabulary is then read off the object: instance attributes, or class-level literals when the constructor leaves them alone.
    weekday_maps = [
        {1: "weekday", 2: "weekday", 3: "weekday", 4: "weekday", 5: "weekday", 6: "weekend", 7: "weekend"},
        {1: "weekend", 2: "weekday", 3: "weekday", 4: "weekday", 5: "weekday", 6: "weekday", 7: "weekend"},
        {1: "weekday", 2: "weekday", 3: "weekday", 4: "weekday", 5: "weekend", 6: "weekend", 7: "weekend"},
    ]

    class _InitSettings(Stub):
        def __init__(self, me, wm):
            self.me, self.wm = me, wm

        def _abs_call(self, *a, **k):
            self.me.settings = NS(weekday_weekend=NS(_num_dict=dict(self.wm)))

    lits: Dict[str, Any] = {}
    combo_dicts = []
    for wm in weekday_maps:
        it = Interp()
        me = _BoundSelf({dm.name, "DailyModel"})
        me._bind_repo(chk, dm, it, {})
        me._initialize_settings = _InitSettings(me, wm)
        try:
            Function(init.node, ModuleEnv(chk.repo, init.module, it, {"np": NS(nan=float("nan"), inf=float("inf"))}), it)(me)
            so, do, cd = me.seasonal_options, me.day_options, me.combo_dictionary
        except (Unsupported, AttributeError) as e:
            raise AnalysisError(f"{init.key}: cannot establish the split vocabulary, the constructor uses an operation outside the modelled subset: {e}")
        except InterpRaised as e:
            r1.require(False, f"{init.key}|constructor-raises", init.where(), f"DailyModel.__init__ raises {e.exc_name} for weekday map {wm}")
            return
        if not (isinstance(so, list) and isinstance(do, list) and isinstance(cd, dict)):
            raise AnalysisError(f"{init.key}: the split vocabulary is not made of plain lists / dicts any more")
        lits = {"seasonal_options": [list(o) for o in so], "day_options": [list(o) for o in do]}
        cd = {k: (list(v) if isinstance(v, (list, tuple)) else v) for k, v in cd.items()}
        combo_dicts.append(cd)
        ok = cd.get("su") == "summer" and cd.get("sh") == "shoulder" and cd.get("wi") == "winter" and sorted(cd.get("fw", [])) == list(range(1, 8)) \
            and sorted(cd.get("wd", [])) == sorted(k for k, v in wm.items() if v == "weekday") and sorted(cd.get("we", [])) == sorted(k for k, v in wm.items() if v == "weekend") \
            and not set(cd.get("wd", [])) & set(cd.get("we", [])) and sorted(cd.get("wd", []) + cd.get("we", [])) == list(range(1, 8))
        r1.require(ok, f"{init.key}|combo_dictionary|we={sorted(k for k, v in wm.items() if v == 'weekend')}", init.where(),
                   f"combo_dictionary does not follow the model's own weekday map {wm}: {cd}", sample={"weekday_map": wm, "wd": cd.get("wd"), "we": cd.get("we")})
    for opt in lits["seasonal_options"]:
        parts = [x for p in opt for x in p.split("_")]
        r1.require(sorted(parts) == ["sh", "su", "wi"], f"{init.key}|seasonal:{'/'.join(opt)}", init.where(), f"seasonal option {opt} is not a partition of {{su, sh, wi}}", sample={"option": opt})
    r1.require(len({tuple(sorted(o)) for o in lits["seasonal_options"]}) == 5, f"{init.key}|seasonal-all-five", init.where(), "the five set partitions of three seasons must all be present")
    for opt in lits["day_options"]:
        r1.require(sorted(opt) == ["wd", "we"], f"{init.key}|day:{'/'.join(opt)}", init.where(), f"day option {opt} is not a partition of {{wd, we}}")

    # ------------------------------------------------------------------ interpret _combinations
    comb = method(chk, dm, "_combinations")
    ms = method(chk, dm, "_meter_segment")
    plenty = {(s, d): 18 for s, d in CELLS}
    scenarios = {
        "plenty": plenty,
        "short-summer": {c: ((5 if c[1] >= 6 else 2) if c[0] == "summer" else 18) for c in CELLS},       # 20 summer days < 30, but 10 summer weekend days >= 8
        "no-weekend-days": {c: (0 if c[1] >= 6 else 18) for c in CELLS},             # the unsplit model must survive even then
        "few-winter-weekends": {c: (2 if (c[0] == "winter" and c[1] >= 6) else 18) for c in CELLS},  # 4 winter weekend days < 8
    }
    flags = list(itertools.product([False, True], repeat=4))
    generated: Optional[List[str]] = None
    n_cases = 0

    def run_combinations(table, user, gauss, use_gauss=True, pre_generated=None):
        it = Interp()
        env = ModuleEnv(chk.repo, comb.module, it, {})
        cd = combo_dicts[0]
        settings = NS(split_selection=NS(allow_separate_summer=user[0], allow_separate_shoulder=user[1], allow_separate_winter=user[2],
                                         allow_separate_weekday_weekend=user[3], reduce_splits_by_gaussian=use_gauss, reduce_splits_num_std=[1.4, 0.89]))
        selfstub = _BoundSelf({dm.name, "DailyModel"}, settings=settings, df_meter=Meter(table), combo_dictionary=cd, day_options=lits["day_options"], seasonal_options=lits["seasonal_options"])
        selfstub._bind_repo(chk, dm, it, {})
        captured = {}

        class Filt(Stub):
            def __call__(self_, meter, n_std=None):
                return {"summer": gauss[0], "shoulder": gauss[1], "winter": gauss[2], "weekday_weekend": gauss[3]}
        env.set("ellipsoid_split_filter", Filt().__call__)
        env.set("self", selfstub)
        f = Function(comb.node, env, it)
        # capture the un-trimmed list by wrapping: interpret the body statement by statement
        benv = Env(env)
        benv.set("self", selfstub)
        result = None
        from engine.pyinterp import _Return
        tail = [unparse(x) for x in comb.node.body[-4:]]
        fast = pre_generated is not None and tail == ["combo_list = _get_combinations()", "combo_list = _remove_duplicate_permutations(combo_list)",
                                                      "combo_list = _trim_combinations(combo_list)", "return combo_list"]
        if fast:
            for s in comb.node.body[:-4]:
                it.exec_stmt(s, benv)
            return list(pre_generated), benv.get("_trim_combinations")(list(pre_generated))
        try:
            for s in comb.node.body:
                # the un-trimmed candidate list is what is handed to the trimming step (however it was assembled before)
                tc = [c_ for c_ in ast.walk(s) if isinstance(c_, ast.Call) and unparse(c_.func) == "_trim_combinations" and len(c_.args) == 1]
                if tc and "generated" not in captured:
                    captured["generated"] = list(it.ev(tc[0].args[0], benv))
                it.exec_stmt(s, benv)
        except _Return as r:
            result = r.v
        return captured.get("generated"), result

    try:
        gen, kept_all = run_combinations(plenty, (True, True, True, True), (True, True, True, True))
    except Unsupported as e:
        r3.require(False, f"{comb.key}|interpretable", comb.where(), f"cannot establish the candidate set: construct outside the interpreted subset: {e}")
        return
    if not gen:
        raise AnalysisError("_combinations: could not capture the generated candidate list")
    generated = gen
    r3.require(UNSPLIT in generated, f"{comb.key}|unsplit-generated", comb.where(), f"the unsplit model `{UNSPLIT}` is not among the generated candidates")
    r3.require(len(generated) == len(set(generated)), f"{comb.key}|no-duplicates", comb.where(), "duplicate candidates survive de-duplication")
    canon = set()
    for c in generated:
        p = _parse_combo(c)
        why = "does not follow the key grammar" if p is None else _cover(p)
        r3.require(why is None, f"{comb.key}|candidate:{c}", comb.where(), f"candidate split `{c}` is not a partition of the calendar: {why}", sample={"candidate": c})
        if p is not None:
            canon.add(frozenset((pre, frozenset(ss)) for pre, ss in p))
    # completeness: every partition of the 6 cells that treats day types jointly (fw) or separately per season block is reachable: at least the
    # 5 full-week seasonal partitions and the 5x5 fully separated ones must be present
    for opt in lits["seasonal_options"]:
        want = frozenset(("fw", frozenset(p.split("_"))) for p in opt)
        r3.require(want in canon, f"{comb.key}|has-fullweek:{'/'.join(opt)}", comb.where(), f"the full-week candidate for seasonal option {opt} is missing")
    r3.require(set(kept_all) == set(generated), f"{comb.key}|no-over-trimming", comb.where(),
               f"with every flag on, every Gaussian test passing and plentiful data, trimming must keep all {len(generated)} candidates; kept {len(kept_all)}")
    # ------------------------------------------------------------------ R13.4
    for scen, table in scenarios.items():
        season_days = {s: sum(n for (ss, d), n in table.items() if ss == s) for s in ("summer", "shoulder", "winter")}
        for user in flags:
            for gauss in flags:
                _g, kept = run_combinations(table, user, gauss, pre_generated=generated)
                n_cases += 1
                bad = None
                if UNSPLIT not in kept:
                    bad = "the unsplit model was trimmed away"
                elif not set(kept) <= set(generated):
                    bad = "a kept candidate was never generated"
                else:
                    for c in kept:
                        if c == UNSPLIT:
                            continue
                        p = _parse_combo(c)
                        if p is None or _cover(p) is not None:
                            bad = f"kept `{c}` is not a partition"
                            break
                        if any(pre in ("wd", "we") for pre, ss in p) and not (user[3] and gauss[3]):
                            bad = f"kept `{c}` separates weekdays from weekends although " + ("the setting forbids it" if not user[3] else "the Gaussian test rejected it")
                            break
                        for pre, ss in p:
                            if len(ss) == 1:
                                i = list(SEASONS).index(ss[0])
                                if not user[i] or not gauss[i] or season_days[SEASONS[ss[0]]] < 30:
                                    bad = f"kept `{c}` isolates {SEASONS[ss[0]]} although " + ("the setting forbids it" if not user[i] else ("the Gaussian test rejected it" if not gauss[i] else "the baseline has fewer than 30 such days"))
                                    break
                        if bad:
                            break
                r4.require(bad is None, f"{comb.key}|trim|{scen}|user={user}|gauss={gauss}", comb.where(), f"_trim_combinations ({scen}, allow flags {user}, Gaussian outcome {gauss}): {bad}",
                           sample={"scenario": scen, "allow_flags": user, "gaussian": gauss, "kept": len(kept)})
    # without the Gaussian reduction the filter must not be consulted (its outcome all-False must not matter)
    _g, kept = run_combinations(plenty, (True, True, True, True), (False, False, False, False), use_gauss=False)
    r4.require(set(kept) == set(generated), f"{comb.key}|gaussian-off", comb.where(), "with reduce_splits_by_gaussian off the Gaussian outcome must not trim anything")

    # ------------------------------------------------------------------ R13.2 routing by interpretation of _meter_segment
    for cd in combo_dicts:
        for c in generated:
            sel_count: Dict[Tuple[str, int], int] = {k: 0 for k in CELLS}
            err = None
            for comp in c.split("__"):
                it = Interp()
                env = ModuleEnv(chk.repo, ms.module, it, {})
                selfm = _BoundSelf({dm.name, "DailyModel"}, combo_dictionary=cd, df_meter=Meter(plenty))
                selfm._bind_repo(chk, dm, it, {})
                try:
                    res = Function(ms.node, env, it)(selfm, comp, Meter(plenty))
                except Unsupported as e:
                    err = str(e)
                    break
                if not isinstance(res, Meter) or res.selected is None:
                    err = "does not return a boolean-mask selection of the frame"
                    break
                for k in res.selected:
                    sel_count[k] += 1
            bad = [k for k, n in sel_count.items() if n != 1]
            r2.require(err is None and not bad, f"{ms.key}|routing:{c}|we={cd['we']}", ms.where(),
                       f"candidate `{c}`: " + (err or f"(season, weekday) cells {bad[:3]} are selected {[sel_count[k] for k in bad[:3]]} times by its sub-models (must be exactly once)"),
                       sample={"candidate": c, "weekend_days": cd["we"]})
    # key grammar written == parsed ; prediction iterates stored keys and labels rows with that key
    unparsed = [c for c in generated if _parse_combo(c) is None]
    r2.require(not unparsed, f"{comb.key}|key-grammar-writer", comb.where(), f"candidate keys must be written as `<prefix>-<seasons>` joined by `__`; the interpreted generator wrote {unparsed[:3]}")
    pr = method(chk, dm, "_predict")
    # interpreted (rules/daily_predict.py): every stored key predicts exactly its own segment of the cleaned frame, with its own
    # sub-model, and labels those rows with that key
    from rules.daily_predict import judge_predict, predict_outcomes
    loop_msgs = [m for o in predict_outcomes(chk, pr.cls or dm, pr) for ob, m in judge_predict(o) if ob == "rows" and ("key" in m or "segment" in m)]
    ok_loop = not loop_msgs
    r2.require(ok_loop, f"{pr.key}|iterates-stored-keys", pr.where(), "_predict must iterate the stored sub-model keys, route rows with that key and label the frame built on those rows with it" + (": " + loop_msgs[0] if loop_msgs else ""))
    idf = method(chk, dm, "_initialize_data")
    from rules.daily_predict import initialize_outcomes, judge_initialize
    rmsgs = [m for o in initialize_outcomes(chk, idf.cls or dm, idf) for ob, m in judge_initialize(o) if ob == "routing"]
    r2.require(not rmsgs, f"{idf.key}|routing-columns-from-own-settings", idf.where(),
               "season / day_of_week routing columns must be computed from the model's own season map and the date's weekday (1 = Monday)" + (": " + rmsgs[0] if rmsgs else ""))

    # ------------------------------------------------------------------ R13.3 literals
    fit = method(chk, dm, "_fit")
    csc = method(chk, dm, "_combination_selection_criteria")
    from rules.daily_errors import metrics_stand_in, stored_errors
    _se = stored_errors(chk, dm, fit, method(chk, dm, "_get_error_metrics"))
    r3.require(_se.get("__base__") == "base_0", f"{fit.key}|baseline-is-unsplit", fit.where(), f"wRMSE_base must be the error of the unsplit model (interpreted: {_se.get('__base__', _se)})")
    # _combination_selection_criteria interpreted with selection_criteria as a recorder: what is handed over in which role
    from engine.absint import Term as _T
    from engine.pyinterp import StubCall, InterpRaised as _IR

    class _S(_T):
        __hash__ = _T.__hash__
        def __eq__(self, o): return isinstance(o, _T) and o.key() == self.key()
        def __truediv__(self, o): return _S("div", self, o)
        def __rtruediv__(self, o): return _S("div", o, self)
        def __add__(self, o): return _S("add", *sorted([self, o], key=lambda t: t.key() if isinstance(t, _T) else repr(t)))
        __radd__ = __add__
        def lower(self): return self

    class _NPs(Stub):
        @staticmethod
        def sum(xs, **k):
            xs = list(xs)
            return _S("sum", *sorted(xs, key=lambda t: t.key() if isinstance(t, _T) else repr(t))) if len(xs) != 1 else xs[0]

    for cand in (UNSPLIT, "wd-su__we-su__fw-sh_wi", "fw-su__fw-sh_wi"):
        comps = cand.split("__")
        rec = []

        def _sel(*a, **k):
            rec.append((a, k))
            return _S("CRITERION")
        me = NS(fit_components={c: NS(N=_S(f"N[{c}]"), TSS=_S(f"TSS[{c}]"), num_coeffs=_S(f"k[{c}]")) for c in comps}, wRMSE_base=_S("wRMSE_base"),
                settings=NS(split_selection=NS(criteria=_S("criteria"), penalty_multiplier=_S("penalty_multiplier"), penalty_power=_S("penalty_power"))),
                _get_error_metrics=metrics_stand_in(chk, dm, method(chk, dm, "_get_error_metrics"), lambda c, i: _S(f"wRMSE[{c}]") if i == 0 else _S(f"other{i}[{c}]")),
                df_penalties={cand: _S("df_penalty")})
        it = Interp()
        env = ModuleEnv(chk.repo, csc.module, it, {"np": _NPs(), "numpy": _NPs(), "selection_criteria": StubCall(_sel)})
        key = f"{csc.key}|criterion-inputs|{cand}"
        try:
            res = Function(csc.node, env, it)(me, cand)
        except _IR as e:
            r3.require(False, key, csc.where(), f"_combination_selection_criteria raises {e.exc_name} for `{cand}`")
            continue
        except Unsupported as e:
            raise AnalysisError(f"{csc.key}: outside the interpreted subset: {e}")
        if len(rec) != 1 or not (isinstance(res, _T) and res.key() == "CRITERION"):
            r3.require(False, key, csc.where(), f"_combination_selection_criteria must return selection_criteria(...) of the candidate; called it {len(rec)} time(s)")
            continue
        a, k = rec[0]
        names = ["loss", "TSS", "N", "num_coeffs", "model_selection_criteria", "penalty_multiplier", "penalty_power"]
        got = dict(zip(names, a))
        got.update(k)
        kk = {n: (v.key() if isinstance(v, _T) else repr(v)) for n, v in got.items()}
        w_err = "wRMSE_base" if cand == UNSPLIT else f"wRMSE[{cand}]"
        def _sum(what): return f"{what}[{comps[0]}]" if len(comps) == 1 else "sum(" + ", ".join(sorted(f"{what}[{c}]" for c in comps)) + ")"
        want = {"loss": f"div({w_err}, wRMSE_base)", "TSS": _sum("TSS"), "N": _sum("N"), "num_coeffs": repr(len(comps)), "model_selection_criteria": "criteria",
                "penalty_multiplier": "penalty_multiplier", "penalty_power": "penalty_power"}
        if cand == UNSPLIT and kk.get("loss") == "div(wRMSE[fw-su_sh_wi], wRMSE_base)":
            want["loss"] = kk["loss"]   # recomputing the unsplit error is the same number
        bad = {n: (kk.get(n), w) for n, w in want.items() if kk.get(n) != w}
        r3.require(not bad, key, csc.where(),
                   f"_combination_selection_criteria(`{cand}`): the criterion must be computed from the candidate's error relative to the unsplit model's, its components' N and TSS, and one penalty "
                   f"unit per component; differs in {bad}", sample={"candidate": cand, "arguments": kk})

    # ------------------------------------------------------------------ R13.5 arg-min by interpretation
    bc = method(chk, dm, "_best_combination")
    tests = [
        (["a", "b", "c"], {"a": 3.0, "b": 1.0, "c": 2.0}, "b"),
        (["a", "b", "c"], {"a": 1.0, "b": 1.0, "c": 2.0}, "a"),
        (["a", "b", "c"], {"a": 5.0, "b": 4.0, "c": -7.5}, "c"),
        (["a"], {"a": 10.0}, "a"),
        (["a", "b"], {"a": math.inf, "b": 1e9}, "b"),
        (["a", "b", "c", "d"], {"a": 0.5, "b": 0.25, "c": 0.25, "d": 0.3}, "b"),
    ]
    for combos, crit, want in tests:
        class SelfB(Stub):
            combinations = combos

            def _combination_selection_criteria(self_, c):
                return crit[c]
        it = Interp()
        env = ModuleEnv(chk.repo, bc.module, it, {"np": NS(inf=math.inf, nan=math.nan)})
        try:
            got = Function(bc.node, env, it)(SelfB(), False)
        except Unsupported as e:
            r5.require(False, f"{bc.key}|interpretable", bc.where(), f"cannot establish the arg-min: {e}")
            break
        r5.require(got == want, f"{bc.key}|argmin:{sorted(crit.items())}", bc.where(), f"_best_combination over criteria {crit} returned `{got}`; the first strict minimum is `{want}`",
                   sample={"criteria": crit, "returned": got})

    # ------------------------------------------------------------------ R13.6
    enum = chk.repo.cls("opendsm.eemeter.models.daily.utilities.settings", "ModelSelectionCriteria")
    members = {}
    for n, (a, v, s) in enum.attrs.items():
        if v is not None and const_str(v):
            members[n] = const_str(v)
    sc = chk.repo.func("opendsm.eemeter.models.daily.utilities.selection_criteria", "selection_criteria")
    # selection_criteria is interpreted for every member's value on symbolic scalars (comparisons decided both ways): every path must
    # return a value, divided by N exactly when the criterion is not an RMSE form
    from engine.absint import AbsBool, Oracle, Term, explore
    from engine.pyinterp import InterpRaised
    oracle = Oracle()

    class SNum(Term):
        __hash__ = Term.__hash__

        def _cmp(self, op, o):
            return AbsBool(f"{op}({self.key()}, {o.key() if isinstance(o, Term) else o!r})", oracle)

        def __le__(self, o): return self._cmp("le", o)
        def __lt__(self, o): return self._cmp("lt", o)
        def __ge__(self, o): return self._cmp("ge", o)
        def __gt__(self, o): return self._cmp("gt", o)
        def __eq__(self, o): return isinstance(o, Term) and o.key() == self.key()
        def __neg__(self): return SNum("neg", self)
        def __pow__(self, k): return SNum("pow", self, k)
        def __rpow__(self, k): return SNum("pow", k, self)
        def __mul__(self, o): return SNum("mul", self, o)
        def __rmul__(self, o): return SNum("mul", o, self)
        def __add__(self, o): return SNum("add", self, o)
        def __radd__(self, o): return SNum("add", o, self)
        def __sub__(self, o): return SNum("sub", self, o)
        def __rsub__(self, o): return SNum("sub", o, self)
        def __truediv__(self, o): return SNum("div", self, o)
        def __rtruediv__(self, o): return SNum("div", o, self)

    class NPn(Stub):
        inf = math.inf
        pi = math.pi
        nan = math.nan

        @staticmethod
        def sqrt(x): return SNum("sqrt", x) if isinstance(x, Term) else math.sqrt(x)

        @staticmethod
        def log(x): return SNum("log", x) if isinstance(x, Term) else math.log(x)

        @staticmethod
        def exp(x): return SNum("exp", x) if isinstance(x, Term) else math.exp(x)

    def run_sc(value):
        it = Interp()
        env = ModuleEnv(chk.repo, sc.module, it, {"np": NPn(), "numpy": NPn()})

        def run():
            try:
                return ("value", Function(sc.node, env, it)(SNum("loss"), SNum("TSS"), SNum("N"), SNum("K"), value, SNum("c0"), SNum("d0")))
            except InterpRaised as e:
                return ("raises", e.exc_name)
            except Unsupported as e:
                if "unbound name" in str(e):
                    return ("raises", "UnboundLocalError")
                raise
        return explore(run, oracle)

    def by_n(res) -> bool:
        return isinstance(res, Term) and res.op == "div" and isinstance(res.args[1], Term) and res.args[1].key() == "N"

    for nm, val in sorted(members.items()):
        for spelled in (val,):
            try:
                outs = run_sc(spelled)
            except Unsupported as e:
                raise AnalysisError(f"selection_criteria: outside the interpreted subset for `{spelled}`: {e}")
            fails = [(d, r) for d, r in outs if r[0] != "value" or not (isinstance(r[1], Term) or r[1] == math.inf)]
            r6.require(not fails, f"{sc.key}|member:{val}" + ("" if spelled == val else "|upper-case"), sc.where(),
                       f"ModelSelectionCriteria.{nm} = '{spelled}' has no value-producing branch in selection_criteria (selecting it would fail or return nothing): "
                       + (f"{fails[0][1]} when {[t for t, v in fails[0][0] if v]}" if fails else ""), sample={"member": spelled, "paths": len(outs)})
            if fails:
                continue
            rmse = val in ("rmse", "rmse_adj")
            wrong = [(d, r[1]) for d, r in outs if isinstance(r[1], Term) and by_n(r[1]) == rmse]
            r6.require(not wrong, f"{sc.key}|normalised-by-N:{val}" + ("" if spelled == val else "|upper-case"), sc.where(),
                       f"criterion `{spelled}` " + ("is an RMSE form and must not be divided by N again" if rmse else "must be normalised by N (information criteria are per data point)")
                       + (f"; returned {wrong[0][1].key()[:120]}" if wrong else ""))
    # the default criterion, read through the settings field census (constant evaluation: literal, enum member or named constant alike)
    from rules.c14 import field_census as _census
    _crit = _census(chk, chk.repo.cls("opendsm.eemeter.models.daily.utilities.settings", "Split_Selection_Definition")).get("criteria", {})
    r6.require(str(_crit.get("default")).lower() == "bic", "Split_Selection_Definition.criteria|default-bic", "settings.py", f"default split-selection criterion must be BIC; found {_crit.get('default')!r}")
