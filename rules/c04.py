"""C04 — disqualification gate is fail-closed and survives storage.

Decides, from the shape of fit()/predict() of every model family, that the work calls are reachable
exactly under the allowed valuations of the guard atoms, that the dedicated exception classes are
raised exactly under `dq and not ignore`, that nothing swallows them, that the poor-fit
disqualification is applied on every path out of fit, and that the disqualification list which is
serialised is the one the gate reads (including the ordering of snapshot vs. append).
"""
from __future__ import annotations

import ast
from typing import Dict, List, Optional, Set, Tuple

from engine import boolalg
from engine.cfg import CFG, ENTRY, EXIT, RAISE, feasible_reach, feasible_set
from engine.index import AnalysisError, ClassInfo, FuncInfo, attr_chain, calls_in, is_self_attr, unparse, walk_no_nested
from rules.common import (FAMILIES, exc_class, method, model_class, raise_class, self_calls, stores_to, try_ancestors)

FIT_WORK = {"_fit", "_adaptive_fit"}
PREDICT_WORK = {"_predict"}


def _flag_param(fi: FuncInfo) -> Optional[str]:
    c = [p for p in fi.params if "ignore" in p and "disqual" in p]
    return c[0] if len(c) == 1 else None


def _data_param(fi: FuncInfo) -> str:
    ps = [p for p in fi.params if p not in ("self", "cls")]
    if not ps:
        raise AnalysisError(f"{fi.key} has no data parameter")
    return ps[0]


def _mk_atomizer(fi: FuncInfo, data: str, flag: Optional[str], dq_text: str):
    def atomizer(e: ast.AST):
        s, neg = boolalg.strip_truthiness(e)
        t = unparse(s)
        if t == dq_text:
            return ("dq", neg)
        if flag is not None and isinstance(s, ast.Name) and s.id == flag:
            return ("ign", neg)
        if t == "self.is_fitted":
            return ("fitted", neg)
        if isinstance(s, ast.Call) and isinstance(s.func, ast.Name) and s.func.id == "isinstance" and len(s.args) == 2 and unparse(s.args[0]) == data:
            return ("inst", neg)
        if isinstance(s, ast.Compare) and len(s.ops) == 1 and isinstance(s.ops[0], (ast.NotEq, ast.Eq)):
            a, b = unparse(s.left), unparse(s.comparators[0])
            if ("self.baseline_timezone" in a and f"{data}.tz" in b) or ("self.baseline_timezone" in b and f"{data}.tz" in a):
                wrap = lambda z: z in ("self.baseline_timezone", f"{data}.tz", "str(self.baseline_timezone)", f"str({data}.tz)")
                if wrap(a) and wrap(b):
                    return ("tzne", neg != isinstance(s.ops[0], ast.Eq))
        return None
    return atomizer


def _work_nodes(fi: FuncInfo, names: Set[str]) -> List[ast.stmt]:
    return [st for st, _c in self_calls(fi, names) if st is not None]


def _analyse_gate(chk, rule, fam_name: str, fi: FuncInfo, kind: str, exc_name: str):
    """kind = 'fit' | 'predict'.  Returns dict of facts used by other rules."""
    data = _data_param(fi)
    flag = _flag_param(fi)
    where = fi.where()
    key0 = f"{fi.key}|{kind}-gate"
    if flag is None:
        rule.require(False, key0 + "|flag", where, f"{fi.key} has no ignore_disqualification parameter: the gate cannot be overridden / is not identifiable")
        return None
    dflt = fi.param_defaults().get(flag)
    rule.require(isinstance(dflt, ast.Constant) and dflt.value is False, key0 + "|default", where,
                 f"default of `{flag}` in {fi.key} must be False (fail-closed); found {unparse(dflt) if dflt is not None else 'no default'}")
    dq_text = f"{data}.disqualification" if kind == "fit" else "self.disqualification"
    atomizer = _mk_atomizer(fi, data, flag, dq_text)
    cfg = CFG(fi.node)
    work_names = FIT_WORK if kind == "fit" else PREDICT_WORK
    works = _work_nodes(fi, work_names)
    if not works:
        raise AnalysisError(f"no work call {sorted(work_names)} found in {fi.key}; the anchor moved")
    work_ids = {id(w) for w in works}
    exc = exc_class(chk, exc_name)
    gate_raises = [n for n in walk_no_nested(fi.node) if isinstance(n, ast.Raise) and raise_class(chk, fi, n) is exc]
    gate_ids = {id(r) for r in gate_raises}
    other_raises = {id(n) for n in walk_no_nested(fi.node) if isinstance(n, ast.Raise)} - gate_ids
    # no rebinding of the atoms' variables inside the method
    for txt in (flag, data):
        st = stores_to(fi, txt)
        rule.require(not st, f"{key0}|rebind:{txt}", fi.where(st[0]) if st else where,
                     f"`{txt}` is re-bound inside {fi.key}; the gate no longer tests the caller's value")
    if kind == "predict":
        st = stores_to(fi, "self.disqualification")
        rule.require(not st, f"{key0}|rebind:self.disqualification", fi.where(st[0]) if st else where,
                     f"`self.disqualification` is re-bound inside {fi.key} before/around the gate")
    atoms = ["dq", "ign"] if kind == "fit" else ["fitted", "dq", "ign", "inst", "tzne"]

    def allowed(env):
        ok = not (env["dq"] and not env["ign"])
        if kind == "predict":
            ok = ok and env["fitted"] and env["inst"] and not env["tzne"]
        return ok

    bad_rows = []
    for env in boolalg.assignments(atoms):
        ev = lambda t, env=env: boolalg.ev3(t, atomizer, env)
        reach = feasible_set(cfg, ev)
        reaches_work = bool(reach & work_ids)
        reaches_exit = EXIT in reach
        row = " ".join(f"{a}={int(env[a])}" for a in atoms)
        blocked_by_gate = env["dq"] and not env["ign"]
        if kind == "fit":
            if blocked_by_gate:
                if reaches_work or reaches_exit:
                    bad_rows.append((row, "disqualified data and no override, yet " + ("the fitting call" if reaches_work else "a normal return") + " is reachable", "dq-open"))
                if not (reach & gate_ids):
                    bad_rows.append((row, f"no `raise {exc_name}` reachable under dq and not ignore", "dq-noraise"))
                if RAISE in reach and (reach & other_raises):
                    pass  # earlier guards (type check) may raise first; allowed
            else:
                if not reaches_work:
                    bad_rows.append((row, "fitting call unreachable although the gate condition is false (over-blocking: the override / a clean dataset is refused)", "over-block"))
                if reach & gate_ids:
                    bad_rows.append((row, f"`raise {exc_name}` reachable although not (dq and not ignore)", "raise-wrong"))
        else:
            if not allowed(env):
                if reaches_work or reaches_exit:
                    which = [n for n, v in (("unfitted model", not env["fitted"]), ("disqualified model without override", blocked_by_gate),
                                            ("foreign data type", not env["inst"]), ("timezone differs from baseline", env["tzne"])) if v]
                    kindkey = "tz-open" if which == ["timezone differs from baseline"] else (
                        "dq-open" if which == ["disqualified model without override"] else "guard-open")
                    bad_rows.append((row, f"{' + '.join(which)}: prediction ({'_predict call' if reaches_work else 'normal return'}) is reachable", kindkey))
            else:
                if not reaches_work:
                    bad_rows.append((row, "prediction unreachable although every guard condition is satisfied (over-blocking)", "over-block"))
            if blocked_by_gate and env["fitted"] and env["inst"] and not env["tzne"]:
                # only the disqualification is wrong: must raise the dedicated class (and nothing else)
                if not (reach & gate_ids):
                    bad_rows.append((row, f"no `raise {exc_name}` reachable for a disqualified model without override", "dq-noraise"))
            if not blocked_by_gate and (reach & gate_ids):
                bad_rows.append((row, f"`raise {exc_name}` reachable although not (dq and not ignore)", "raise-wrong"))
    # group by kind so the timezone finding is keyed separately from the rest
    kinds = {}
    for row, msg, k in bad_rows:
        kinds.setdefault(k, []).append((row, msg))
    n_rows = 2 ** len(atoms)
    rule.inst(f"{key0}|truth-table[{n_rows} rows]", {"function": fi.key, "atoms": atoms, "rows": n_rows,
                                                      "work": [unparse(w)[:80] for w in works]})
    for k, rows in kinds.items():
        rule.violate(f"{key0}|{k}", fi.where(gate_raises[0]) if gate_raises else where,
                     f"{fam_name}.{kind}: {rows[0][1]} (e.g. at {rows[0][0]}; {len(rows)} valuation(s))",
                     {"rows": rows[:16]})
    return {"cfg": cfg, "works": works, "gate_raises": gate_raises, "data": data, "flag": flag, "atomizer": atomizer}


def _check_delegation(chk, rule, fam_name, fi: FuncInfo, target_name: str) -> Optional[FuncInfo]:
    """fit() overrides that only forward to super().fit must pass data and flag through unchanged."""
    calls = [c for _st, c in self_calls(fi, {target_name}) if isinstance(c.func.value, ast.Call)]
    if not calls:
        return None
    c = calls[0]
    data = _data_param(fi)
    flag = _flag_param(fi)
    sup = chk.res.resolve_call(fi, c)
    tgt = sup[0] if sup and isinstance(sup[0], FuncInfo) else None
    key = f"{fi.key}|forward"
    if tgt is None or flag is None:
        rule.require(False, key, fi.where(c), f"{fi.key}: cannot resolve delegation target / flag parameter")
        return None
    tparams = [p for p in tgt.params if p != "self"]
    bound: Dict[str, ast.AST] = {}
    for p, a in zip(tparams, c.args):
        bound[p] = a
    for k in c.keywords:
        if k.arg:
            bound[k.arg] = k.value
    tflag = _flag_param(tgt)
    tdata = _data_param(tgt)
    ok_flag = tflag in bound and isinstance(bound[tflag], ast.Name) and bound[tflag].id == flag
    ok_data = tdata in bound and isinstance(bound[tdata], ast.Name) and bound[tdata].id == data
    rule.require(ok_flag, key + "|flag", fi.where(c),
                 f"{fi.key} must forward `{flag}` unchanged to {tgt.key}; found {unparse(bound.get(tflag)) or 'not passed (callee default False silently kept / override ignored)'}")
    rule.require(ok_data, key + "|data", fi.where(c), f"{fi.key} must forward `{data}` unchanged to {tgt.key}")
    # the forwarding statement must be unconditional and its value returned
    st = fi.module.enclosing_stmt(c)
    cfg = CFG(fi.node)
    rule.require(cfg.must_pass_through([st]), key + "|unconditional", fi.where(c), f"{fi.key}: a path returns without delegating to {tgt.key}")
    dflt = fi.param_defaults().get(flag)
    rule.require(isinstance(dflt, ast.Constant) and dflt.value is False, key + "|default", fi.where(),
                 f"default of `{flag}` in {fi.key} must be False")
    return tgt


def run(chk):
    chk.explanation = (
        "Per model family the resolved fit()/predict() methods are turned into statement CFGs; the guard tests are evaluated "
        "in three-valued logic over the atoms {dq, ign, fitted, inst, tzne} for every valuation (4 resp. 32 rows) and the sets "
        "of reachable work calls / normal returns / dedicated raise statements are compared with the property's table. "
        "Raise-site census, try/except enclosure, must-pass-through of the poor-fit disqualification and writer/reader agreement "
        "of the `disqualification` key (with snapshot-vs-append ordering) complete the check.")
    chk.not_decided += [
        "'otherwise returns a fitted model': numerical success of the optimisers (fails in this sandbox for environmental reasons no source rule can see)",
        "the sufficiency verdicts that populate data.disqualification (C10) and the threshold semantics of the poor-fit test (C16)",
    ]
    chk.trusted += ["a statement-level CFG without implicit exception edges from calls: a call is assumed to return or to propagate its exception out of the method",
                    "truthiness of a list == non-empty"]
    r1 = chk.rule("R04.1", "fit gate: work reachable iff not(dq and not ign); DataSufficiencyError raised iff dq and not ign; flag default False; overrides forward the flag", 4)
    r2 = chk.rule("R04.2", "predict gate: DisqualifiedModelError raised iff dq and not ign (other guards satisfied); override honoured", 4)
    r3 = chk.rule("R04.3", "companion guards: unfitted / foreign type / timezone mismatch never reach _predict; isinstance tuple is the family's data classes", 4)
    r4 = chk.rule("R04.4", "census: the two exception classes are raised only at the gates; no try/except around a gate can swallow them", 6)
    r5 = chk.rule("R04.5", "poor-fit disqualification: every path from the fitting call to the return passes the guarded append to self.disqualification; the gate has the published truth table (undefined metric never in the model's favour)", 5)
    r6 = chk.rule("R04.6", "persistence: serialised `disqualification` is sourced from self.disqualification at/after its last mutation in fit, and read back into self.disqualification as warning objects", 4)

    dse = exc_class(chk, "DataSufficiencyError")
    dme = exc_class(chk, "DisqualifiedModelError")
    gate_functions: Dict[str, FuncInfo] = {}
    analysed: Dict[Tuple[str, str], dict] = {}

    for fam in FAMILIES:
        cls = model_class(chk, fam)
        name = fam["name"]
        # ---------------- fit
        fit = method(chk, cls, "fit")
        tgt = _check_delegation(chk, r1, name, fit, "fit") if fit.cls is cls and self_calls(fit, {"fit"}) else None
        gate_fit = tgt or fit
        if (gate_fit.key, "fit") not in analysed:
            analysed[(gate_fit.key, "fit")] = _analyse_gate(chk, r1, name, gate_fit, "fit", "DataSufficiencyError")
        else:
            r1.inst(f"{fit.key}|fit-gate|inherits:{gate_fit.key}")
        gate_functions[gate_fit.key] = gate_fit
        # ---------------- predict
        pred = method(chk, cls, "predict")
        if (pred.key, "predict") not in analysed:
            before = sum(len(x.findings) for x in (r2,))
            info = _analyse_gate(chk, r2, name, pred, "predict", "DisqualifiedModelError")
            analysed[(pred.key, "predict")] = info
            # move companion-guard findings to R04.3 (keyed separately: guard-open / tz-open)
            keep = []
            for f in r2.findings:
                if f.key.endswith("|guard-open") or f.key.endswith("|tz-open"):
                    f.rule = "R04.3"
                    r3.findings.append(f)
                else:
                    keep.append(f)
            r2.findings = keep
            r3.inst(f"{pred.key}|companion-guards")
            # isinstance tuple = the family's data classes
            data = _data_param(pred)
            found = None
            for c in calls_in(pred.node):
                if isinstance(c.func, ast.Name) and c.func.id == "isinstance" and len(c.args) == 2 and unparse(c.args[0]) == data:
                    found = c
            if found is None:
                r3.require(False, f"{pred.key}|isinstance", pred.where(), f"{pred.key}: no isinstance check of `{data}` (foreign data types are not rejected)")
            else:
                elts = found.args[1].elts if isinstance(found.args[1], (ast.Tuple, ast.List)) else [found.args[1]]
                got = set()
                unresolved = []
                for e in elts:
                    c = None
                    if is_self_attr(e):
                        hit = chk.res.find_attr(cls, e.attr)
                        if hit is not None and hit[1][1] is not None:
                            c = chk.res.resolve_name(hit[0].module, hit[1][1])
                    else:
                        c = chk.res.resolve_name(pred.module, e)
                    if isinstance(c, ClassInfo):
                        got.add((c.module.name, c.name))
                    else:
                        unresolved.append(unparse(e))
                r3.require(got == fam["data"] and not unresolved, f"{cls.key}|isinstance-classes", pred.where(found),
                           f"{cls.key}.predict accepts data types {sorted(x[1] for x in got) + unresolved}; the family's own are {sorted(x[1] for x in fam['data'])}")
        else:
            r2.inst(f"{cls.key}|predict-gate|inherits:{pred.key}")
        gate_functions[pred.key] = pred

    # ---------------- R04.4 census + try/except
    allowed_sites: Set[int] = set()
    for (k, kind), info in analysed.items():
        if info:
            for r in info["gate_raises"]:
                allowed_sites.add(id(r))
    n_sites = 0
    for fi in chk.repo.all_functions():
        for n in walk_no_nested(fi.node):
            if isinstance(n, ast.Raise):
                rc = raise_class(chk, fi, n)
                if rc is dse or rc is dme:
                    n_sites += 1
                    r4.require(id(n) in allowed_sites, f"{fi.key}|raise {rc.name}", fi.where(n),
                               f"`raise {rc.name}` outside the fit/predict gates (in {fi.key}): the exception no longer means 'dq and not ignore'")
                    for t in try_ancestors(fi, n):
                        for h in t.handlers:
                            hc = unparse(h.type) if h.type is not None else "<bare>"
                            swallow = h.type is None or any(x in hc for x in ("Exception", "BaseException", "EEMeterError", rc.name))
                            r4.require(not swallow, f"{fi.key}|try-swallows {rc.name}", fi.where(h),
                                       f"`except {hc}` encloses the gate's `raise {rc.name}` in {fi.key}: the gate can be swallowed")
            # handlers anywhere in the package that name the gate exceptions
            if isinstance(n, ast.ExceptHandler) and n.type is not None:
                names = [unparse(x) for x in (n.type.elts if isinstance(n.type, ast.Tuple) else [n.type])]
                for nm in names:
                    if nm.split(".")[-1] in ("DataSufficiencyError", "DisqualifiedModelError"):
                        reraises = any(isinstance(x, ast.Raise) for x in ast.walk(n))
                        r4.require(reraises, f"{fi.key}|except {nm}", fi.where(n),
                                   f"{fi.key} catches {nm} without re-raising: a closed gate is turned into a normal return")
    # a try/except inside gate-bearing methods whose body contains the work call or gate and catches broadly
    for fi in gate_functions.values():
        for n in walk_no_nested(fi.node):
            if isinstance(n, ast.Try):
                body_has_gate = any(isinstance(x, ast.Raise) and id(x) in allowed_sites for st in n.body for x in ast.walk(st))
                if body_has_gate:
                    for h in n.handlers:
                        hc = unparse(h.type) if h.type is not None else "<bare>"
                        swallow = h.type is None or any(x in hc for x in ("Exception", "BaseException", "EEMeterError", "DataSufficiencyError", "DisqualifiedModelError"))
                        r4.require(not swallow, f"{fi.key}|try-around-gate", fi.where(h), f"`except {hc}` around the gate in {fi.key}")
        r4.inst(f"{fi.key}|try-scan")

    # ---------------- R04.5 poor-fit disqualification is applied on all paths
    # ... and on the statistic of *this* fit: the same daily model object fitted twice (rules/daily_errors.refit_outcomes, shared with C16)
    from rules.common import DAILY_MODEL as _DM, method as _method
    from rules.daily_errors import refit_outcomes as _refit
    _dm = chk.repo.cls(*_DM)
    _fitm, _gem = _method(chk, _dm, "_fit"), _method(chk, _dm, "_get_error_metrics")
    _ro = _refit(chk, _dm, _fitm, _gem)
    _cv = _ro.get("CVRMSE") if isinstance(_ro, dict) else None
    r5.require("raises" not in _ro and bool(_cv) and _cv["ok"], f"{_fitm.key}|refit|gate-statistic", _fitm.where(),
               f"the CVRMSE the poor-fit gate reads after a second fit of the same object is {_cv['value'] if _cv else _ro} "
               + ("(of the earlier fit: a poor second fit is not disqualified)" if _cv and _cv.get("stale") else ""), sample={"scenario": "refit"})
    for key, fi in gate_functions.items():
        if fi.name != "fit":
            continue
        info = analysed.get((fi.key, "fit"))
        if not info:
            continue
        cfg: CFG = info["cfg"]
        appends = []
        for st in cfg.stmts():
            if isinstance(st, ast.Expr) and isinstance(st.value, ast.Call) and isinstance(st.value.func, ast.Attribute) \
                    and st.value.func.attr in ("append", "extend") and unparse(st.value.func.value) == "self.disqualification":
                appends.append(st)
        if not appends:
            r5.require(False, f"{fi.key}|poor-fit-append", fi.where(), f"{fi.key}: no append to self.disqualification after fitting: a poor fit is never disqualified")
            continue
        for ap in appends:
            # enclosing If that decides the append
            # the tests that must have gone a particular way whenever the append runs (enclosing ifs *and* earlier guard clauses
            # such as `if acceptable: return self`), most recent first
            facts = cfg.must_facts().get(id(ap), frozenset())
            ifs = [cfg.stmt_of[f_.test_id] for f_ in facts if isinstance(cfg.stmt_of.get(f_.test_id), ast.If)]
            works_ids = {id(w) for w in info["works"]}
            # only tests evaluated after the fitting call can be the poor-fit test
            ifs = [a for a in ifs if any(cfg.paths_avoiding(id(w), id(a), set()) for w in info["works"])]
            ifs.sort(key=lambda a: -getattr(a, "lineno", 0))
            if not ifs:
                r5.require(False, f"{fi.key}|poor-fit-unconditional", fi.where(ap), f"{fi.key}: disqualification appended unconditionally")
                continue
            g2 = ifs[0]
            ok_all = True
            for w in info["works"]:
                if cfg.paths_avoiding(id(w), EXIT, {id(g2)}):
                    ok_all = False
            r5.require(ok_all, f"{fi.key}|poor-fit-must-pass", fi.where(g2),
                       f"{fi.key}: a path from the fitting call to the return bypasses the poor-fit test `{unparse(g2.test)[:80]}`")
            # the gate dominates the append and the append is not under further conditions
            inner = [a for a in ifs if a is not g2]
            r5.require(len(ifs) == 1, f"{fi.key}|poor-fit-extra-guard", fi.where(ap),
                       f"{fi.key}: the poor-fit append is nested under additional conditions {[unparse(a.test)[:40] for a in ifs[:-1]]}")
            # and it happens after the work
            r5.require(all(cfg.paths_avoiding(id(w), id(ap), set()) for w in info["works"]), f"{fi.key}|poor-fit-after-work", fi.where(ap),
                       f"{fi.key}: the poor-fit append is not downstream of the fitting call")

    # the gate expressions themselves (same function as C16/R16.3): an undefined metric must not open the gate
    from rules.c16 import check_poor_fit_gates
    check_poor_fit_gates(chk, r5)

    # ---------------- R04.6 persistence and snapshot ordering
    _persistence(chk, r6)


def _reads_attr(fi: FuncInfo, attr: str) -> List[ast.AST]:
    return [n for n in walk_no_nested(fi.node) if is_self_attr(n, attr) and isinstance(n.ctx, ast.Load)]


def _persistence(chk, r6):
    from rules.common import DAILY_MODEL, HOURLY_MODEL
    for modname, clsname in (DAILY_MODEL, HOURLY_MODEL):
        cls = chk.repo.cls(modname, clsname)
        to_dict = method(chk, cls, "to_dict")
        from_dict = method(chk, cls, "from_dict")
        fit = method(chk, cls, "fit")
        # (a) writer: which functions read self.disqualification and are on the serialisation path?
        reach_td = [f for f in chk.res.reachable([to_dict]) if f.cls is not None and cls in chk.res.mro(f.cls) or f is to_dict]
        live_readers = [f for f in reach_td if f.cls is not None and chk.res.is_subclass(cls, f.cls) and _reads_attr(f, "disqualification")]
        snapshot_readers = []
        if not live_readers:
            # snapshot idiom: some method stores a structure built from self.disqualification (e.g. self.params)
            for f in cls.methods.values():
                if f.name in ("fit", "predict", "__init__", "from_dict", "from_json", "from_2_0_dict"):
                    continue
                reads = _reads_attr(f, "disqualification")
                if reads and any(isinstance(n, ast.keyword) or True for n in reads):
                    # must be an actual serialisation: value flows into a dict/ctor keyed 'disqualification'
                    txt = unparse(f.node)
                    if "'disqualification'" in txt or "disqualification=" in txt:
                        snapshot_readers.append(f)
        r6.require(bool(live_readers or snapshot_readers), f"{cls.key}|writer-source", to_dict.where(),
                   f"{cls.key}: nothing on the serialisation path reads self.disqualification — a disqualified model is stored as qualified")
        # the value written under the key 'disqualification' derives from self.disqualification
        for f in live_readers + snapshot_readers:
            ok = False
            for n in walk_no_nested(f.node):
                if isinstance(n, ast.Dict):
                    for k, v in zip(n.keys, n.values):
                        if isinstance(k, ast.Constant) and k.value == "disqualification" and "self.disqualification" in unparse(v):
                            ok = True
                if isinstance(n, ast.keyword) and n.arg == "disqualification" and "self.disqualification" in unparse(n.value):
                    ok = True
                if isinstance(n, ast.Assign) and "self.disqualification" in unparse(n.value) and any(
                        isinstance(t, ast.Subscript) and isinstance(t.slice, ast.Constant) and t.slice.value == "disqualification" for t in n.targets):
                    ok = True
            r6.require(ok, f"{f.key}|writer-key", f.where(), f"{f.key}: key `disqualification` is not written from self.disqualification")
        # (b) ordering: if the writer is a snapshot taken during fit, every mutation of self.disqualification in fit
        # must come before the snapshot call.
        if not live_readers and snapshot_readers:
            cfg = CFG(fit.node)
            snap_keys = {f.key for f in snapshot_readers}
            snap_stmts = []
            for st in cfg.stmts():
                if isinstance(st, (ast.If, ast.For, ast.While, ast.Try, ast.With)):
                    continue
                for c in calls_in(st) if not isinstance(st, ast.Expr) or True else []:
                    for t in chk.res.resolve_call(fit, c):
                        if isinstance(t, FuncInfo):
                            reach = {x.key for x in chk.res.reachable([t])}
                            if reach & snap_keys:
                                snap_stmts.append(st)
            muts = []
            for st in cfg.stmts():
                if isinstance(st, ast.Expr) and isinstance(st.value, ast.Call) and isinstance(st.value.func, ast.Attribute) \
                        and st.value.func.attr in ("append", "extend", "insert", "clear", "remove", "pop") \
                        and unparse(st.value.func.value) == "self.disqualification":
                    muts.append(st)
            if not snap_stmts:
                r6.require(False, f"{cls.key}|snapshot-site", fit.where(), f"{cls.key}.fit never takes the serialisation snapshot ({sorted(snap_keys)})")
            for mu in muts:
                stale = False
                for s in snap_stmts:
                    # is there a path snapshot -> mutation with no later snapshot before EXIT?
                    if s is not mu and cfg.paths_avoiding(id(s), id(mu), set()):
                        later = [s2 for s2 in snap_stmts if s2 is not mu and cfg.paths_avoiding(id(mu), id(s2), set())]
                        # every path from the mutation to EXIT must pass a later snapshot
                        if not later or cfg.paths_avoiding(id(mu), EXIT, {id(x) for x in later}):
                            stale = True
                r6.require(not stale, f"{fit.key}|snapshot-before-append", fit.where(mu),
                           f"{fit.key}: `{unparse(mu)[:70]}` happens after the serialisation snapshot ({', '.join(sorted(k.split(':')[1] for k in snap_keys))}) "
                           f"and the snapshot is not refreshed: the stored model loses this disqualification, so a reloaded model predicts without raising",
                           {"snapshot_calls": [unparse(s)[:80] for s in snap_stmts]})
        # (c) reader: from_dict assigns <model>.disqualification from the document's key, decoded to warning objects
        ok_reader = False
        detail = None
        from rules.common import attr_stores, flows_from

        def _doc_key(n):
            # <doc>.get('disqualification') / <doc>['disqualification'] / <doc>.disqualification
            if isinstance(n, ast.Call) and isinstance(n.func, ast.Attribute) and n.func.attr == "get" and n.args and isinstance(n.args[0], ast.Constant) and n.args[0].value == "disqualification":
                return True
            if isinstance(n, ast.Subscript) and isinstance(n.slice, ast.Constant) and n.slice.value == "disqualification":
                return True
            return isinstance(n, ast.Attribute) and n.attr == "disqualification" and isinstance(n.ctx, ast.Load)
        from rules.common import returned_names
        objs = returned_names(from_dict)
        for st, recv, v in attr_stores(from_dict, "disqualification", self_ok=False):
            detail = f"{unparse(recv)}.disqualification = {unparse(v)[:80]}"
            # the list must land on the very object that is handed back (a store on the class, or on another object, is shared
            # between all models of the family / lost)
            if isinstance(recv, ast.Name) and recv.id in objs and flows_from(from_dict, st, v, _doc_key):
                ok_reader = True
        for st, recv, v in attr_stores(from_dict, "disqualification", self_ok=True):
            if isinstance(recv, ast.Name) and recv.id in ("cls", from_dict.cls.name if from_dict.cls else "cls"):
                r6.require(False, f"{from_dict.key}|reader-stores-on-class", from_dict.where(st),
                           f"{from_dict.key}: `{unparse(st)[:90]}` stores the loaded disqualification on the *class*: every model of the family then shares the list of whichever stored model was loaded last "
                           f"(a disqualified model predicts after a qualified one was loaded)")
        r6.require(ok_reader, f"{from_dict.key}|reader-key", from_dict.where(),
                   f"{from_dict.key}: the model's `disqualification` is not restored from the document's `disqualification` entry (found: {detail})")
        # decoded into objects (truthiness preserved: list of dicts or of EEMeterWarning, never dropped/emptied)
        r6.inst(f"{from_dict.key}|reader-decoding")
