"""Symbolic round trip of the hourly model's persisted state (C01): HourlyModel.to_dict is interpreted from its AST on a model object
whose fitted attributes are symbols, the document it produces is (optionally) pushed through the JSON data model (object keys become
strings, tuples become lists), HourlyModel.from_dict is interpreted on that document, and every restored attribute is compared with
the symbol it started from.

The few library operations on the way are given their value semantics: np.array(x.tolist()) and np.array(x) are x; a list holding
x[0] .. x[n-1] in order, made an array, is x (n = the number of fitted features); a frame rebuilt from reset_index().values.tolist()
with the same columns and re-indexed on the same index columns is the frame.  What cannot be normalised stays a term and is
reported as a difference."""
from __future__ import annotations

from typing import Any, Dict, List, Optional, Tuple

from engine.absint import AbsObj, ModuleEnv, Term
from engine.index import AnalysisError
from engine.pyinterp import Function, Interp, InterpRaised, Stub, StubCall, Unsupported

HS = "opendsm.eemeter.models.hourly.settings"


class SV(Term):
    """A symbolic fitted value.  n: number of entries when it is a vector of known length."""
    __hash__ = Term.__hash__

    def __init__(self, op, *args, n: Optional[int] = None):
        super().__init__(op, *args)
        self.n = n

    def __eq__(self, o):
        return isinstance(o, Term) and o.key() == self.key()

    def tolist(self): return SV("tolist", self)
    def squeeze(self): return SV("squeeze", self)
    def reset_index(self): return SV("reset_index", self)
    def copy(self, deep=True): return self
    def round(self, *a): return SV("round", self, *a)
    def astype(self, t): return SV("astype", self, getattr(t, "__name__", repr(t)))

    @property
    def values(self): return SV("values", self)

    def __getitem__(self, i):
        if isinstance(i, (int, str)) and not isinstance(i, bool):
            return SV("item", self, i)
        raise Unsupported("symbolic value[...] with a key that is neither a position nor a name")

    def __round__(self, n=None):
        return SV("round", self, n)

    def set_index(self, cols=None, **k):
        if cols is None and "keys" in k:
            cols = k.pop("keys")       # DataFrame.set_index(keys=...)
        if k or cols is None:
            raise Unsupported("set_index() with keyword arguments on a symbolic frame")
        # DataFrame(X.reset_index().values.tolist(), columns=<index columns of X> + <columns of X>).set_index(<index columns of X>) is X
        if self.op == "DataFrame":
            data, columns = self.args
            if isinstance(data, SV) and data.key().startswith("tolist(values(reset_index(") and isinstance(data.args[0].args[0].args[0], SFrameSym):
                fr = data.args[0].args[0].args[0]
                if list(columns) == fr.index_cols + fr.cols and list(cols) == fr.index_cols:
                    return fr
        return SV("set_index", self, tuple(cols) if isinstance(cols, list) else cols)

    def _abs_len(self):
        if self.n is None:
            raise Unsupported("len() of a symbolic value of unknown length")
        return self.n


class SFrameSym(SV):
    """A symbolic frame with known index columns and value columns."""

    def __init__(self, name: str, index_cols: List[str], cols: List[str]):
        super().__init__(name)
        self.index_cols, self.cols = list(index_cols), list(cols)


class NPr(Stub):
    @staticmethod
    def array(v, **k):
        if isinstance(v, SV):
            if v.op == "tolist":
                return v.args[0]
            return v
        if isinstance(v, (list, tuple)):
            items = list(v)
            if items and all(isinstance(x, SV) and x.op == "item" for x in items):
                base = items[0].args[0]
                if all(x.args[0] is base or x.args[0] == base for x in items) and isinstance(base, SV) and base.n == len(items) and [x.args[1] for x in items] == list(range(len(items))):
                    return base
            return SV("array", "[" + ", ".join(x.key() if isinstance(x, Term) else repr(x) for x in items) + "]")
        raise Unsupported("np.array of " + type(v).__name__)

    asarray = array

    def __getattr__(self, name):
        # any other numpy function: recorded by name (the result is a term no symbol of the saved state is equal to)
        if name.startswith("_"):
            raise AttributeError(name)
        return StubCall(lambda *a, **k: SV(f"np.{name}", *[x if isinstance(x, Term) else repr(x) for x in a], *[f"{kk}={v!r}" for kk, v in sorted(k.items())]))


class PDr(Stub):
    @staticmethod
    def DataFrame(data=None, columns=None, **k):
        if k:
            raise Unsupported("pd.DataFrame with further keyword arguments in the reader")
        return SV("DataFrame", data, tuple(columns) if columns is not None else None)


class EnumTok(Stub):
    def __init__(self, cls: str, member: str, value: Any):
        self.cls, self.member, self.value = cls, member, value

    def __eq__(self, o):
        if isinstance(o, EnumTok):
            return (o.cls, o.member) == (self.cls, self.member)
        return o == self.value

    def __ne__(self, o):
        return not self.__eq__(o)

    def __hash__(self):
        return hash(("EnumTok", self.cls, self.member))

    def __repr__(self):
        return f"{self.cls}.{self.member}"


class RecObj(Stub):
    """A pydantic-like record: fields as attributes, model_dump() -> dict (nested records dumped too)."""
    _settable = True

    def __init__(self, kind: str, fields: Dict[str, Any]):
        self._kind = kind
        for k, v in fields.items():
            setattr(self, k, v)

    def _fields(self):
        return {k: v for k, v in self.__dict__.items() if not k.startswith("_")}

    def model_dump(self, **k):
        return {k_: _dump(v) for k_, v in self._fields().items()}

    dict = model_dump


def _dump(v):
    if isinstance(v, RecObj):
        return v.model_dump()
    if isinstance(v, dict):
        return {k: _dump(x) for k, x in v.items()}
    if isinstance(v, (list, tuple)):
        return [_dump(x) for x in v]
    return v


def json_pass(v):
    """The JSON data model: object keys are strings, sequences are lists."""
    if isinstance(v, dict):
        return {(k if isinstance(k, str) else str(k)): json_pass(x) for k, x in v.items()}
    if isinstance(v, (list, tuple)):
        return [json_pass(x) for x in v]
    if isinstance(v, EnumTok):
        return v.value
    return v


def _sorted_keys(v):
    """json.dumps(..., sort_keys=True): every object of the text lists its members in key order, and so does the parsed document."""
    if isinstance(v, dict):
        return {k: _sorted_keys(v[k]) for k in sorted(v, key=str)}
    if isinstance(v, list):
        return [_sorted_keys(x) for x in v]
    return v


class JsonText(Stub):
    """The text json.dumps produced, kept as the document a parser reads back from it."""

    def __init__(self, doc):
        self.doc = doc


class JsonNS(Stub):
    """The json module as far as the model writers / readers use it."""

    @staticmethod
    def dumps(obj, *a, **k):
        extra = set(k) - {"sort_keys", "indent", "separators", "ensure_ascii", "allow_nan"}
        if a or extra:
            raise Unsupported(f"json.dumps with {sorted(extra) or 'positional options'}")
        doc = json_pass(_dump(obj))
        sk = k.get("sort_keys", False)
        if not isinstance(sk, bool):
            raise Unsupported("json.dumps(sort_keys=<not a constant>)")
        return JsonText(_sorted_keys(doc) if sk else doc)

    @staticmethod
    def loads(text, *a, **k):
        if a or k or not isinstance(text, JsonText):
            raise Unsupported("json.loads of something json.dumps did not produce, or with options")
        return text.doc


def through_text(chk, td, doc):
    """The document as the reader's from_dict receives it when the model goes through to_json() / from_json(): both wrappers are interpreted
    (json stand-in above; `self.to_dict()` hands back `doc`, `cls.from_dict(d)` captures d).  Without such wrappers: the JSON data model only."""
    cls = td.cls
    tj = chk.res.find_method(cls, "to_json") if cls is not None else None
    fj = chk.res.find_method(cls, "from_json") if cls is not None else None
    if tj is None or fj is None:
        return json_pass(doc)
    it = Interp(step_limit=20_000)
    me = AbsObj({cls.name}, to_dict=StubCall(lambda *a, **k: doc))
    text = Function(tj.node, ModuleEnv(chk.repo, tj.module, it, {"json": JsonNS()}), it)(me)
    if not isinstance(text, JsonText):
        raise Unsupported("to_json does not return the text json.dumps produced")
    got = {}

    def from_dict(d, *a, **k):
        got["doc"] = d
        return "<model>"
    klass = AbsObj({cls.name}, from_dict=StubCall(from_dict))
    it2 = Interp(step_limit=20_000)
    r = Function(fj.node, ModuleEnv(chk.repo, fj.module, it2, {"json": JsonNS()}), it2)(klass, text)
    if "doc" not in got or r != "<model>":
        raise Unsupported("from_json does not return cls.from_dict(<parsed document>)")
    return got["doc"]


def _lower(v):
    return v.lower().strip() if isinstance(v, str) else v


def _lower_keys(v):
    if isinstance(v, dict):
        return {_lower(k): _lower_keys(x) for k, x in v.items()}
    return v


def _lower_typed(v, ann):
    """pydantic's str_to_lower acts on every value validated as `str`: follow the annotation down to the str-typed positions."""
    import ast as _ast
    if v is None or ann is None:
        return v
    if isinstance(ann, _ast.Name) and ann.id == "str":
        return _lower(v)
    if isinstance(ann, _ast.Constant) and isinstance(ann.value, str):
        try:
            return _lower_typed(v, _ast.parse(ann.value, mode="eval").body)
        except SyntaxError:
            return v
    if isinstance(ann, _ast.BinOp) and isinstance(ann.op, _ast.BitOr):   # X | None
        for side in (ann.left, ann.right):
            if not (isinstance(side, _ast.Constant) and side.value is None):
                return _lower_typed(v, side)
        return v
    if isinstance(ann, _ast.Subscript):
        head = ann.value.attr if isinstance(ann.value, _ast.Attribute) else getattr(ann.value, "id", "")
        args = list(ann.slice.elts) if isinstance(ann.slice, _ast.Tuple) else [ann.slice]
        if head == "Optional":
            return _lower_typed(v, args[0])
        if head == "Union":
            real = [a for a in args if not (isinstance(a, _ast.Constant) and a.value is None)]
            return _lower_typed(v, real[0]) if len(real) == 1 else v
        if head in ("list", "List", "Sequence", "tuple", "Tuple", "set", "Set") and isinstance(v, (list, tuple)):
            return [_lower_typed(x, args[0]) for x in v]
        if head in ("dict", "Dict", "Mapping") and isinstance(v, dict) and len(args) == 2:
            return {_lower_typed(k, args[0]): _lower_typed(x, args[1]) for k, x in v.items()}
    return v


def _pydantic_normalise(chk, ci, fields: Dict[str, Any]) -> Dict[str, Any]:
    """What opendsm.common.base_settings.BaseSettings does to the values a model is built from (read from that class: the before
    validator lower-cases every string key of nested dicts, the `*` field validator lower-cases plain string values, and the config's
    str_to_lower lower-cases every value validated as `str`); applies when `ci` derives from it."""
    mro = chk.res.mro(ci)
    base = [k for k in mro if k.name == "BaseSettings"]
    if not base:
        return fields
    from engine.index import unparse
    cfg = base[0].attrs.get("model_config")
    to_lower = cfg is not None and cfg[1] is not None and "str_to_lower=True" in unparse(cfg[1]).replace(" ", "")
    before = any(m.startswith("__lowercase_property_keys") or m == "lowercase_values" for m in base[0].methods) or \
        any("lowercase" in m for m in base[0].methods)
    out = {}
    for k, v in fields.items():
        if before:
            v = _lower(_lower_keys(v))
        if to_lower:
            ann = None
            for c in mro:
                if k in c.attrs and c.attrs[k][0] is not None:
                    ann = c.attrs[k][0]
                    break
            v = _lower_typed(v, ann)
        out[_lower(k) if before else k] = v
    return out


class SettingsNS(Stub):
    """Stand-in for the hourly settings module: enums hand out member tokens, every other class builds a record."""

    def __init__(self, chk):
        self._chk = chk

    def __getattr__(self, name):
        if name.startswith("_"):
            raise AttributeError(name)
        mod = self._chk.repo.modules.get(HS)
        ci = mod.classes.get(name) if mod else None
        if ci is None:
            raise AttributeError(name)
        from engine.index import unparse
        if any(unparse(b).split(".")[-1] == "Enum" for b in ci.node.bases):
            import ast as _ast
            members = {}
            for n, (ann, val, st) in ci.attrs.items():
                try:
                    members[n] = EnumTok(name, n, _ast.literal_eval(val))
                except Exception:
                    pass
            return RecObj("enum:" + name, members)

        def ctor(*a, **kw):
            if a:
                raise Unsupported(f"{name}(...) with positional arguments")
            fields = _pydantic_normalise(self._chk, ci, dict(kw))
            if "scaling_method" in fields and isinstance(fields["scaling_method"], str):
                sc = self.__getattr__("ScalingChoice")
                for m in sc._fields().values():
                    if m.value == fields["scaling_method"]:
                        fields["scaling_method"] = m
            return RecObj(name, fields)
        return StubCall(ctor)


class ModelObj(AbsObj):
    """The model: attributes the scenario did not set are fresh symbols named after the attribute."""

    def __getattr__(self, name):
        if name.startswith("__") or name in ("_abs_isinstance", "_abs_type", "_abs_call", "_abs_len", "_abs_cast", "_classes"):
            raise AttributeError(name)
        v = SV(f"self.{name}")
        object.__setattr__(self, name, v)
        return v


SCENARIOS = [
    # (fitted feature order, settings.train_features): the fitted order is the canonical sorted one plus supplemental columns,
    # the settings keep the user's order
    (["temperature", "ghi", "Supplemental_A"], ["ghi", "temperature"]),
    (["temperature", "ghi", "occupancy_index"], ["occupancy_index", "ghi"]),
    (["temperature"], ["temperature"]),
]

JUDGED = ["_feature_scaler.{loc}", "_feature_scaler.scale_", "_y_scaler.{loc}", "_y_scaler.scale_", "_model.coef_", "_model.intercept_", "_T_bin_edges",
          "_T_edge_bin_coeffs", "_ts_features", "_categorical_features", "_df_temporal_clusters"]


def _val_key(v) -> str:
    if isinstance(v, Term):
        k = v.key()
        while k.startswith("squeeze(") and k.endswith(")"):   # a squeezed one-element array holds the same number
            k = k[len("squeeze("):-1]
        return k
    if isinstance(v, dict):
        return "{" + ", ".join(f"{k!r}: {_val_key(x)}" for k, x in v.items()) + "}"
    if isinstance(v, (list, tuple)):
        return "[" + ", ".join(_val_key(x) for x in v) + "]"
    return repr(v)


def _val_key_u(v) -> str:
    """_val_key with the members of every mapping in key order (two dicts are equal whatever their order)."""
    if isinstance(v, dict):
        return "{" + ", ".join(f"{k!r}: {_val_key_u(x)}" for k, x in sorted(v.items(), key=lambda kv: repr(kv[0]))) + "}"
    if isinstance(v, (list, tuple)):
        return "[" + ", ".join(_val_key_u(x) for x in v) + "]"
    return _val_key(v)


def _get_path(o, path: str):
    for part in path.split("."):
        if isinstance(o, AbsObj) and part not in o.__dict__:
            return None
        o = getattr(o, part)
    return o


def round_trip(chk, td, fd, scaling: str, ts_features: List[str], train_features: List[str], through_json: bool) -> Dict[str, Any]:
    """{'diffs': {attribute: (before, after)}} or {'raises': ...} for one scenario."""
    ns = SettingsNS(chk)
    scal = getattr(ns, "ScalingChoice")
    tok = getattr(scal, scaling)
    loc = "mean_" if scaling == "STANDARDSCALER" else "center_"
    n = len(ts_features)
    cluster_cols = ["month", "day_of_week"]
    settings = RecObj("HourlySettings", {"train_features": list(train_features), "scaling_method": tok})
    orig = ModelObj({"HourlyModel"}, settings=settings, _ts_features=list(ts_features), _categorical_features=["temporal_cluster", "daily_temp"],
                    _feature_scaler=AbsObj({"Scaler"}, **{loc: SV(f"feature_scaler.{loc}", n=n), "scale_": SV("feature_scaler.scale_", n=n)}),
                    _y_scaler=AbsObj({"Scaler"}, **{loc: SV(f"y_scaler.{loc}", n=1), "scale_": SV("y_scaler.scale_", n=1)}),
                    _model=AbsObj({"ElasticNet"}, coef_=SV("model.coef_"), intercept_=SV("model.intercept_")),
                    _T_bin_edges=SV("T_bin_edges"), _T_edge_bin_coeffs={0: SV("edge_coeffs[0]"), 7: SV("edge_coeffs[7]")},
                    _df_temporal_clusters=SFrameSym("df_temporal_clusters", cluster_cols, ["temporal_cluster"]), _temporal_cluster_cols=list(cluster_cols))

    def stand_ins(module):
        st = {"np": NPr(), "numpy": NPr(), "pd": PDr(), "pandas": PDr(), "BaselineMetricsFromDict": StubCall(lambda d: SV("BaselineMetricsFromDict", _val_key(d)))}
        for alias, dotted in module.imports.items():
            if dotted == HS:
                st[alias] = ns
        return st
    it = Interp(step_limit=100_000)
    try:
        doc = Function(td.node, ModuleEnv(chk.repo, td.module, it, stand_ins(td.module)), it)(orig)
    except InterpRaised as e:
        return {"raises": f"to_dict raises {e.exc_name}"}
    if isinstance(doc, RecObj):
        doc = doc.model_dump()
    if not isinstance(doc, dict):
        return {"raises": "to_dict does not return a dict"}
    if through_json:
        try:
            doc = through_text(chk, td, doc)
        except InterpRaised as e:
            return {"raises": f"to_json / from_json raises {e.exc_name}"}

    def make_model(*a, **kw):
        if a or set(kw) != {"settings"}:
            raise Unsupported("from_dict builds the model other than as cls(settings=...)")
        return AbsObj({"HourlyModel"}, settings=kw["settings"], _temporal_cluster_cols=list(cluster_cols), _feature_scaler=AbsObj({"Scaler"}),
                      _y_scaler=AbsObj({"Scaler"}), _model=AbsObj({"ElasticNet"}))
    it2 = Interp(step_limit=100_000)

    def _clone(x):
        if isinstance(x, dict):
            return {k_: _clone(v_) for k_, v_ in x.items()}
        if isinstance(x, list):
            return [_clone(v_) for v_ in x]
        return x
    doc_in = _clone(doc)    # the reader works on its own copy; changing the caller's document is judged separately
    try:
        back = Function(fd.node, ModuleEnv(chk.repo, fd.module, it2, stand_ins(fd.module)), it2)(StubCall(make_model), doc_in)
    except InterpRaised as e:
        return {"raises": f"from_dict raises {e.exc_name} on the document to_dict wrote"}
    if not isinstance(back, AbsObj):
        return {"raises": "from_dict does not return the model it built"}
    diffs = {}
    if _val_key(doc_in) != _val_key(doc):
        ch = [k_ for k_ in sorted(set(doc) | set(doc_in), key=str) if _val_key(doc.get(k_)) != _val_key(doc_in.get(k_))]
        diffs["<document>"] = (f"as written ({ch})", "modified by from_dict: loading the same parsed document twice gives different models")
    if _val_key_u(_dump(doc.get("settings"))) != _val_key_u(json_pass(_dump(settings)) if through_json else _dump(settings)):
        diffs["settings"] = (_val_key(_dump(settings)), _val_key(doc.get("settings")))
    bs = back.__dict__.get("settings")
    if not isinstance(bs, RecObj) or _val_key(bs._fields().get("train_features")) != _val_key(list(train_features)) or bs._fields().get("scaling_method") != tok:
        diffs["settings-restored"] = (_val_key(_dump(settings)), _val_key(_dump(bs)) if isinstance(bs, RecObj) else repr(bs)[:60])
    for p in JUDGED:
        p = p.format(loc=loc)
        a, b = _get_path(orig, p), _get_path(back, p)
        ka, kb = _val_key(a), (_val_key(b) if b is not None else "<not restored>")
        if ka != kb:
            diffs[p] = (ka, kb)
    return {"diffs": diffs}


def check(chk, rule, td, fd):
    chk.trusted.append("pydantic: a subclass's model_config is merged with its parents'; str_to_lower lower-cases every value validated as `str` (list elements and dict keys included), "
                       "untyped `list` elements are left alone; model_dump() returns the validated values; JSON object keys are strings")
    for scaling in ("STANDARDSCALER", "ROBUSTSCALER"):
        for ts, tr in SCENARIOS:
            for through_json in (True, False):
                key = f"{fd.key}|round-trip|{scaling.lower()}|fitted={','.join(ts)}|train={','.join(tr)}|{'json' if through_json else 'dict'}"
                try:
                    o = round_trip(chk, td, fd, scaling, ts, tr, through_json)
                except Unsupported as e:
                    raise AnalysisError(f"hourly round trip: operation outside the modelled subset: {e}")
                if "raises" in o:
                    rule.require(False, key, fd.where(), f"hourly model, {scaling.lower()}, fitted features {ts}, settings.train_features {tr}: {o['raises']}")
                    continue
                d = o["diffs"]
                first = next(iter(d.items()), None)
                rule.require(not d, key, fd.where(),
                             f"hourly model ({scaling.lower()}, fitted features {ts}, settings.train_features {tr}, {'through JSON' if through_json else 'dict only'}): "
                             + (f"`{first[0]}` is {first[1][0]} before saving and {first[1][1]} after loading" if first else "") + (f" (+{len(d) - 1} more)" if len(d) > 1 else ""),
                             sample={"scaling": scaling, "fitted": ts, "train_features": tr, "json": through_json, "differs": sorted(d)})
