"""C16 — reported fit statistics are the true statistics of the model predictions."""
from __future__ import annotations

import ast
import os
import re
from typing import Any, Dict, List, Optional, Tuple

import sympy as sp

from engine import boolalg
from engine.cfg import CFG, EXIT, feasible_set
from engine.dataflow import ReachingDefs, backward_slice_exprs
from engine.exprnorm import Converter, Unsupported, equal, fun, parse_ref, sym
from engine.index import AnalysisError, ClassInfo, FuncInfo, calls_in, const_str, is_self_attr, kwarg, unparse, walk_no_nested
from rules.common import DAILY_MODEL, HOURLY_MODEL, method, self_calls

HERE = os.path.dirname(os.path.dirname(os.path.abspath(__file__)))
MET = "opendsm.common.metrics"


def _load_spec():
    ns: Dict[str, Any] = {}
    p = os.path.join(HERE, "spec", "metrics_ref.py")
    with open(p, encoding="utf-8") as fh:
        src = fh.read()
    tree = ast.parse(src)
    for st in tree.body:
        if isinstance(st, ast.Assign) and len(st.targets) == 1:
            t = st.targets[0]
            if isinstance(t, ast.Name):
                ns[t.id] = ast.literal_eval(st.value)
            elif isinstance(t, ast.Subscript) and isinstance(t.value, ast.Name):
                ns[t.value.id][ast.literal_eval(t.slice)] = ast.literal_eval(st.value)
    return ns


def _expand(text: str, lets: Dict[str, str]) -> str:
    for _ in range(6):
        before = text
        for k in sorted(lets, key=len, reverse=True):
            text = re.sub(rf"\b{k}\b", f"({lets[k]})", text)
        if text == before:
            break
    return text


class MetricsSym:
    """Symbolic reader of the metrics classes: inlines sibling computed properties."""

    def __init__(self, chk, cls: ClassInfo, prefix: str = "", series_sym=None, bind=None):
        self.chk = chk
        self.cls = cls
        self.prefix = prefix
        self.series_sym = series_sym
        self.bind = bind or {}
        self.memo: Dict[str, Any] = {}
        self.stack: List[str] = []
        self.dfname = {"BaselineMetrics": "df", "ReportingMetrics": "rdf"}.get(cls.name, "df")

    def prop(self, name: str) -> Any:
        if name in self.memo:
            return self.memo[name]
        if name in self.stack:
            raise Unsupported(f"cyclic property {name}")
        m = self.chk.res.find_method(self.cls, name)
        if m is None:
            raise Unsupported(f"no property {name} in {self.cls.name}")
        self.stack.append(name)
        try:
            c = Converter(self._attr_hook, dict(self.bind), self._call_hook)
            v = c.run_body(m.node.body)
        finally:
            self.stack.pop()
        v = self._axioms(v)
        self.memo[name] = v
        return v

    def _axioms(self, v):
        if isinstance(v, sp.Basic):
            # Len(column of frame) == Len(frame)
            repl = {}
            for f in v.atoms(sp.Function):
                if f.func == fun("Len") and isinstance(f.args[0], sp.Symbol) and "." in f.args[0].name:
                    repl[f] = fun("Len")(sym(f.args[0].name.split(".")[0]))
            if repl:
                v = v.xreplace(repl)
        return v

    def is_property(self, name: str) -> bool:
        m = self.chk.res.find_method(self.cls, name)
        return m is not None and any("property" in d or "computed_field" in d for d in m.decorators)

    def _attr_hook(self, e: ast.Attribute, conv: Converter):
        # self.<x>
        if is_self_attr(e):
            a = e.attr
            if a == "_min_denominator":
                return "MIN_DEN"
            if a == "_df":
                return sym(self.prefix + self.dfname)
            if a == "series" and self.series_sym is not None:
                return self.series_sym
            if a == "_baseline" or a == "baseline_metrics":
                return ("OBJ", "BaselineMetrics", None)
            if self.is_property(a):
                return self.prop(a)
            if a in self.cls.attrs or any(a in k.attrs for k in self.chk.res.mro(self.cls)):
                return sym(self.prefix + a)
            raise Unsupported(f"unknown attribute self.{a}")
        # self.<obj>.<x>
        if isinstance(e.value, ast.Attribute) and is_self_attr(e.value):
            inner = e.value.attr
            if inner == "_df":
                return None
            if inner in ("_baseline", "baseline_metrics"):
                b = MetricsSym(self.chk, self.chk.repo.cls(MET, "BaselineMetrics"), prefix="b_")
                return b.prop(e.attr)
            if self.is_property(inner):
                obj = self.prop(inner)
                if isinstance(obj, tuple) and obj[0] == "OBJ" and obj[1] == "ColumnMetrics":
                    cm = MetricsSym(self.chk, self.chk.repo.cls(MET, "ColumnMetrics"), series_sym=obj[2])
                    return self._axioms(cm.prop(e.attr))
        # self._df.index.month etc -> symbol chain
        return None

    def _call_hook(self, c: ast.Call, conv: Converter):
        fn = unparse(c.func)
        if fn == "_safe_divide":
            if len(c.args) != 3 or conv.conv(c.args[2]) != "MIN_DEN":
                raise Unsupported("_safe_divide without the class's _min_denominator")
            return fun("SafeDiv")(conv.conv(c.args[0]), conv.conv(c.args[1]))
        if fn == "ColumnMetrics":
            s = kwarg(c, "series")
            return ("OBJ", "ColumnMetrics", conv.conv(s))
        if fn == "median_absolute_deviation" and len(c.args) == 2:
            return fun("MAD")(conv.conv(c.args[0]), conv.conv(c.args[1]))
        if fn.startswith("self.") and fn.count(".") == 1 and not c.args and not c.keywords:
            # a private helper method of the same class (no arguments): its body is read like a property's
            m = self.chk.res.find_method(self.cls, fn[5:])
            if m is not None and not self.is_property(fn[5:]):
                if fn in self.stack:
                    raise Unsupported(f"cyclic helper {fn}")
                self.stack.append(fn)
                try:
                    return self._axioms(Converter(self._attr_hook, dict(self.bind), self._call_hook).run_body(m.node.body))
                finally:
                    self.stack.pop()
        if fn == "list" and len(c.args) == 1 and not c.keywords:
            v = conv.conv(c.args[0])
            if isinstance(v, list):
                return v
        if fn == "t_stat":
            tail = kwarg(c, "tail") or (c.args[2] if len(c.args) > 2 else None)   # by name or by position
            return fun("TStat")(conv.conv(c.args[0]), conv.conv(c.args[1]), conv.conv(tail) if tail is not None else sp.Integer(2))
        return None


def run(chk):
    chk.explanation = (
        "Each computed statistic of ColumnMetrics / BaselineMetrics / ReportingMetrics and DailyModel._get_error_metrics is read from its "
        "source as a term over uninterpreted reductions (Sum, Mean, Len, Var0, IQ, Corr, Autocorr1 ...) with sibling properties inlined and "
        "the clamp / finite-fallback / None-propagation idioms interpreted, and compared modulo field axioms with the textbook definition in "
        "spec/metrics_ref.py (parsed, never executed).  The safe-division helper, the frames' finite-pair filter, the poor-fit gates' truth "
        "tables and the provenance of the hourly baseline metrics are decided structurally.")
    chk.trusted += ["sympy's simplifier as a term normaliser for ~50 closed forms", "pandas' sum/mean/var(ddof=0)/autocorr/corr/skew compute the textbook reductions"]
    chk.not_decided += ["numerical conditioning of the formulas", "mape (row-filtered ratio) and the hourly_caltrack legacy metrics module beyond its structural use"]
    r1 = chk.rule("R16.1", "formula DAG: every reported statistic equals its textbook definition (terms compared modulo field axioms)", 40)
    r2 = chk.rule("R16.2", "undefined rather than a number: normalised statistics go through _safe_divide, which returns None exactly on its guarded branch", 10)
    r3 = chk.rule("R16.3", "poor-fit gates: hourly acceptable iff (cv is not None and cv < cv_thr) or (pn is not None and pn < pn_thr) on the adjusted statistics; daily disqualifies iff CVRMSE > threshold", 4)
    r4 = chk.rule("R16.4", "hourly baseline metrics are computed from self._predict(baseline) restricted to non-interpolated rows, in both _fit and _adaptive_fit", 4)
    spec = _load_spec()

    # ------------------------------------------------------------------ R16.1
    col = chk.repo.cls(MET, "ColumnMetrics")
    cm = MetricsSym(chk, col, series_sym=sym("s"))
    for name, ref in spec["COLUMN"].items():
        key = f"{col.key}.{name}"
        m = col.methods.get(name)
        if m is None:
            r1.require(False, key + "|present", col.module.rel, f"ColumnMetrics.{name} vanished")
            continue
        try:
            got = cm.prop(name)
            want = parse_ref(ref)
            r1.require(equal(got, want), key, m.where(), f"ColumnMetrics.{name} = {got}, textbook definition is {want}", sample={"statistic": f"ColumnMetrics.{name}", "term": str(got)})
        except Unsupported as e:
            raise AnalysisError(f"{key}: cannot establish ColumnMetrics.{name}: {e}")
    base = chk.repo.cls(MET, "BaselineMetrics")
    bm = MetricsSym(chk, base)
    for name, ref in spec["BASELINE"].items():
        key = f"{base.key}.{name}"
        m = base.methods.get(name)
        if m is None:
            r1.require(False, key + "|present", base.module.rel, f"BaselineMetrics.{name} vanished")
            continue
        try:
            got = bm.prop(name)
            want = parse_ref(_expand(ref, spec["BASELINE_LET"]))
            r1.require(equal(got, want), key, m.where(), f"BaselineMetrics.{name} = {got}, textbook definition is {want}", sample={"statistic": f"BaselineMetrics.{name}", "term": str(got)[:200]})
        except Unsupported as e:
            raise AnalysisError(f"{key}: cannot establish BaselineMetrics.{name}: {e}")
    rep = chk.repo.cls(MET, "ReportingMetrics")
    for name, (bind, ref) in spec["REPORTING"].items():
        pname = name.split("|")[0]
        key = f"{rep.key}.{name}"
        m = rep.methods.get(pname)
        if m is None:
            r1.require(False, key + "|present", rep.module.rel, f"ReportingMetrics.{pname} vanished")
            continue
        try:
            rm = MetricsSym(chk, rep, bind=bind)
            got = rm.prop(pname)
            want = parse_ref(_expand(ref, spec["REPORTING_LET"]))
            r1.require(equal(got, want), key, m.where(), f"ReportingMetrics.{name} = {got}, reference is {want}", sample={"statistic": f"ReportingMetrics.{name}", "term": str(got)[:200]})
        except Unsupported as e:
            raise AnalysisError(f"{key}: cannot establish ReportingMetrics.{name}: {e}")
    # unknown data frequency must raise
    tsu = rep.methods.get("total_savings_uncertainty")
    if tsu is not None:
        try:
            MetricsSym(chk, rep, bind={"self.data_frequency": "weekly"}).prop("total_savings_uncertainty")
            r1.require(False, f"{rep.key}.total_savings_uncertainty|unknown-frequency-raises", tsu.where(), "an unknown data_frequency must raise, not produce a number")
        except Unsupported as e:
            r1.require("raise" in str(e), f"{rep.key}.total_savings_uncertainty|unknown-frequency-raises", tsu.where(), f"unknown data_frequency: {e}")
    # the frames: finite pairs, residual = observed - predicted.  `_df` is interpreted on recording values (engine.absint.Sym): the frame
    # handed back must be a *copy of the two columns* of the source frame, validated, restricted by exactly
    # isfinite(observed) & isfinite(predicted); the baseline frame carries residuals = observed - predicted of those rows.
    from engine.absint import AbsObj as _AO, ModuleEnv as _ME, Oracle as _Or, SymWorld as _SW, canon as _canon, explore as _explore, sym_root as _root
    from engine.pyinterp import Function as _Fn, Interp as _In, InterpRaised as _IR, Unsupported as _Un
    for cls_, resid, src in ((base, True, "self.df"), (rep, False, "self.reporting_df")):
        f = cls_.methods.get("_df")
        if f is None:
            raise AnalysisError(f"{cls_.name}._df vanished")
        orc = _Or()

        def _run(f=f):
            w = _SW(orc)
            me = _AO({cls_.name}, df=_root(w, "self.df"), reporting_df=_root(w, "self.reporting_df"))
            it = _In(step_limit=20_000)
            env = _ME(chk.repo, f.module, it, {"np": _root(w, "np"), "numpy": _root(w, "np"), "pd": _root(w, "pd"), "PydanticDf": _root(w, "PydanticDf")})
            try:
                r_ = _Fn(f.node, env, it)(me)
            except _IR as e:
                return {"raises": e.exc_name}
            return {"frame": _canon(r_), "cols": {k_: _canon(v_) for k_, v_ in getattr(r_, "_cols", {}).items()}, "effects": list(w.effects)}
        try:
            outs_df = list(_explore(_run, orc))
        except _Un as e:
            raise AnalysisError(f"{f.key}: uses an operation outside the modelled subset: {e}")
        two = f"{src}[['observed', 'predicted']].copy()"
        P = f"PydanticDf(column_types={{'observed': 'float', 'predicted': 'float'}}, df={two}).df"
        want = {f"{P}[(np.isfinite({P}['observed']) & np.isfinite({P}['predicted']))]", f"{P}[(np.isfinite({P}['predicted']) & np.isfinite({P}['observed']))]",
                f"{P}.loc[(np.isfinite({P}['observed']) & np.isfinite({P}['predicted']))]", f"{P}.loc[(np.isfinite({P}['predicted']) & np.isfinite({P}['observed']))]"}
        normal = [o for _tr, o in outs_df if "frame" in o]
        empties = [(_tr, o) for _tr, o in outs_df if "raises" in o]
        fin = bool(normal) and all(o["frame"] in want for o in normal)
        r1.require(fin, f"{f.key}|finite-pairs", f.where(), f"{cls_.name}._df must keep exactly the rows where observed and predicted are both finite (of a validated frame); interpreted: {[o['frame'][:200] for o in normal][:1]}")
        r1.require(bool(normal) and all(two in o["frame"] and not o["effects"] for o in normal), f"{f.key}|copy-of-two-columns", f.where(),
                   f"{cls_.name}._df must work on a copy of the observed/predicted columns of {src} and leave the source alone")
        r1.require(all(o.get("raises") == "ValueError" and any("len(" in t_ and v_ for t_, v_ in _tr) for _tr, o in empties), f"{f.key}|empty-raises", f.where(),
                   f"{cls_.name}._df may raise only the ValueError for an empty frame; interpreted: {[o for _t, o in empties][:1]}")
        if resid:
            ok = bool(normal) and all(o["cols"].get("residuals") == f"({o['frame']}['observed'] - {o['frame']}['predicted'])" for o in normal)
            r1.require(ok, f"{f.key}|residuals", f.where(), f"residuals must be observed - predicted of the kept rows; interpreted: {[o['cols'].get('residuals', '<none>')[-120:] for o in normal][:1]}")
        else:
            r1.require(all(set(o["cols"]) <= {"residuals"} for o in normal), f"{f.key}|no-extra-columns", f.where(), "the reporting frame holds observed and predicted only")
    # daily error metrics: _get_error_metrics and the bookkeeping in _fit interpreted on sympy-valued stand-ins (rules/daily_errors.py)
    from rules.daily_errors import ORDER, error_metric_outcomes, judge_error_metrics, stored_errors
    dm = chk.repo.cls(*DAILY_MODEL)
    gem = method(chk, dm, "_get_error_metrics")
    fit = method(chk, dm, "_fit")
    bad_pos = {}
    n_out = 0
    for o in error_metric_outcomes(chk, dm, gem):
        n_out += 1
        for pos, msg in judge_error_metrics(o):
            bad_pos.setdefault(pos, msg)
    r1.require(-1 not in bad_pos, f"{gem.key}|stacked-components", gem.where(), f"_get_error_metrics: {bad_pos.get(-1, '')}", sample={"scenarios": n_out})
    for pos in range(5):
        r1.require(pos not in bad_pos and -1 not in bad_pos, f"{gem.key}|position:{pos}", gem.where(),
                   f"_get_error_metrics: {bad_pos.get(pos, bad_pos.get(-1, ''))} (RMSE/MAE over the stacked residuals of all components, wRMSE from the summed weighted squares and counts)",
                   sample={"statistic": f"daily error[{pos}] = {ORDER[pos]}"})
    got = stored_errors(chk, dm, fit, gem)
    if "raises" in got:
        r1.require(False, f"{fit.key}|unpack-order", fit.where(), f"_fit raises {got['raises']} while storing the error metrics")
    else:
        for k in ORDER:
            r1.require(got.get(k) == ORDER.index(k), f"{fit.key}|error[{k}]", fit.where(),
                       f"self.error['{k}'] holds {'position ' + str(got[k]) + ' (' + ORDER[got[k]] + ')' if isinstance(got.get(k), int) else got.get(k)} of the metrics _get_error_metrics(best_combination) returns; `{k}` is position {ORDER.index(k)}")
        extra = sorted(k for k in got if k not in ORDER and k != "__base__")
        r1.require(not extra, f"{fit.key}|unpack-order", fit.where(), f"_fit must store exactly the five error metrics by name; also found {extra}")
        r1.require(got.get("__base__") == "base_0", f"{fit.key}|baseline-wRMSE", fit.where(), f"wRMSE_base must be the wRMSE (position 0) of the unsplit model; found {got.get('__base__')}")
    # ... and of *that model*: the attributes holding reported statistics are per-instance state (rules/classstate.py, shared with C01-C03)
    from rules import classstate as _cs
    from rules.common import HOURLY_MODEL as _HM
    _cs.report(chk, r1, [dm] + list(chk.res.subclasses(dm)) + [chk.repo.cls(*_HM)], {"error", "baseline_metrics", "wRMSE_base", "_error_metrics"},
               what="the statistics one model reports are overwritten by whichever model was fitted last")
    # the statistics reported after a fit are those of *that* fit: the same object fitted a second time on other data (refit scenario)
    from rules.daily_errors import refit_outcomes
    ro = refit_outcomes(chk, dm, fit, gem)
    if "raises" in ro:
        r1.require(False, f"{fit.key}|refit", fit.where(), f"fitting the same model object a second time raises {ro['raises']}")
    else:
        for k, v in ro.items():
            r1.require(v["ok"], f"{fit.key}|refit|{k}", fit.where(),
                       f"after fitting the same DailyModel object a second time on other data, {'self.error[' + repr(k) + ']' if k != 'wRMSE_base' else 'self.wRMSE_base'} is {v['value']}"
                       + (" — computed from the components of the *earlier* fit (state kept across fits is not reset)" if v["stale"] else " — not the statistic of the second fit's components"),
                       sample={"scenario": "refit", "statistic": k})

    # ------------------------------------------------------------------ R16.2
    sd = chk.repo.try_func(MET, "_safe_divide")
    if sd is None:
        r2.require(False, f"{MET}:_safe_divide|present", "metrics.py", "_safe_divide vanished")
    else:
        cfg = CFG(sd.node)
        rets = [s for s in cfg.stmts() if isinstance(s, ast.Return)]
        none_rets = [s for s in rets if s.value is None or unparse(s.value) == "None"]
        quot = [s for s in rets if isinstance(s.value, ast.BinOp) and isinstance(s.value.op, ast.Div) and unparse(s.value.left) == sd.params[0] and unparse(s.value.right) == sd.params[1]]
        ok = len(none_rets) == 1 and len(quot) == 1 and len(rets) == 2
        guard_ok = False
        if ok:
            g = cfg.guards(none_rets[0])
            guard_ok = len(g) == 1 and g[0][1] is True and f"{sd.params[1]} <= {sd.params[2]}" in unparse(g[0][0])
            gq = cfg.guards(quot[0])
            guard_ok = guard_ok and len(gq) == 1 and gq[0][1] is False
        r2.require(ok and guard_ok, f"{sd.key}|shape", sd.where(), "_safe_divide must return None exactly when denominator <= min_denominator (and the numerator is not itself ~0), else numerator/denominator")
        d = sd.param_defaults().get(sd.params[2])
        r2.require(d is not None and unparse(d) in ("0.001", "1e-3", "1e-03"), f"{sd.key}|min_denominator-default", sd.where(), f"min_denominator default must be 1e-3; found {unparse(d)}")
    for name in spec["MUST_BE_SAFE"]:
        m = base.methods.get(name)
        if m is None:
            continue
        uses = [c for c in calls_in(m.node) if unparse(c.func) == "_safe_divide"]
        plain_div = [n for n in ast.walk(m.node) if isinstance(n, ast.BinOp) and isinstance(n.op, ast.Div)]
        r2.require(len(uses) == 1 and not plain_div, f"{base.key}.{name}|safe", m.where(), f"BaselineMetrics.{name} must be computed through _safe_divide (undefined rather than a number when the denominator is not safely positive)")

    # ------------------------------------------------------------------ R16.3
    check_poor_fit_gates(chk, r3)

    # ------------------------------------------------------------------ R16.4
    hm = chk.repo.cls(*HOURLY_MODEL)
    shapes = []
    for nm in ("_fit", "_adaptive_fit"):
        f = method(chk, hm, nm)
        cfg = CFG(f.node)
        rd = ReachingDefs(f.node, cfg)
        bm_st = [s for s in cfg.stmts() if isinstance(s, ast.Assign) and unparse(s.targets[0]) == "self.baseline_metrics"]
        if len(bm_st) != 1 or not isinstance(bm_st[0].value, ast.Call) or unparse(bm_st[0].value.func) != "BaselineMetrics":
            r4.require(False, f"{f.key}|baseline-metrics-assigned", f.where(), f"{nm} must assign self.baseline_metrics = BaselineMetrics(...) exactly once")
            continue
        st = bm_st[0]
        dfarg = kwarg(st.value, "df")
        nparg = kwarg(st.value, "num_model_params")
        sl = backward_slice_exprs(rd, st, dfarg, 4)
        txt = " | ".join(unparse(x) for x in sl)
        from_predict = any(isinstance(x, ast.Call) and unparse(x.func) == "self._predict" and x.args and unparse(x.args[0]) == f.params[1] for e in sl for x in ast.walk(e))
        from engine.pattern import Expander, match as pmatch
        dfx = Expander(f.node).expand(dfarg, st)
        pats = ["_F_.loc[~_F_[[_C_ for _C_ in _F_.columns if _C_.startswith('interpolated_')]].any(axis=1)]",
                "_F_[~_F_[[_C_ for _C_ in _F_.columns if _C_.startswith('interpolated_')]].any(axis=1)]",
                "_F_.loc[~_F_.filter(like='interpolated_').any(axis=1)]",
                "_F_.loc[~_F_.loc[:, [_C_ for _C_ in _F_.columns if _C_.startswith('interpolated_')]].any(axis=1)]"]
        def _from_predict(txt_):
            if txt_.startswith("self._predict("):
                return True
            if txt_.isidentifier():
                vals_ = [rd.value_of(d) for d in rd.reaching(st, txt_)]
                return bool(vals_) and all(v_ is not None and unparse(v_).startswith("self._predict(") for v_ in vals_)
            return False
        mask_ok = interp = any((b_ := pmatch(p_, dfx)) is not None and _from_predict(b_.get("_F_", "")) for p_ in pats)
        r4.require(from_predict, f"{f.key}|metrics-from-predict(baseline)", f.where(st), f"{nm}: baseline metrics must be computed on self._predict({f.params[1]}, ...)")
        r4.require(mask_ok and interp, f"{f.key}|non-interpolated-rows", f.where(st), f"{nm}: baseline metrics must be restricted to rows where no interpolated_* flag is set (df.loc[~interpolated])")
        npsl = " | ".join(unparse(x) for x in backward_slice_exprs(rd, st, nparg, 3)) if nparg is not None else ""
        r4.require("np.count_nonzero(self._model.coef_)" in npsl and "np.count_nonzero(self._model.intercept_)" in npsl, f"{f.key}|num-params", f.where(st),
                   f"{nm}: num_model_params must count the non-zero coefficients and intercepts of the fitted model")
        shapes.append((unparse(dfarg), npsl))
    r4.require(len(shapes) == 2 and shapes[0] == shapes[1], "siblings|HourlyModel._fit~_adaptive_fit", "hourly/model.py", f"_fit and _adaptive_fit compute the baseline metrics differently: {shapes}")


def check_poor_fit_gates(chk, r3):
    """Truth tables of the poor-fit gates (shared by C16/R16.3 and C04/R04.5): the hourly model is acceptable iff
    (cvrmse_adj is defined and below its threshold) or (pnrmse_adj is defined and below its threshold) — an undefined metric never
    counts in the model's favour; the daily/billing model is disqualified iff CVRMSE > threshold."""
    hm = chk.repo.cls(*HOURLY_MODEL)
    dm = chk.repo.cls(*DAILY_MODEL)
    acc = method(chk, hm, "_model_fit_is_acceptable")
    cfg = CFG(acc.node)
    rd = ReachingDefs(acc.node, cfg)
    def src_of(n: ast.Name, at):
        vals = [unparse(rd.value_of(d)) for d in rd.reaching(at, n.id) if rd.value_of(d) is not None]
        return vals[0] if len(vals) == 1 else None
    true_rets = [s for s in cfg.stmts() if isinstance(s, ast.Return) and s.value is not None and unparse(s.value) == "True"]
    other_rets = [s for s in cfg.stmts() if isinstance(s, ast.Return) and s not in true_rets]
    def mk_atomizer(at):
        def atomizer(e):
            s, neg = boolalg.strip_truthiness(e)
            if isinstance(s, ast.Compare) and len(s.ops) == 1:
                l = s.left
                lt = src_of(l, at) if isinstance(l, ast.Name) else unparse(l)
                r = unparse(s.comparators[0])
                op = s.ops[0]
                for stat, thr, nm in (("self.baseline_metrics.cvrmse_adj", "self.settings.cvrmse_threshold", "cv"), ("self.baseline_metrics.pnrmse_adj", "self.settings.pnrmse_threshold", "pn")):
                    if lt == stat and r == "None" and isinstance(op, (ast.IsNot, ast.Is)):
                        return (nm + "_def", neg != isinstance(op, ast.Is))
                    if lt == stat and r == thr and isinstance(op, (ast.Lt, ast.GtE)):
                        return (nm + "_lt", neg != isinstance(op, ast.GtE))
            return None
        return atomizer
    atoms = ["cv_def", "cv_lt", "pn_def", "pn_lt"]
    bad = []
    first = next(iter(cfg.stmts()))
    for env in boolalg.assignments(atoms):
        at = true_rets[0] if true_rets else first
        ev = lambda t, env=env: boolalg.ev3(t, mk_atomizer(at), env)
        reach = feasible_set(cfg, ev)
        ret_true = any(id(s) in reach for s in true_rets)
        from engine.cfg import feasible_reach
        ret_other = feasible_reach(cfg, {EXIT}, ev, avoid={id(s) for s in true_rets})
        want = (env["cv_def"] and env["cv_lt"]) or (env["pn_def"] and env["pn_lt"])
        if ret_true != want or ret_other != (not want):
            bad.append((dict(env), f"acceptable={ret_true} not-acceptable={ret_other}"))
    for s in other_rets:
        if s.value is not None and unparse(s.value) not in ("False", "None"):
            bad.append(("return", unparse(s.value)))
    r3.require(not bad, f"{acc.key}|truth-table", acc.where(),
               f"_model_fit_is_acceptable must be true iff (cvrmse_adj is not None and < cvrmse_threshold) or (pnrmse_adj is not None and < pnrmse_threshold); deviations: {bad[:3]}",
               sample={"atoms": atoms, "rows": 16})
    from engine.pattern import Expander
    hfit = method(chk, hm, "fit")
    hcfg = CFG(hfit.node)
    hex_ = Expander(hfit.node)

    def appends_of(cfg_):
        return [s for s in cfg_.stmts() if isinstance(s, ast.Expr) and isinstance(s.value, ast.Call) and isinstance(s.value.func, ast.Attribute)
                and s.value.func.attr in ("append", "extend") and unparse(s.value.func.value) == "self.disqualification"]

    def guard_table(cfg_, ex_, stmt, atomizer, atoms):
        """Truth table of the path condition of `stmt` (enclosing ifs and earlier guard clauses), locals expanded; guards that do
        not mention an atom are ignored (they belong to other decisions, e.g. the data-sufficiency gate)."""
        gs = []
        facts = cfg_.must_facts().get(id(stmt), frozenset())
        for f_ in facts:
            st = cfg_.stmt_of.get(f_.test_id)
            if st is None or isinstance(st, (ast.For, ast.AsyncFor)):
                continue
            t = ex_.expand(cfg_.tests[f_.test_id], st)
            try:
                boolalg.truth_table(t, atomizer, atoms)
            except boolalg.Unrecognised:
                continue
            gs.append((t, f_.polarity))
        if not gs:
            return None
        return boolalg.conj_table(gs, atomizer, atoms)

    def acc_atomizer(e):
        s_, neg = boolalg.strip_truthiness(e)
        if isinstance(s_, ast.Call) and unparse(s_.func) == "self._model_fit_is_acceptable" and not s_.args and not s_.keywords:
            return ("acc", neg)
        return None
    ap = appends_of(hcfg)
    ok = False
    if ap:
        tt = guard_table(hcfg, hex_, ap[0], acc_atomizer, ["acc"])
        ok = tt is not None and tt[(False,)] is True and tt[(True,)] is False
    r3.require(ok, f"{hfit.key}|disqualify-iff-not-acceptable", hfit.where(), "HourlyModel.fit must append the poor-fit disqualification exactly when _model_fit_is_acceptable() is falsy")
    dfit = method(chk, dm, "fit")
    dcfg = CFG(dfit.node)
    dex = Expander(dfit.node)

    def cv_atomizer(e):
        s_, neg = boolalg.strip_truthiness(e)
        if isinstance(s_, ast.Compare) and len(s_.ops) == 1:
            l, r, op = unparse(s_.left), unparse(s_.comparators[0]), type(s_.ops[0])
            CV, TH = ("self.error['CVRMSE']", "self.error.get('CVRMSE')"), ("self.settings.cvrmse_threshold",)
            if l in CV and r in TH and op in (ast.Gt, ast.LtE):
                return ("gt", neg != (op is ast.LtE))
            if r in CV and l in TH and op in (ast.Lt, ast.GtE):
                return ("gt", neg != (op is ast.GtE))
        return None
    ap = appends_of(dcfg)
    ok = False
    found = None
    if ap:
        tt = guard_table(dcfg, dex, ap[0], cv_atomizer, ["gt"])
        found = tt
        ok = tt is not None and tt[(True,)] is True and tt[(False,)] is False
    r3.require(ok, f"{dfit.key}|disqualify-iff-cvrmse>threshold", dfit.where(), f"DailyModel.fit must disqualify exactly when error['CVRMSE'] > settings.cvrmse_threshold; found path condition {found}")
    r3.inst(f"{dfit.key}|billing-inherits")



def _falls_through(cfg: CFG, reach, true_rets) -> bool:
    """EXIT reachable by falling off the end (implicit None) under the valuation."""
    for p in cfg.g.predecessors(EXIT):
        if p in reach and not isinstance(cfg.stmt_of.get(p), ast.Return):
            return True
    return False
