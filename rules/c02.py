"""C02 — using a model or a data object never changes it (no hidden side effects)."""
from __future__ import annotations

import ast
from typing import Dict, List, Optional, Set, Tuple

from engine.cfg import CFG
from engine.dataflow import FRESH, Origins, ReachingDefs, inplace_stores, _flatten_target
from engine.index import AnalysisError, ClassInfo, FuncInfo, calls_in, is_self_attr, kwarg, unparse, walk_no_nested
from engine.pdfacts import FACTS
from rules.common import (BILLING_DATA, BILLING_MODEL, CALTRACK_DATA, CALTRACK_WRAPPER, DAILY_DATA, DAILY_MODEL, HOURLY_DATA, HOURLY_MODEL,
                          WEIGHTED_MODEL, method)

# (class name, method, attribute, kind-prefix) -> reason.  Writes on the predict path that provably re-create the value they overwrite.
IDEMPOTENT = {
    ("HourlyModel", "_prepare_features", "_ts_features", "rebind"): "re-sorted with the deterministic priority key of _sort_features; the list was stored sorted by the same call at fit time",
    ("HourlyModel", "_prepare_features", "_categorical_features", "rebind"): "same re-sort as _ts_features",
    ("HourlyModel", "_prepare_features", "_ts_feature_norm", "rebind"): "re-sort of the list rebuilt earlier in the same call",
    ("HourlyModel", "_add_categorical_features", "_categorical_features", "rebind"): "rebuilt as temporal_cluster_0..n-1 with n = number of such names already stored",
    ("HourlyModel", "_add_categorical_features", "_categorical_features", "mutcall:extend"): "extended by the temp_bin_* names derived from the stored bin edges (same names as at fit)",
    ("HourlyModel", "_normalize_features", "_ts_feature_norm", "rebind"): "rebuilt from _ts_features before its first read in every call",
    ("HourlyModel", "_add_temperature_bin_masked_ts", "_ts_feature_norm", "mutcall:remove"): "edits the list rebuilt earlier in the same call",
    ("HourlyModel", "_add_temperature_bin_masked_ts", "_ts_feature_norm", "mutcall:append"): "edits the list rebuilt earlier in the same call",
    ("HourlyModel", "_add_temperature_bin_masked_ts", "_T_edge_bin_coeffs", "rebind"): "only under `is None`; fit and from_dict both leave a dict",
}
# caches: written on the predict path, never serialised and never read before being written in the same call
CACHE_ATTRS = {"_processed_meter_data_full", "_processed_meter_data"}
FIT_ONLY_TESTS = {("not self.is_fitted", True), ("self.is_fitted", False)}


def _self_writes(chk, fi: FuncInfo) -> List[Tuple[ast.stmt, str, str]]:
    """(stmt, attr, kind) for every rebind / in-place mutation of a self attribute in fi."""
    out = []
    rd = None
    for s in walk_no_nested(fi.node):
        if not isinstance(s, ast.stmt):
            continue
        tgts = []
        if isinstance(s, ast.Assign):
            for t in s.targets:
                tgts += _flatten_target(t)
        elif isinstance(s, (ast.AugAssign, ast.AnnAssign)):
            tgts = [s.target]
        for t in tgts:
            if is_self_attr(t):
                out.append((s, t.attr, "rebind" if not isinstance(s, ast.AugAssign) else "augassign"))
    try:
        rd = ReachingDefs(fi.node)
        og = Origins(fi.node, rd)
    except Exception:
        return out
    for s, recv, kind in inplace_stores(fi.node):
        if is_self_attr(recv) and kind.startswith("setattr") is False and isinstance(s, (ast.Assign, ast.AugAssign)) and any(is_self_attr(t) for t in (s.targets if isinstance(s, ast.Assign) else [s.target])):
            continue
        for tag in og.of(recv, s):
            if isinstance(tag, tuple) and tag[0] in ("SELF", "SELFVIEW") and tag[1]:
                if kind.startswith("setattr") and is_self_attr(ast.Attribute(value=recv, attr="x", ctx=ast.Load())) and isinstance(recv, ast.Name):
                    continue  # self.x = ...  (already recorded as rebind)
                out.append((s, tag[1], kind))
    return out


def _fit_only(cfg: CFG, st: ast.AST) -> bool:
    return any((unparse(t), pol) in FIT_ONLY_TESTS for t, pol in cfg.guards(st))


def _fitted_reach(chk, root: FuncInfo, cls: ClassInfo) -> Dict[str, FuncInfo]:
    """Functions reachable from root through call sites that are not under a `not self.is_fitted` guard."""
    seen: Dict[str, FuncInfo] = {}
    stack = [root]
    while stack:
        f = stack.pop()
        if f.key in seen:
            continue
        seen[f.key] = f
        cfg = CFG(f.node)
        lt = chk.res.local_types(f)
        for c in calls_in(f.node):
            st = f.module.enclosing_stmt(c)
            if st is not None and id(st) in cfg.g and _fit_only(cfg, st):
                continue
            for t in chk.res.resolve_call(f, c, lt):
                if isinstance(t, FuncInfo):
                    stack.append(t)
        for g in f.module.all_funcs:
            if g.parent_func is f:
                # nested def: reachable iff some call to it is not fit-only
                calls = [c for c in calls_in(f.node) if isinstance(c.func, ast.Name) and c.func.id == g.name]
                if any(not _fit_only(cfg, f.module.enclosing_stmt(c)) for c in calls):
                    stack.append(g)
    return seen


def _attrs_read(fi: FuncInfo) -> Set[str]:
    return {n.attr for n in walk_no_nested(fi.node) if is_self_attr(n) and isinstance(n.ctx, ast.Load)}


def run(chk):
    chk.explanation = (
        "Effect analysis: for every model family the set of functions reachable from predict() through call sites that are not under a "
        "`not self.is_fitted` guard is computed on the resolved call graph; every rebind or in-place mutation of a self attribute in them "
        "(through aliases too, by origin analysis) is compared with the attributes read by to_dict and by the predict path itself. "
        "Aliasing of data-object lists into models, ownership of the data classes' private frame, copy-before-mutate of every data-class "
        "entry point (origin analysis over reaching definitions, including the shared index object), and freshness of returned frames.")
    chk.trusted += FACTS
    chk.assumptions.append("G6: evaluated for the declared pandas range (>=1.1), where a slice may be a view; under copy-on-write the copy-before-mutate rule is sufficient rather than necessary")
    chk.not_decided += ["effects inside third-party estimators beyond the trusted table (e.g. ElasticNet.predict, StandardScaler.transform are assumed pure)"]
    r1 = chk.rule("R02.1", "predict-path effects: no write to a serialised or predict-read model attribute once fitted (idempotent rebuilds enumerated with reasons)", 15)
    r2 = chk.rule("R02.2", "fit() does not alias mutable attributes of the data object into the model and later mutate them", 4)
    r3 = chk.rule("R02.3", "data objects are read-only to models: private _df touched only by its own class; accessors hand out copies", 6)
    r4 = chk.rule("R02.4", "data classes never write into the caller's frames / series (values or shared index metadata)", 20)
    r5 = chk.rule("R02.5", "frames returned by predict are fresh objects", 3)
    r7 = chk.rule("R02.7", "fit() and predict() never write into the data object they are given: no in-place store reaches its frames (a `df` accessor that hands out a copy is the only safe way in)", 5)
    r6 = chk.rule("R02.6", "no hidden state shared between objects: model and data classes never write, through an instance, into a mutable object that lives on the class", 1)
    _models_do_not_write_data_objects(chk, r7)
    from rules import classstate
    _cls = [c for c in chk.res.all_classes() if c.module.name.startswith("opendsm.eemeter.models") or c.module.name.startswith("opendsm.eemeter.common")]
    classstate.report(chk, r6, _cls, what="using one object (constructing, fitting, predicting) changes every other object of the class")

    # ------------------------------------------------------------------ R02.1
    fams = [("daily", chk.repo.cls(*DAILY_MODEL)), ("billing", chk.repo.cls(*BILLING_MODEL)), ("billing_weighted", chk.repo.cls(*WEIGHTED_MODEL)),
            ("hourly", chk.repo.cls(*HOURLY_MODEL)), ("caltrack_hourly", chk.repo.cls(*CALTRACK_WRAPPER))]
    for name, cls in fams:
        pred = method(chk, cls, "predict")
        td = method(chk, cls, "to_dict")
        P = _fitted_reach(chk, pred, cls)
        S: Set[str] = set()
        for f in chk.res.reachable([td]):
            if f.cls is not None and (cls in chk.res.mro(f.cls) or f.cls in chk.res.mro(cls)):
                S |= _attrs_read(f)
        # daily family: to_dict reads self.params only; params is the snapshot of the fit state
        Rd: Set[str] = set()
        for f in P.values():
            if f.cls is not None and (f.cls in chk.res.mro(cls) or cls in chk.res.mro(f.cls)):
                Rd |= _attrs_read(f)
        n_sites = 0
        for f in P.values():
            if f.cls is None or not (f.cls in chk.res.mro(cls) or cls in chk.res.mro(f.cls)):
                continue
            cfg = CFG(f.node)
            for st, attr, kind in _self_writes(chk, f):
                if id(st) in cfg.g and _fit_only(cfg, st):
                    continue
                n_sites += 1
                mname = f.qualname.split(".<locals>.")[0].split(".")[-1] if ".<locals>." in f.qualname else f.name
                key = f"{f.key}|{kind}:self.{attr}"
                kprefix = kind if not kind.startswith("mutcall") else kind
                idem = IDEMPOTENT.get((cls.name, mname, attr, kprefix))
                if attr in CACHE_ATTRS and attr not in S:
                    r1.inst(key + "|cache")
                    continue
                if idem is not None:
                    r1.inst(key + "|idempotent", {"family": name, "site": f"{f.qualname}: {unparse(st)[:70]}", "why_harmless": idem})
                    continue
                relevant = attr in S or attr in Rd
                r1.require(not relevant, key, f.where(st),
                           f"{name}: `{unparse(st)[:80]}` in {f.qualname} changes model attribute `{attr}` during predict() "
                           f"({'serialised by to_dict' if attr in S else 'read by later predictions'}): the model is not the same after predicting",
                           sample={"family": name, "site": f"{f.qualname}: {unparse(st)[:70]}", "attribute": attr})
        r1.inst(f"{cls.key}|predict-path[{len(P)} functions, {n_sites} write sites when fitted]",
                {"family": name, "functions_on_fitted_predict_path": len(P), "write_sites": n_sites, "serialised_attrs": sorted(S)[:30]})
    # every row of the idempotent table must still match a site (else the table is stale -> analysis error via floor)
    # ------------------------------------------------------------------ R02.2
    for name, cls in fams[:4]:
        fit = method(chk, cls, "fit")
        if fit.cls is not cls and name != "daily":
            r2.inst(f"{cls.key}|fit-inherited:{fit.key}")
            continue
        data = [p for p in fit.params if p != "self"][0]
        for s in walk_no_nested(fit.node):
            if isinstance(s, ast.Assign) and len(s.targets) == 1 and is_self_attr(s.targets[0]):
                v = s.value
                if isinstance(v, ast.Attribute) and isinstance(v.value, ast.Name) and v.value.id == data:
                    attr = s.targets[0].attr
                    # is self.<attr> mutated in place anywhere in the class hierarchy?
                    mutated = []
                    for k in [cls] + chk.res.subclasses(cls) + chk.res.mro(cls)[1:]:
                        for m in k.methods.values():
                            for st, a, kind in _self_writes(chk, m):
                                if a == attr and kind != "rebind":
                                    mutated.append(f"{m.qualname}:{kind}")
                    immut = v.attr in ("tz", "is_electricity_data", "pv_start")
                    r2.require(immut or not mutated, f"{fit.key}|alias:self.{attr}={data}.{v.attr}", fit.where(s),
                               f"{fit.qualname} binds self.{attr} to the data object's own `{v.attr}` and the class later mutates it in place ({mutated[:3]}): fitting modifies the caller's data object",
                               sample={"alias": f"self.{attr} = {data}.{v.attr}", "mutations": mutated[:3]})
        r2.inst(f"{fit.key}|scanned")
    # ------------------------------------------------------------------ R02.3
    owners = {}
    for modname, base in ((DAILY_DATA, "_DailyData"), (HOURLY_DATA, "_HourlyData")):
        bc = chk.repo.cls(modname, base)
        owners[base] = bc
        dfp = bc.methods.get("df")
        if dfp is None:
            r3.require(False, f"{bc.key}.df|present", bc.module.rel, f"{base}.df accessor vanished")
        else:
            def _leaves(e):
                # the values a return expression can take: both arms of a conditional expression, operands of `x or y`
                if isinstance(e, ast.IfExp):
                    return _leaves(e.body) + _leaves(e.orelse)
                return [e]
            rets = [n for n in walk_no_nested(dfp.node) if isinstance(n, ast.Return) and n.value is not None and unparse(n.value) != "None"]
            vals = [x for r in rets for x in _leaves(r.value) if unparse(x) != "None"]
            ok = bool(vals) and all(unparse(x) in ("self._df.copy()", "self._df.copy(deep=True)") for x in vals) and any("property" in d for d in dfp.decorators)
            r3.require(ok, f"{dfp.key}|returns-copy", dfp.where(), f"{base}.df must be a property returning self._df.copy(); found {[unparse(r.value) for r in rets]}")
        for sub in chk.res.subclasses(bc):
            for nm in ("df",):
                r3.require(nm not in sub.methods and nm not in sub.attrs, f"{sub.key}|df-not-overridden", sub.module.rel, f"{sub.name} overrides the copying `df` accessor")
    bd = chk.repo.cls(BILLING_DATA, "_BillingData")
    bdf = bd.methods.get("billing_df")
    if bdf is not None:
        rets = [n for n in walk_no_nested(bdf.node) if isinstance(n, ast.Return) and n.value is not None and unparse(n.value) != "None"]
        # derived from self.df (a copy) or self._df.copy()
        txt = unparse(bdf.node)
        r3.require("self.df" in txt or "self._df.copy()" in txt, f"{bdf.key}|derived-from-copy", bdf.where(), "_BillingData.billing_df must be derived from a copy of the private frame")
    n_foreign = 0
    data_class_keys = set()
    for modname in (DAILY_DATA, BILLING_DATA, HOURLY_DATA):
        for c in chk.repo.module(modname).classes.values():
            data_class_keys.add(c.key)
    for fi in chk.repo.all_functions():
        for n in walk_no_nested(fi.node):
            if isinstance(n, ast.Attribute) and n.attr == "_df":
                own = isinstance(n.value, ast.Name) and n.value.id == "self" and fi.cls is not None
                if own and (fi.cls.key in data_class_keys or fi.module.name == "opendsm.common.metrics" or not any(k.key in data_class_keys for k in chk.res.mro(fi.cls))):
                    continue
                if isinstance(n.value, ast.Name) and n.value.id in ("self", "cls"):
                    continue
                n_foreign += 1
                r3.require(False, f"{fi.key}|foreign-access:{unparse(n)}", fi.where(n), f"{fi.qualname} reaches into the private frame `{unparse(n)}` of another object: the data object's storage escapes its class")
    r3.inst(f"who-may-access:_df|foreign={n_foreign}")
    # positive control for the who-may-access rule
    ctl = ast.parse("def f(self, data):\n    return data._df\n").body[0]
    if not any(isinstance(n, ast.Attribute) and n.attr == "_df" and isinstance(n.value, ast.Name) and n.value.id != "self" for n in ast.walk(ctl)):
        raise AnalysisError("R02.3 positive control failed")
    # ------------------------------------------------------------------ R02.4
    _copy_before_mutate(chk, r4)
    # ------------------------------------------------------------------ R02.5
    for name, cls in fams:
        for mname in ("predict", "_predict"):
            f = chk.res.find_method(cls, mname)
            if f is None:
                continue
            key = f"{f.key}|returns-fresh"
            if key in r5.instances:
                continue
            rd = ReachingDefs(f.node)
            og = Origins(f.node, rd, fresh_calls={"self._predict", "self._model.predict", "_transform_dst"})
            for rt in [n for n in walk_no_nested(f.node) if isinstance(n, ast.Return) and n.value is not None]:
                o = og.of(rt.value, rt)
                bad = [t for t in o if isinstance(t, tuple) and t[0] in ("PARAM", "VIEW", "SELF", "SELFVIEW")]
                r5.require(not bad, key, f.where(rt), f"{f.qualname} may return an object that shares storage with its input / the model ({sorted(map(str, bad))})",
                           sample={"function": f.qualname, "origin": sorted(map(str, o))})


def _models_do_not_write_data_objects(chk, r7):
    """R02.7.  Origin analysis of every in-place store in the fit / predict methods of the five model families.  `<data>.df` (or
    `getattr(<data>, self._data_df_name)`) is a fresh object only where the family's data classes expose `df` as a property that returns
    a copy (decided from the data class, R02.3); where `df` is a plain attribute the expression denotes the caller's own frame."""
    from rules.common import BILLING_MODEL, CALTRACK_WRAPPER, DAILY_MODEL, HOURLY_MODEL, WEIGHTED_MODEL

    def copying_df(data_mod: str) -> bool:
        m = chk.repo.modules.get(data_mod)
        if m is None:
            return False
        ok_any = False
        for c in m.classes.values():
            for k in chk.res.mro(c):
                dfp = k.methods.get("df")
                if dfp is not None:
                    rets = [n for n in walk_no_nested(dfp.node) if isinstance(n, ast.Return) and n.value is not None]
                    vals = []
                    for r in rets:
                        stack = [r.value]
                        while stack:
                            e = stack.pop()
                            if isinstance(e, ast.IfExp):
                                stack += [e.body, e.orelse]
                            elif unparse(e) != "None":
                                vals.append(e)
                    if any("property" in d for d in dfp.decorators) and vals and all(isinstance(v, ast.Call) and isinstance(v.func, ast.Attribute) and v.func.attr == "copy" for v in vals):
                        ok_any = True
                        break
        return ok_any
    fams = [(DAILY_MODEL, DAILY_DATA), (BILLING_MODEL, "opendsm.eemeter.models.billing.data"), (WEIGHTED_MODEL, "opendsm.eemeter.models.billing.data"),
            (HOURLY_MODEL, HOURLY_DATA), (CALTRACK_WRAPPER, "opendsm.eemeter.models.hourly_caltrack.data")]
    for mc, data_mod in fams:
        cls = chk.repo.cls(*mc)
        safe = copying_df(data_mod) or (data_mod.endswith("billing.data") and copying_df(DAILY_DATA))
        for mname in ("fit", "predict"):
            f = chk.res.find_method(cls, mname)
            if f is None:
                continue
            key0 = f"{cls.key}.{mname}"
            if key0 in r7.instances:
                continue
            params = [p for p in f.params if p not in ("self", "cls")]
            if not params:
                continue
            data = params[0]
            rd = ReachingDefs(f.node)

            class _O(Origins):
                def _of(self_, e, at):
                    if safe and isinstance(e, ast.Attribute) and e.attr in ("df", "billing_df") and isinstance(e.value, ast.Name) and e.value.id == data:
                        return frozenset({FRESH})
                    if safe and isinstance(e, ast.Call) and unparse(e.func) == "getattr" and e.args and isinstance(e.args[0], ast.Name) and e.args[0].id == data:
                        return frozenset({FRESH})
                    return Origins._of(self_, e, at)
            og = _O(f.node, rd, fresh_calls={"self._predict", "self._fit", "self._adaptive_fit", "self.model.predict", "self._model.predict"})
            n_st = 0
            for st, recv, kind in inplace_stores(f.node):
                if isinstance(recv, ast.Name) and recv.id == "self" or (isinstance(recv, ast.Attribute) and unparse(recv).startswith("self.")):
                    continue
                n_st += 1
                o = og.of(recv, st)
                bad = [t for t in o if isinstance(t, tuple) and t[0] in ("PARAM", "VIEW") and t[1] == data]
                r7.require(not bad, f"{f.key}|store-into-data-object:{unparse(recv)[:30]}|{kind}", f.where(st),
                           f"{f.qualname}: `{unparse(st)[:90]}` writes in place into an object that is (part of) the data object `{data}` the caller handed in "
                           + ("" if safe else f"(`{data}.df` is a plain attribute of this family's data classes, not a copy)") + ": using a model must not change the data",
                           sample={"function": f.qualname, "store": unparse(st)[:80]})
            r7.inst(key0, {"function": f.qualname, "in_place_stores_judged": n_st, "df_is_a_copy": safe})


def _copy_before_mutate(chk, r4):
    """Every in-place store in the data-class entry points and their helpers targets a FRESH object; index metadata stores are
    judged on the *index origin* (copy()/to_frame()/column selection share the index object with their source)."""
    entries: List[Tuple[FuncInfo, Set[str]]] = []
    def add(modname, qual, caller_params=None):
        f = chk.repo.try_func(modname, qual)
        if f is None:
            raise AnalysisError(f"anchor vanished: {modname}:{qual}")
        ps = set(p for p in f.params if p not in ("self", "cls")) if caller_params is None else set(caller_params)
        entries.append((f, ps))
    for q in ("_DailyData.__init__", "_DailyData.from_series", "_DailyData._set_data", "DailyReportingData.__init__", "DailyReportingData.from_series"):
        add(DAILY_DATA, q)
    for q in ("BillingReportingData.__init__", "BillingReportingData.from_series"):
        add(BILLING_DATA, q)
    for q in ("_HourlyData.__init__", "_HourlyData._set_data", "HourlyReportingData.__init__"):
        add(HOURLY_DATA, q)
    for q in ("HourlyReportingData.__init__", "HourlyBaselineData.__init__", "HourlyReportingData.from_series", "HourlyBaselineData.from_series"):
        add(CALTRACK_DATA, q)
    # helpers that receive caller data by reference (their parameter IS the caller's object when the argument is not fresh)
    helper_specs = [
        (DAILY_DATA, "_DailyData._compute_temperature_features", {"df"}),
        (BILLING_DATA, "_BillingData._compute_temperature_features", {"df"}),
        (DAILY_DATA, "_DailyData._compute_meter_value_df", {"df"}),
        (BILLING_DATA, "_BillingData._compute_meter_value_df", {"df"}),
        ("opendsm.eemeter.common.data_processor_utilities", "compute_minimum_granularity", {"index"}),
        ("opendsm.eemeter.common.data_processor_utilities", "clean_billing_data", {"data"}),
        ("opendsm.eemeter.common.data_processor_utilities", "downsample_and_clean_daily_data", {"dataset"}),
        ("opendsm.eemeter.common.data_processor_utilities", "as_freq", {"data_series"}),
        ("opendsm.eemeter.common.data_processor_utilities", "day_counts", {"index"}),
        (CALTRACK_DATA, "HourlyReportingData._correct_frequency", {"df"}),
    ]
    # value stores
    for f, params in entries:
        rd = ReachingDefs(f.node)
        og = Origins(f.node, rd, fresh_calls={"self._correct_frequency", "merge_features", "remove_duplicates", "cls", "super().from_series"})
        n = 0
        for st, recv, kind in inplace_stores(f.node):
            if isinstance(recv, ast.Name) and recv.id == "self":
                continue
            if is_self_attr(recv) or (isinstance(recv, ast.Attribute) and is_self_attr(recv.value)):
                continue
            o = og.of(recv, st)
            bad = [t for t in o if isinstance(t, tuple) and t[0] in ("PARAM", "VIEW") and t[1] in params]
            idx_store = kind.startswith("setattr") and (unparse(recv).endswith(".index") or kind == "setattr:freq")
            n += 1
            if kind == "setattr:index" and not bad:
                continue
            r4.require(not bad, f"{f.key}|store:{unparse(recv)}|{kind}", f.where(st),
                       f"{f.qualname}: `{unparse(st)[:80]}` writes into the caller's object (`{unparse(recv)}` may be {sorted(set(t[1] for t in bad))}); data classes must copy before mutating",
                       sample={"function": f.qualname, "store": unparse(st)[:70], "origin": sorted(map(str, o))})
        r4.inst(f"{f.key}|scanned[{n} stores]")
    # index-metadata stores in helpers: x.index.freq = ... / index.freq = ...   (shared index object)
    for modname, qual, params in helper_specs:
        f = chk.repo.try_func(modname, qual)
        if f is None:
            raise AnalysisError(f"anchor vanished: {modname}:{qual}")
        rd = ReachingDefs(f.node)
        og = Origins(f.node, rd, fresh_calls={"remove_duplicates"})
        n = 0
        for st, recv, kind in inplace_stores(f.node):
            if is_self_attr(recv) or (isinstance(recv, ast.Name) and recv.id == "self"):
                continue
            n += 1
            if kind == "setattr:freq":
                # index origin: strip .index; copy()/to_frame()/column selection keep the index object
                base = recv.value if isinstance(recv, ast.Attribute) and recv.attr == "index" else recv
                io = _index_origin(og, rd, base, st)
                bad = [t for t in io if isinstance(t, tuple) and t[1] in params]
                r4.require(not bad, f"{f.key}|index-freq-store:{unparse(recv)}", f.where(st),
                           f"{f.qualname}: `{unparse(st)[:70]}` sets .freq on an index object shared with the caller's data ({sorted(set(t[1] for t in bad))}): the caller's index metadata changes",
                           sample={"function": f.qualname, "store": unparse(st)[:70]})
                continue
            o = og.of(recv, st)
            bad = [t for t in o if isinstance(t, tuple) and t[0] in ("PARAM", "VIEW") and t[1] in params]
            # helpers called with fresh arguments only: decided at the call sites
            if bad and not _all_callers_pass_fresh(chk, f, [t[1] for t in bad]):
                r4.require(False, f"{f.key}|store:{unparse(recv)}|{kind}", f.where(st),
                           f"{f.qualname}: `{unparse(st)[:80]}` writes into parameter {sorted(set(t[1] for t in bad))}, and a caller passes an object that is not a fresh copy")
            else:
                r4.inst(f"{f.key}|store:{unparse(recv)}|{kind}")
        r4.inst(f"{f.key}|helper-scanned[{n} stores]")


def _index_origin(og: Origins, rd: ReachingDefs, e: ast.AST, at: ast.AST):
    """Origin of the *index object* of e: like Origins, but copy()/to_frame()/rename()/column selection/dropna keep the source's index identity
    only for copy/to_frame/rename/column selection (dropna, resample, reindex, concat build a new index)."""
    KEEP = {"copy", "to_frame", "rename", "astype", "sort_index_inplace"}
    if isinstance(e, ast.Call) and isinstance(e.func, ast.Attribute) and e.func.attr in KEEP:
        return _index_origin(og, rd, e.func.value, at)
    if isinstance(e, ast.Subscript):
        return _index_origin(og, rd, e.value, at)
    if isinstance(e, ast.Attribute) and e.attr == "index":
        return _index_origin(og, rd, e.value, at)
    if isinstance(e, ast.Name):
        out = set()
        for d in rd.reaching(at, e.id):
            if d.kind == "param":
                out.add(("PARAM", d.name))
            else:
                v = rd.value_of(d)
                if v is not None:
                    out |= set(_index_origin(og, rd, v, rd.def_stmt(d)))
        return frozenset(out)
    return frozenset(t for t in og.of(e, at) if isinstance(t, tuple))


def _all_callers_pass_fresh(chk, f: FuncInfo, params: List[str], depth: int = 0) -> bool:
    if depth > 4:
        return False
    plist = [p for p in f.params if p not in ("self", "cls")]
    for g in chk.repo.all_functions():
        for c in calls_in(g.node):
            if f not in chk.res.resolve_call(g, c):
                continue
            rd = ReachingDefs(g.node)
            og = Origins(g.node, rd, fresh_calls={"remove_duplicates", "merge_features"})
            st = g.module.enclosing_stmt(c)
            for p in params:
                arg = kwarg(c, p)
                if arg is None and p in plist and len(c.args) > plist.index(p):
                    arg = c.args[plist.index(p)]
                if arg is None:
                    continue
                o = og.of(arg, st)
                for t in o:
                    if isinstance(t, tuple) and t[0] == "VIEW":
                        return False
                    if isinstance(t, tuple) and t[0] == "PARAM":
                        # forwarded parameter: decided at the forwarder's own call sites (public helpers without in-package callers count as not fresh)
                        if not _has_callers(chk, g) or not _all_callers_pass_fresh(chk, g, [t[1]], depth + 1):
                            return False
    return True


def _has_callers(chk, f: FuncInfo) -> bool:
    for g in chk.repo.all_functions():
        for c in calls_in(g.node):
            if f in chk.res.resolve_call(g, c):
                return True
    return False
