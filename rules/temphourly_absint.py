"""The hourly temperature route of `_compute_temperature_features` (daily and billing data classes) under the one-row abstraction
(engine/rowabs.py), with a *typical row* beside the generic one.

`compute_temperature_features(meter_index, temp_series, data_quality=True)` hands back, per meter day, the mean temperature T and the
numbers of present / absent readings.  The frame is: many complete days (24 present, 0 absent - the typical row, which answers the
whole-frame questions such as `.median()`) and one generic day with n present and m absent readings.  For every (n, m) of a grid with a
day on each side of one half - among them the 23-hour spring-forward day with 12 readings, the 25-hour day with 13, and a short first
day - the outcome says whether the day's temperature is still T or blank and which warnings were filed (C09 R09.3 (b): a meter day is
missing, and reported, iff not_null / (not_null + null) <= 0.5).  How the mask is spelled (one statement or several, named medians,
`|=`, np.where, .loc / .mask / .where) does not matter; an extra term, another constant or operator changes the outcome table."""
from __future__ import annotations

import math
from typing import Any, Dict, List

from engine.absint import AbsObj, ClassRef, ModuleEnv, Opaque
from engine.index import AnalysisError
from engine.pyinterp import Function, Interp, InterpRaised, Stub, StubCall, Unsupported
from engine.rowabs import ABSENT, Idx, Mask, NPRow, PDRow, RowFrame, Ser, Stamp, _num
from rules.common import bind_like

# (present, absent) readings of the generic meter day; the typical day is (24, 0)
GRID = [(24, 0), (13, 11), (12, 12), (11, 13), (0, 24), (12, 11), (11, 12), (13, 12), (12, 13), (7, 6), (6, 7), (1, 0), (23, 0), (2, 1)]
TYPICAL = (24, 0)
COMPANIONS = [None, (0, 24)]   # scenarios: no other incomplete day in the frame / one day elsewhere without any reading
T_MEAN = 61.5
W_MISSING = "eemeter.sufficiency_criteria.missing_high_frequency_temperature_data"


class TMask(Mask):
    """A mask over the generic row (b), the typical rows (tb) and, in scenarios that have one, a companion row (cb); it still knows its
    index (the code lists the timestamps of the frame in the warning).  `any` / `all` / `sum` ask about the whole frame."""

    def __init__(self, b, tb=False, cb=None):
        super().__init__(b)
        self.tb, self.cb = bool(tb), (None if cb is None else bool(cb))

    def _lift(self, o, f):
        if isinstance(o, TMask):
            cb = None if (self.cb is None and o.cb is None) else f(bool(self.cb), bool(o.cb))
            return TMask(f(self.b, o.b), f(self.tb, o.tb), cb)
        if isinstance(o, Mask):
            raise Unsupported("boolean operation between a frame-wide mask and a mask of unknown extent")
        if isinstance(o, bool):
            return TMask(f(self.b, o), f(self.tb, o), None if self.cb is None else f(self.cb, o))
        raise Unsupported("boolean operation between a mask and " + type(o).__name__)

    def __and__(self, o): return self._lift(o, lambda a, b: a and b)
    __rand__ = __and__
    def __or__(self, o): return self._lift(o, lambda a, b: a or b)
    __ror__ = __or__
    def __xor__(self, o): return self._lift(o, lambda a, b: a != b)
    def __invert__(self): return TMask(not self.b, not self.tb, None if self.cb is None else not self.cb)
    def copy(self, *a, **k): return TMask(self.b, self.tb, self.cb)
    def to_numpy(self, *a, **k): return self.copy()

    @property
    def values(self): return self.copy()

    def any(self, *a, **k): return self.b or self.tb or bool(self.cb)
    def all(self, *a, **k): return self.b and self.tb and (self.cb is not False)

    def sum(self, *a, **k):
        if self.tb:
            raise Unsupported("count of a mask that holds on the typical rows")
        return int(self.b) + int(bool(self.cb))

    def astype(self, t):
        r = Mask.astype(self, t)
        if isinstance(r, Ser):
            conv = float if isinstance(r.v, float) else int
            return TSer(r.v, conv(self.tb), None if self.cb is None else conv(self.cb))
        return self.copy()

    @property
    def index(self):
        return Idx(True)

    def __getitem__(self, k):
        if isinstance(k, TMask):
            return _Sel(self.b and k.b, (self.tb and k.tb) or bool(self.cb and k.cb))
        raise Unsupported("mask[...] with a key that is not a frame-wide mask")


class _Sel(Stub):
    """mask[mask] / frame rows selected by a mask: only their labels / number are asked for."""

    def __init__(self, present, others=False):
        self.present, self.others = present, others

    @property
    def index(self):
        return Idx(self.present)

    def _abs_len(self):
        if self.others:
            return 2 if self.present else 1
        return 1 if self.present else 0

    @property
    def empty(self):
        return not (self.present or self.others)


class TSer(Ser):
    """A column with the generic row's value `v`, the typical rows' value `typ` (decides whole-frame statistics) and the companion row's
    value `comp` (None when the scenario has no companion row)."""

    def __init__(self, v, typ, comp=None):
        super().__init__(v)
        self.typ, self.comp = typ, comp

    def _arith(self, o, f, swap=False):
        r = Ser._arith(self, o, f, swap)
        if isinstance(o, TSer):
            ot, oc = o.typ, o.comp
        elif _num(o):
            ot, oc = o, o
        else:
            return r
        g = (lambda a, b: f(b, a)) if swap else f
        comp = None if (self.comp is None or oc is None) else g(self.comp, oc)
        return TSer(r.v, g(self.typ, ot), comp)

    def _cmp(self, o, f):
        b = Ser._cmp(self, o, f).b
        if isinstance(o, TSer):
            ot, oc = o.typ, o.comp
        elif isinstance(o, Ser):
            raise Unsupported("comparison between a frame column and a series of unknown extent")
        else:
            ot, oc = o, o
        cb = None if (self.comp is None or oc is None) else bool(f(self.comp, oc))
        return TMask(b, bool(f(self.typ, ot)), cb)

    def median(self, *a, **k):
        return self.typ

    def mode(self, *a, **k):
        return [self.typ]

    def quantile(self, q=0.5, *a, **k):
        if q in (0, 1, 0.0, 1.0):
            raise Unsupported("extreme quantile of a column under the typical-row abstraction")
        return self.typ

    def _nn(self, x):
        return not (isinstance(x, float) and math.isnan(x))

    def notnull(self): return TMask(Ser.notnull(self).b, self._nn(self.typ), None if self.comp is None else self._nn(self.comp))
    notna = notnull
    def isnull(self): return ~self.notnull()
    isna = isnull
    def copy(self, deep=True): return TSer(self.v, self.typ, self.comp)
    def rename(self, *a, **k): return TSer(self.v, self.typ, self.comp)

    def astype(self, t):
        r = Ser.astype(self, t)
        return TSer(r.v, self.typ, self.comp)

    def __getitem__(self, k):
        if isinstance(k, Mask):
            return Ser(self.v if (k.b and self.present()) else ABSENT)
        raise Unsupported("series[...] with a key that is not a mask")


MANY = 1000   # "many rows": the complete days of the frame


class _HFrame(RowFrame):
    def __init__(self, cols, typ, comp=None, present=True, buffered=False, others=MANY):
        super().__init__(cols, present)
        self.__dict__["_typ"] = dict(typ)
        self.__dict__["_comp"] = None if comp is None else dict(comp)
        self.__dict__["_buffered"] = buffered
        self.__dict__["_others"] = others    # rows of the frame beside the generic one

    def _col(self, c):
        s = RowFrame._col(self, c)
        cp = self.__dict__["_comp"]
        return TSer(s.v, self.__dict__["_typ"].get(c, math.nan), None if cp is None else cp.get(c, math.nan))

    def _mk(self, cols, present, typ=None, comp="same", others=None):
        d = self.__dict__
        return _HFrame(cols, d["_typ"] if typ is None else typ, d["_comp"] if comp == "same" else comp, present, d["_buffered"], d["_others"] if others is None else others)

    def __getitem__(self, k):
        if isinstance(k, slice):
            if (k.start, k.stop, k.step) == (None, -1, None):
                r = self._mk(self._cols, self._present)   # the buffer day appended to the meter index goes; the generic day is interior
                r.__dict__["_buffered"] = False
                return r
            raise Unsupported("frame slice other than [:-1]")
        if isinstance(k, TMask):
            others = MANY if k.tb else (1 if k.cb else 0)
            return self._mk(self._cols, self._present and k.b, others=others)
        if isinstance(k, Mask):
            raise Unsupported("frame[...] with a mask of unknown extent")
        if isinstance(k, list) and all(isinstance(x, str) for x in k):
            for x in k:
                self._col(x)
            cp = self.__dict__["_comp"]
            return self._mk({x: self._cols[x] for x in k}, self._present, {x: self.__dict__["_typ"].get(x) for x in k}, None if cp is None else {x: cp.get(x) for x in k})
        return RowFrame.__getitem__(self, k)

    @property
    def iloc(self):
        return self

    @property
    def empty(self):
        return not self._present and not self.__dict__["_others"]

    def _abs_len(self):
        return (1 if self._present else 0) + self.__dict__["_others"]

    @property
    def index(self):
        me = self

        class _I(Idx):
            def _abs_len(self_):
                return me._abs_len()

            @property
            def empty(self_):
                return me.empty
        return _I(self._present)

    def copy(self, deep=True):
        return self._mk(dict(self._cols), self._present, dict(self.__dict__["_typ"]), None if self.__dict__["_comp"] is None else dict(self.__dict__["_comp"]))

    def drop(self, columns=None, **k):
        fr = RowFrame.drop(self, columns, **k)
        return self._mk(fr._cols, fr._present)

    def rename(self, columns=None, **k):
        fr = RowFrame.rename(self, columns, **k)
        cp = self.__dict__["_comp"]
        ren = lambda d: {(columns or {}).get(c, c): t for c, t in d.items()}
        return self._mk(fr._cols, fr._present, ren(self.__dict__["_typ"]), None if cp is None else ren(cp))

    def assign(self, **k):
        fr = self.copy()
        for c, v in k.items():
            fr[c] = v
        return fr

    def __setitem__(self, k, v):
        RowFrame.__setitem__(self, k, v)
        self.__dict__["_typ"][k] = v.typ if isinstance(v, TSer) else (v if _num(v) else math.nan)
        if self.__dict__["_comp"] is not None:
            self.__dict__["_comp"][k] = v.comp if isinstance(v, TSer) else (v if _num(v) else math.nan)


class _FreqH(Stub):
    """index.freq of an hourly feed."""

    def __eq__(self, o):
        return o in ("h", "H", "1h", "1H", "60min", "60T")

    def __ne__(self, o):
        return not self.__eq__(o)

    def __gt__(self, o): return False
    def __ge__(self, o): return True
    def __lt__(self, o): return False
    def __le__(self, o): return True
    __hash__ = None

    def _abs_isinstance(self, t):
        ts = t if isinstance(t, tuple) else (t,)
        return any(isinstance(x, ClassRef) and x.name in ("Tick", "Hour", "DateOffset", "BaseOffset") for x in ts)


class _TIdx(Idx):
    _settable = True

    def __init__(self):
        super().__init__(True)
        self.__dict__["freq"] = None
        self.__dict__["inferred_freq"] = _FreqH()
        self.__dict__["tz"] = Opaque("tz")

    def __setattr__(self, k, v):
        self.__dict__[k] = v


class _TSeries(Ser):
    def __init__(self, v):
        super().__init__(v)
        self.__dict__["_idx"] = _TIdx()

    @property
    def index(self):
        return self.__dict__["_idx"]


class _In(Stub):
    def __init__(self):
        self.t = _TSeries(T_MEAN)

    def __getitem__(self, k):
        if k == "temperature":
            return self.t
        raise Unsupported(f"input column {k}")


class _MStamp(Stamp):
    def __add__(self, o):
        return _MStamp()

    __radd__ = __add__


class _MIdx(Idx):
    """The meter's day index (and what the code derives from it by appending a buffer day)."""

    def __init__(self, buffered=False):
        super().__init__(True)
        self.buffered = buffered

    def max(self, *a, **k):
        return _MStamp()

    def min(self, *a, **k):
        return _MStamp()

    def union(self, other, *a, **k):
        return _MIdx(True)

    def append(self, other, *a, **k):
        return _MIdx(True)

    def __getitem__(self, k):
        if isinstance(k, int):
            return _MStamp()
        return Idx.__getitem__(self, k)


class _PD(PDRow):
    from rules.tempcoverage_absint import _Offsets as _O, _TSeriesNS as _T
    tseries = _T()
    offsets = _O()

    @staticmethod
    def Timedelta(*a, **k):
        return Opaque("Timedelta")

    @staticmethod
    def DatetimeIndex(*a, **k):
        return _MIdx(True)


def outcomes(chk, fi) -> List[Dict[str, Any]]:
    ctf = chk.repo.func("opendsm.eemeter.common.features", "compute_temperature_features")
    out = []
    for (n, m), comp in [(g, c) for c in COMPANIONS for g in GRID]:
        seen: Dict[str, Any] = {}
        tseries = {}

        def compute(*a, **k):
            vals = bind_like(ctf, a, k)
            seen["calls"] = seen.get("calls", 0) + 1
            seen["meter_index"] = isinstance(vals.get("meter_data_index"), _MIdx)
            seen["temperature"] = vals.get("temperature_data") is tseries.get("t")
            seen["data_quality"] = vals.get("data_quality")
            seen["extra"] = sorted(k_ for k_, v_ in vals.items() if k_ not in ("meter_data_index", "temperature_data", "data_quality") and v_ is not None
                                   and v_ != ctf_defaults.get(k_, None))
            buffered = bool(getattr(vals.get("meter_data_index"), "buffered", False))
            row = lambda t, p, q: {"temperature_mean": t, "temperature_not_null": p, "temperature_null": q, "n_days_kept": 0, "n_days_dropped": 0}
            return _HFrame(row(T_MEAN, n, m), row(T_MEAN, *TYPICAL), None if comp is None else row(math.nan if comp[0] == 0 else T_MEAN, *comp), True, buffered)
        ctf_defaults = _defaults(ctf)
        warned: List[Any] = []
        me = AbsObj({"_DailyData", "_BillingData"}, warnings=warned, disqualification=[])
        it = Interp(step_limit=50_000)

        def as_freq(*a, **k):
            raise Unsupported("as_freq reached on the hourly route")
        env = ModuleEnv(chk.repo, fi.module, it, {"compute_temperature_features": StubCall(compute), "as_freq": StubCall(as_freq), "np": NPRow(), "numpy": NPRow(),
                                                  "pd": _PD(), "pandas": _PD(), "EEMeterWarning": StubCall(lambda **k: k.get("qualified_name")),
                                                  "MonthEnd": ClassRef("MonthEnd"), "MonthBegin": ClassRef("MonthBegin")})
        inp = _In()
        tseries["t"] = inp.t
        try:
            res = Function(fi.node, env, it)(me, inp, _MIdx())
        except InterpRaised as e:
            out.append({"n": n, "m": m, "companion": comp, "raises": e.exc_name})
            continue
        except Unsupported as e:
            raise AnalysisError(f"{fi.key}: the hourly temperature route uses an operation outside the one-row abstraction: {e}")
        if not (isinstance(res, tuple) and len(res) == 2 and isinstance(res[0], Ser)):
            out.append({"n": n, "m": m, "companion": comp, "returns": repr(res)[:80]})
            continue
        v = res[0].v
        feats = res[1].describe() if isinstance(res[1], RowFrame) else None
        out.append({"n": n, "m": m, "companion": comp, "present": v is not ABSENT, "value": None if (v is ABSENT or (isinstance(v, float) and math.isnan(v))) else v,
                    "warned": list(warned), "call": dict(seen), "features": feats,
                    "buffer_left": bool(isinstance(res[1], _HFrame) and res[1].__dict__.get("_buffered"))})
    return out


def _defaults(fi) -> Dict[str, Any]:
    import ast
    a = fi.node.args
    names = [x.arg for x in a.posonlyargs + a.args]
    out: Dict[str, Any] = {}
    for nm, d in zip(names[len(names) - len(a.defaults):], a.defaults):
        try:
            out[nm] = ast.literal_eval(d)
        except Exception:
            out[nm] = None
    for x, d in zip(a.kwonlyargs, a.kw_defaults):
        if d is not None:
            try:
                out[x.arg] = ast.literal_eval(d)
            except Exception:
                out[x.arg] = None
    return out
