"""C20 — baseline and reporting windows never leak across the intervention."""
from __future__ import annotations

import ast
from typing import Dict, List, Optional, Set, Tuple

from engine import boolalg
from engine.cfg import CFG, ENTRY, EXIT, RAISE
from engine.dataflow import FRESH, Origins, ReachingDefs, inplace_stores, own_exprs
from engine.index import AnalysisError, FuncInfo, calls_in, const_str, kwarg, unparse, walk_no_nested
from engine.pdfacts import FACTS
from rules.common import raise_class

T = "opendsm.eemeter.common.transform"


class Prov:
    """Provenance classifier for the frames / bounds of one window function.

    side='baseline': the hard bound is the UPPER bound (requested `end`); 'reporting': the LOWER bound (`start`)."""

    def __init__(self, fi: FuncInfo, side: str):
        self.fi = fi
        self.side = side
        self.cfg = CFG(fi.node)
        self.rd = ReachingDefs(fi.node, self.cfg)
        self.hard_param = "end" if side == "baseline" else "start"
        self.soft_param = "start" if side == "baseline" else "end"
        self.problems: List[Tuple[ast.AST, str]] = []
        self._seen: Set[Tuple[int, int, str]] = set()

    # -- names
    def _defs(self, name: str, at: ast.AST):
        return self.rd.reaching(at, name)

    def _each_value(self, name_node: ast.Name, at: ast.AST):
        defs = self._defs(name_node.id, at)
        if not defs and name_node.id in self.fi.module.constants and name_node.id not in self.fi.params:
            # a module-level constant (bound once at import): its defining expression, which may name further constants
            import copy as _copy
            expr = _copy.deepcopy(self.fi.module.constants[name_node.id])
            for _round in range(4):
                names = [n for n in ast.walk(expr) if isinstance(n, ast.Name) and n.id in self.fi.module.constants]
                if not names:
                    break

                class _R(ast.NodeTransformer):
                    def visit_Name(s_, n):
                        c_ = self.fi.module.constants.get(n.id)
                        return _copy.deepcopy(c_) if c_ is not None and isinstance(n.ctx, ast.Load) else n
                expr = _R().visit(expr)
            yield ("expr", expr, at)
            return
        for d in defs:
            if d.kind == "param":
                yield ("param", d.name, None)
            else:
                v = self.rd.value_of(d)
                yield ("expr", v, self.rd.def_stmt(d))

    # -- frames: data[:HARD] / F.copy() / F[SOFT:] (baseline)   |   data[HARD:] / F.copy() / F[:SOFT] (reporting)
    def frame(self, e: ast.AST, at: ast.AST) -> Optional[bool]:
        """Returns True if e is a frame derived from `data` with the hard bound applied on every derivation,
        False if it derives from data without the hard bound, None if it is not a recognised derivation (problem recorded)."""
        key = (id(e), id(at), "F")
        if key in self._seen:
            return True
        self._seen.add(key)
        if isinstance(e, ast.Name):
            res = True
            for kind, v, st in self._each_value(e, at):
                if kind == "param":
                    if v == "data":
                        res = False if res is not None else None
                    else:
                        self.problems.append((at, f"frame `{e.id}` may be the parameter `{v}`"))
                        res = None
                elif v is None:
                    self.problems.append((at, f"frame `{e.id}` has an unrecognised definition"))
                    res = None
                else:
                    r = self.frame(v, st)
                    if r is None:
                        res = None
                    elif r is False and res is not None:
                        res = False
            return res
        if isinstance(e, ast.Call) and isinstance(e.func, ast.Attribute) and e.func.attr == "copy" and not e.args:
            return self.frame(e.func.value, at)
        if isinstance(e, ast.Subscript) and isinstance(e.value, ast.Attribute) and e.value.attr == "loc" and isinstance(e.slice, ast.Slice):
            fake = ast.Subscript(value=e.value.value, slice=e.slice, ctx=ast.Load())
            return self.frame(fake, at)
        if isinstance(e, ast.Subscript) and isinstance(e.slice, ast.Slice) and e.slice.step is None:
            lo, hi = e.slice.lower, e.slice.upper
            inner = self.frame(e.value, at)
            if inner is None:
                return None
            hard_e, soft_e = (hi, lo) if self.side == "baseline" else (lo, hi)
            ok = inner
            if hard_e is not None:
                if self.bound(hard_e, at, hard=True):
                    ok = True
                else:
                    return None
            if soft_e is not None:
                if not self.bound(soft_e, at, hard=False):
                    return None
            return ok
        if isinstance(e, ast.Subscript) and isinstance(e.value, ast.Attribute) and e.value.attr == "loc" and isinstance(e.slice, ast.Slice):
            fake = ast.Subscript(value=e.value.value, slice=e.slice, ctx=ast.Load())
            return self.frame(fake, at)
        self.problems.append((at, f"frame derivation `{unparse(e)[:70]}` is not a label slice / copy of the input (rows may be added or taken from elsewhere)"))
        return None

    def _is_extreme(self, e: ast.AST, hard: bool) -> bool:
        t = unparse(e)
        want_max = (self.side == "baseline") == hard  # baseline hard=upper -> Timestamp.max ; baseline soft=lower -> min
        return ("pd.Timestamp.max" in t) if want_max else ("pd.Timestamp.min" in t)

    def bound(self, e: ast.AST, at: ast.AST, hard: bool) -> bool:
        """Is e an admissible bound?  hard: only the requested limit, +-infinity, or an index extreme of an already bounded frame.
        soft: additionally hard -/+ timedelta(days=max_days) and an index label of a bounded frame."""
        key = (id(e), id(at), "H" if hard else "S")
        if key in self._seen:
            return True
        self._seen.add(key)
        if isinstance(e, ast.Name):
            ok = True
            for kind, v, st in self._each_value(e, at):
                if kind == "param":
                    if v != (self.hard_param if hard else self.soft_param) and not (not hard and v == self.hard_param):
                        self.problems.append((at, f"{'hard' if hard else 'soft'} bound `{e.id}` may be the parameter `{v}`"))
                        ok = False
                elif v is None:
                    self.problems.append((at, f"bound `{e.id}` has an unrecognised definition"))
                    ok = False
                else:
                    ok = self.bound(v, st, hard) and ok
            return ok
        if isinstance(e, ast.IfExp):
            # either arm may be the bound: both must be admissible (`LIMIT if x is None else x`)
            a_ = self.bound(e.body, at, hard)
            b_ = self.bound(e.orelse, at, hard)
            return a_ and b_
        if self._is_extreme(e, hard):
            return True
        # a name bound to the index of a frame (`idx = frame.index`) reads like `frame.index`
        def _index_of(x):
            if isinstance(x, ast.Name):
                vals = list(self._each_value(x, at))
                if vals and all(k_ == "expr" and isinstance(v_, ast.Attribute) and v_.attr == "index" for k_, v_, _s in vals) and len({unparse(v_) for _k, v_, _s in vals}) == 1:
                    return vals[0][1]
            return x
        if isinstance(e, ast.Call) and isinstance(e.func, ast.Attribute) and e.func.attr in ("max", "min") and not e.args:
            ix = _index_of(e.func.value)
            if ix is not e.func.value:
                e = ast.Call(func=ast.Attribute(value=ix, attr=e.func.attr, ctx=ast.Load()), args=[], keywords=[])
        if isinstance(e, ast.Subscript):
            ix = _index_of(e.value)
            if ix is not e.value:
                e = ast.Subscript(value=ix, slice=e.slice, ctx=ast.Load())
        # <bounded frame>.index.max() / .min()
        if isinstance(e, ast.Call) and isinstance(e.func, ast.Attribute) and e.func.attr in ("max", "min") and not e.args \
                and isinstance(e.func.value, ast.Attribute) and e.func.value.attr == "index":
            want = "max" if ((self.side == "baseline") == hard) else "min"
            fr = self.frame(e.func.value.value, at)
            if fr is True and (e.func.attr == want or not hard):
                return True
            if fr is True and hard and e.func.attr != want:
                return True  # the other extreme of a bounded frame is still inside the bound
            self.problems.append((at, f"bound `{unparse(e)}` is an index extreme of a frame that is not bounded by `{self.hard_param}`"))
            return False
        if not hard:
            # hard -/+ timedelta(days=max_days)
            if isinstance(e, ast.BinOp) and isinstance(e.op, (ast.Sub, ast.Add)):
                want_op = ast.Sub if self.side == "baseline" else ast.Add
                r = e.right
                is_td = isinstance(r, ast.Call) and unparse(r.func) in ("timedelta", "datetime.timedelta", "pd.Timedelta") and \
                    [(k.arg, unparse(k.value)) for k in r.keywords] == [("days", "max_days")] and not r.args
                if isinstance(e.op, want_op) and is_td and self.bound(e.left, at, hard=True):
                    return True
                self.problems.append((at, f"window start/end `{unparse(e)}` is not `<requested limit> {'-' if self.side == 'baseline' else '+'} timedelta(days=max_days)`"))
                return False
            # <bounded frame>.index[loc]
            if isinstance(e, ast.Subscript) and isinstance(e.value, ast.Attribute) and e.value.attr == "index":
                if self.frame(e.value.value, at) is True:
                    return True
                self.problems.append((at, f"`{unparse(e)}` indexes a frame that is not bounded by `{self.hard_param}`"))
                return False
        self.problems.append((at, f"{'requested-limit' if hard else 'window'} bound `{unparse(e)[:60]}` is loosened or of unknown provenance"))
        return False


def _check_window(chk, r1, r2, r3, fname: str, side: str, err_name: str):
    fi = chk.repo.func(T, fname)
    pv = Prov(fi, side)
    cfg, rd = pv.cfg, pv.rd
    rets = [s for s in cfg.stmts() if isinstance(s, ast.Return)]
    if not rets:
        raise AnalysisError(f"{fname}: no return")
    frames = []
    for rt in rets:
        if not (isinstance(rt.value, ast.Tuple) and len(rt.value.elts) == 2):
            r1.require(False, f"{fi.key}|returns(frame, warnings)", fi.where(rt), f"{fname} must return (frame, warnings)")
            continue
        fe = rt.value.elts[0]
        ok = pv.frame(fe, rt)
        msgs = "; ".join(dict.fromkeys(m for _s, m in pv.problems))
        r1.require(ok is True, f"{fi.key}|window-bounds", fi.where(rt),
                   f"{fname}: the returned frame is not provably `data` cut at the requested `{pv.hard_param}` and at most max_days away: "
                   + (msgs or f"some derivation of the returned frame lacks the `{pv.hard_param}` cut"),
                   sample={"function": fname, "hard_bound": pv.hard_param, "problems": [m for _s, m in pv.problems][:4]})
        frames.append(fe)
    # R20.1c non-interference: the selection is a function of the bounded part of the input only.  Every expression in the
    # backward slice (data *and* control dependences) of the returned frame may read `data` only through a slice that
    # applies the hard bound; `data.index.max()`, `len(data)`, ... of the whole series may feed the warnings, never the window.
    def _unbounded_reads(e):
        parents = {}
        for n in ast.walk(e):
            for c in ast.iter_child_nodes(n):
                parents[id(c)] = n
        out = []
        for n in ast.walk(e):
            if isinstance(n, ast.Name) and n.id == "data" and isinstance(n.ctx, ast.Load):
                p = parents.get(id(n))
                if isinstance(p, ast.Attribute) and p.attr == "loc" and p.value is n:
                    n2, p = p, parents.get(id(p))
                else:
                    n2 = n
                if isinstance(p, ast.Subscript) and p.value is n2 and isinstance(p.slice, ast.Slice):
                    hard_e = p.slice.upper if side == "baseline" else p.slice.lower
                    if hard_e is not None:
                        continue
                out.append(p if p is not None else n)
        return out

    facts = cfg.must_facts()
    seen_st: Set[int] = set()
    visited = 0
    work: List[Tuple[ast.AST, ast.AST]] = [(rt, fe) for rt, fe in zip(rets, frames)]
    flagged: Set[str] = set()
    while work:
        at, e = work.pop()
        for bad in _unbounded_reads(e):
            t = unparse(bad)[:70]
            if t not in flagged:
                flagged.add(t)
                r1.require(False, f"{fi.key}|window-depends-on-unbounded-input:{t}", fi.where(at),
                           f"{fname}: `{t}` reads the whole input (not cut at `{pv.hard_param}`) and flows, through data or control dependence, into the returned window: "
                           f"rows on the other side of the intervention decide which rows are selected", sample={"function": fname, "expression": t, "at": unparse(at)[:80]})
        for n in ast.walk(e):
            if isinstance(n, ast.Name) and isinstance(n.ctx, ast.Load):
                for d in rd.reaching(at, n.id):
                    ds = rd.def_stmt(d)
                    if ds is None or id(ds) in seen_st:
                        continue
                    seen_st.add(id(ds))
                    visited += 1
                    for oe in own_exprs(ds):
                        work.append((ds, oe))
                    for f_ in facts.get(id(ds), frozenset()):
                        ts = cfg.stmt_of.get(f_.test_id)
                        if ts is not None and not isinstance(ts, (ast.For, ast.AsyncFor)):
                            work.append((ts, cfg.tests[f_.test_id]))
    # control dependences of the returns themselves (early raises)
    for rt in rets:
        for f_ in facts.get(id(rt), frozenset()):
            ts = cfg.stmt_of.get(f_.test_id)
            if ts is not None and not isinstance(ts, (ast.For, ast.AsyncFor)) and id(ts) not in seen_st:
                seen_st.add(id(ts))
                w2 = [(ts, cfg.tests[f_.test_id])]
                while w2:
                    at, e = w2.pop()
                    for bad in _unbounded_reads(e):
                        t = unparse(bad)[:70]
                        if t not in flagged:
                            flagged.add(t)
                            r1.require(False, f"{fi.key}|window-depends-on-unbounded-input:{t}", fi.where(at), f"{fname}: `{t}` reads the whole input and decides whether the window is returned")
                    for n in ast.walk(e):
                        if isinstance(n, ast.Name) and isinstance(n.ctx, ast.Load):
                            for d in rd.reaching(at, n.id):
                                ds = rd.def_stmt(d)
                                if ds is not None and id(ds) not in seen_st:
                                    seen_st.add(id(ds))
                                    visited += 1
                                    for oe in own_exprs(ds):
                                        w2.append((ds, oe))
    if visited < 6:
        raise AnalysisError(f"{fname}: the backward slice of the returned frame visited only {visited} definitions (expected the slicing pipeline)")
    r1.inst(f"{fi.key}|non-interference-slice")
    chk.note(f"{fname}: non-interference slice visited {visited} definitions; unbounded reads of the input in the slice: {sorted(flagged)}") if hasattr(chk, "note") else None
    # R20.1d the max_days window is applied whenever max_days is given (0 included) and the requested limit is finite
    import copy as _copy
    inf_flag = "end_inf" if side == "baseline" else "start_inf"
    md_sites = [st for st in cfg.stmts() if isinstance(st, ast.Assign) and isinstance(st.value, ast.BinOp) and isinstance(st.value.right, ast.Call)
                and unparse(st.value.right.func) in ("timedelta", "datetime.timedelta", "pd.Timedelta") and any(k.arg == "days" and unparse(k.value) == "max_days" for k in st.value.right.keywords)]
    r1.require(len(md_sites) == 1, f"{fi.key}|max_days-window-present", fi.where(), f"{fname}: expected exactly one `<limit> +/- timedelta(days=max_days)` window definition; found {len(md_sites)}")
    for st in md_sites:
        class _Truthy(ast.NodeTransformer):
            """a bare `max_days` in a boolean position means `max_days is not None and max_days != 0`"""
            def visit_BoolOp(self, n):
                n.values = [self._t(self.visit(v)) for v in n.values]
                return n

            def visit_UnaryOp(self, n):
                n.operand = self.visit(n.operand)
                if isinstance(n.op, ast.Not):
                    n.operand = self._t(n.operand)
                return n

            @staticmethod
            def _t(v):
                if isinstance(v, ast.Name) and v.id == "max_days":
                    return ast.parse("(max_days is not None) and (max_days != 0)", mode="eval").body
                return v

        def atomizer(e):
            z, neg = boolalg.strip_truthiness(e)
            if isinstance(z, ast.Name) and z.id == inf_flag:
                return ("inf", neg)
            if isinstance(z, ast.Compare) and len(z.ops) == 1:
                l, r_, o = unparse(z.left), unparse(z.comparators[0]), type(z.ops[0])
                lim = pv.hard_param
                if l == lim and r_ == "None" and o in (ast.Is, ast.IsNot, ast.Eq, ast.NotEq):
                    return ("inf", neg != (o in (ast.IsNot, ast.NotEq)))
                if l == "max_days" and r_ == "None" and o in (ast.Is, ast.IsNot, ast.Eq, ast.NotEq):
                    return ("none", neg != (o in (ast.IsNot, ast.NotEq)))
                if l == "max_days" and r_ in ("0", "0.0") and o in (ast.Eq, ast.NotEq):
                    return ("zero", neg != (o is ast.NotEq))
                if l == "max_days" and r_ in ("0", "0.0") and o in (ast.Gt, ast.LtE):
                    return ("zero", neg != (o is ast.Gt))  # for the non-negative day counts the property speaks of: > 0 means != 0
            return None
        gs = []
        for f_ in cfg.must_facts().get(id(st), frozenset()):
            ts = cfg.stmt_of.get(f_.test_id)
            if ts is None or isinstance(ts, (ast.For, ast.AsyncFor)):
                continue
            t = _Truthy().visit(_copy.deepcopy(cfg.tests[f_.test_id]))
            t = _Truthy._t(t)
            ast.fix_missing_locations(t)
            try:
                boolalg.truth_table(t, atomizer, ["inf", "none", "zero"])
            except boolalg.Unrecognised:
                continue
            gs.append((t, f_.polarity))
        ok = False
        detail = None
        if gs:
            tt = boolalg.conj_table(gs, atomizer, ["inf", "none", "zero"])
            detail = {k: v for k, v in tt.items()}
            ok = all(tt[(i, n, z)] == ((not i) and (not n)) for i in (False, True) for n in (False, True) for z in (False, True) if not (n and z))
        r1.require(ok, f"{fi.key}|max_days-window-applied-iff-given", fi.where(st),
                   f"{fname}: `{unparse(st)[:70]}` must run exactly when the requested `{pv.hard_param}` is finite and max_days is not None (max_days = 0 included: a falsy test lets max_days=0 "
                   f"return the whole history); path condition over (limit open, max_days is None, max_days == 0): {detail}", sample={"statement": unparse(st)[:80]})
    # no row source other than `data`
    for c in calls_in(fi.node):
        def _is_plain_list(recv, at):
            if not isinstance(recv, ast.Name):
                return False
            vals = [rd.value_of(d) for d in rd.reaching(at, recv.id)]
            return bool(vals) and all(isinstance(v, ast.List) or (isinstance(v, ast.Call) and unparse(v.func) == "list") for v in vals)
        if unparse(c.func) in ("pd.concat", "pd.merge") or (isinstance(c.func, ast.Attribute) and c.func.attr in ("append", "join", "merge", "combine_first", "reindex") and
                                                            not _is_plain_list(c.func.value, fi.module.enclosing_stmt(c))):
            r1.require(False, f"{fi.key}|row-source:{unparse(c.func)}", fi.where(c), f"{fname}: `{unparse(c)[:60]}` can contribute rows that are not a slice of the input")
    r1.inst(f"{fi.key}|no-other-row-source")
    # R20.2 in-place stores
    og = Origins(fi.node, rd)
    stores = inplace_stores(fi.node)
    blank = []
    for st, recv, kind in stores:
        if unparse(recv) == "warnings":
            continue
        o = og.of(recv, st)
        fresh = o == frozenset({FRESH})
        r2.require(fresh, f"{fi.key}|store:{unparse(recv)}|{kind}", fi.where(st),
                   f"{fname}: in-place store `{unparse(st)[:60]}` may write into the caller's data (origin {sorted(map(str, o))}): the input must never be modified",
                   sample={"function": fname, "store": unparse(st)[:60], "origin": sorted(map(str, o))})
        if isinstance(st, ast.Assign) and isinstance(st.targets[0], ast.Subscript) and unparse(st.targets[0]).endswith(".iloc[-1]") and unparse(st.value) in ("np.nan", "float('nan')"):
            blank.append(st)
    ok_blank = bool(blank) and cfg.must_pass_through(blank) and all(any(unparse(b.targets[0].value.value) == unparse(f) for f in frames) for b in blank)
    r2.require(ok_blank, f"{fi.key}|final-row-blanked", fi.where(), f"{fname}: a path returns without blanking the final row of the returned frame (its interval is open-ended)")
    # R20.3 empty selection raises the dedicated error before the store
    exc = chk.repo.cls("opendsm.eemeter.common.exceptions", err_name)
    raises = [n for n in walk_no_nested(fi.node) if isinstance(n, ast.Raise) and raise_class(chk, fi, n) is exc]
    ok = False
    if raises and blank:
        g = cfg.guards(raises[0])
        tests = [unparse(t) for t, pol in g if pol]
        ok = any(any(unparse(f) + ".dropna().empty" == t or unparse(f) + ".empty" == t for f in frames) for t in tests)
        # every path to the blanking store passes the test node
        ifs = [a for a in fi.module.ancestors(raises[0]) if isinstance(a, ast.If)]
        ok = ok and bool(ifs) and all(cfg.dominates(ifs[0], b) for b in blank)
    r3.require(ok, f"{fi.key}|empty-raises-{err_name}", fi.where(), f"{fname}: an empty selection must raise {err_name} before the final row is blanked")
    return fi


def _find_warning_builder(chk, qualified_name: str) -> FuncInfo:
    """The function of the transform module that builds the warning with this qualified name (the private builder, or the window
    function itself when the builder was renamed / inlined)."""
    hits = []
    for f in chk.repo.module(T).all_funcs:
        for c in calls_in(f.node):
            if unparse(c.func) == "EEMeterWarning" and const_str(kwarg(c, "qualified_name")) == qualified_name:
                hits.append(f)
    if not hits:
        raise AnalysisError(f"no function of {T} builds the warning `{qualified_name}`")
    return hits[0]


def _check_warnings(chk, r3, fi: FuncInfo, side: str, names: Tuple[str, str]):
    """The gap warnings of one window function, judged on the window function *with its private warning builder inlined* (so the
    builder's signature does not matter): each warning's path condition, with naming steps expanded, must be
        end gap:    not <end open>   and  <input>.index.max() < <end limit used for slicing>
        start gap:  not <start open> and  <start limit used for slicing> < <input>.index.min()"""
    from engine.inline import inline_calls_into
    from engine.pattern import Expander
    builder = _find_warning_builder(chk, names[0])
    node = fi.node if builder.key == fi.key else inline_calls_into(fi.node, [builder.node], T)
    cfg = CFG(node)
    ex = Expander(node)
    DATA = fi.params[0]
    found = {}
    parent = {}
    for x in ast.walk(node):
        for c in ast.iter_child_nodes(x):
            parent[id(c)] = x
    stmts = {id(s_) for s_ in cfg.stmts()}
    for c in [c for c in ast.walk(node) if isinstance(c, ast.Call) and unparse(c.func) == "EEMeterWarning"]:
        q = const_str(kwarg(c, "qualified_name"))
        st = c
        while st is not None and id(st) not in stmts:
            st = parent.get(id(st))
        found[q] = st
    spec = {names[0]: ("end_inf", "end", (f"{DATA}.index.max()", "<", "end_limit")), names[1]: ("start_inf", "start", ("start_limit", "<", f"{DATA}.index.min()"))}
    for q, (flag, lim, (a, op, b)) in spec.items():
        st = found.get(q)
        if st is None:
            r3.require(False, f"{fi.key}|{q}|present", fi.where(), f"{fi.name}: warning `{q}` is no longer produced")
            continue

        def atomizer(e):
            s_, neg = boolalg.strip_truthiness(e)
            t_ = unparse(s_)
            if t_ == flag:
                return ("inf", neg)
            if isinstance(s_, ast.Compare) and len(s_.ops) == 1:
                l, r_ = unparse(s_.left), unparse(s_.comparators[0])
                o = type(s_.ops[0])
                if {l, r_} == {lim, "None"} and o in (ast.Is, ast.IsNot, ast.Eq, ast.NotEq):
                    return ("inf", neg != (o in (ast.IsNot, ast.NotEq)))
                if (l, r_) == (a, b) and o is ast.Lt:
                    return ("gap", neg)
                if (l, r_) == (b, a) and o is ast.Gt:
                    return ("gap", neg)
                if (l, r_) == (a, b) and o is ast.GtE:
                    return ("gap", not neg)
                if (l, r_) == (b, a) and o is ast.LtE:
                    return ("gap", not neg)
            return None
        gs = []
        for f_ in cfg.must_facts().get(id(st), frozenset()):
            ts = cfg.stmt_of.get(f_.test_id)
            if ts is None or isinstance(ts, (ast.For, ast.AsyncFor)):
                continue
            t = ex.expand(cfg.tests[f_.test_id], ts)
            try:
                boolalg.truth_table(t, atomizer, ["inf", "gap"])
            except boolalg.Unrecognised:
                # a condition about something else (e.g. the empty-selection test) does not decide the warning ...
                if any(x in unparse(t) for x in (flag, "index.max()", "index.min()", "_limit")) and "empty" not in unparse(t):
                    gs.append((t, f_.polarity))  # ... but an unrecognised condition over the same quantities does
                continue
            gs.append((t, f_.polarity))
        ok = False
        why = ""
        try:
            tt = boolalg.conj_table(gs, atomizer, ["inf", "gap"]) if gs else None
            ok = tt is not None and all(tt[(i, g)] == ((not i) and g) for i in (False, True) for g in (False, True))
            why = "" if ok else f" (path condition: {[ (unparse(t)[:60], p) for t, p in gs]})"
        except boolalg.Unrecognised as e:
            why = f" (unrecognised condition {e})"
        r3.require(ok, f"{fi.key}|{q}|condition", fi.where(), f"{fi.name}: `{q}` must be produced iff not {flag} and {a} {op} {b}{why}",
                   sample={"warning": q, "condition": f"not {flag} and {a} {op} {b}"})
    # what the window function hands out as its second element is the list the warnings were appended to
    r3.inst(f"{fi.key}|warnings-judged-with-builder-inlined")
    return builder


def run(chk):
    chk.explanation = (
        "The frame returned by each window function is traced back through its reaching definitions: every derivation must be a "
        "label slice / copy of the `data` parameter whose hard bound (baseline: upper = `end`; reporting: lower = `start`) has reaching "
        "definitions only among {the requested limit, Timestamp.max/min, an index extreme of an already bounded frame} and whose other "
        "bound is at most `limit -/+ timedelta(days=max_days)` or an index label of the bounded frame; every in-place store targets an "
        "object whose origin is FRESH on all paths; the blanking store and the dedicated errors are on every path; the two gap-warning "
        "conditions have the required truth tables; the two siblings are cross-checked.")
    chk.trusted += [FACTS[0], FACTS[5], "label slicing data[a:b] selects exactly the rows with a <= label <= b"]
    chk.assumptions.append("G6: evaluated for the declared pandas range (>=1.1), where a slice may be a view; under copy-on-write the copy-before-mutate rule is sufficient rather than necessary")
    chk.not_decided += ["get_indexer(method='nearest') semantics (which boundary is 'nearest')", "callers passing the arguments in the right roles"]
    r1 = chk.rule("R20.1", "bound provenance: returned frame = data sliced at the requested limit (never loosened) and at most max_days away; no other row source", 4)
    r2 = chk.rule("R20.2", "copy-before-mutate: every in-place store targets a FRESH object; the final row is blanked on every path", 4)
    r3 = chk.rule("R20.3", "empty selection raises the dedicated error before the store; gap warnings fire iff not *_inf and the data falls short; four distinct qualified names", 8)
    b = _check_window(chk, r1, r2, r3, "get_baseline_data", "baseline", "NoBaselineDataError")
    r = _check_window(chk, r1, r2, r3, "get_reporting_data", "reporting", "NoReportingDataError")
    _check_warnings(chk, r3, b, "baseline", ("eemeter.get_baseline_data.gap_at_baseline_end", "eemeter.get_baseline_data.gap_at_baseline_start"))
    _check_warnings(chk, r3, r, "reporting", ("eemeter.get_reporting_data.gap_at_reporting_end", "eemeter.get_reporting_data.gap_at_reporting_start"))
    quals = set()
    for f_ in chk.repo.module(T).all_funcs:
        for c in calls_in(f_.node):
            if unparse(c.func) == "EEMeterWarning" and (const_str(kwarg(c, "qualified_name")) or "").startswith(("eemeter.get_baseline_data.", "eemeter.get_reporting_data.")):
                quals.add(const_str(kwarg(c, "qualified_name")))
    r3.require(len(quals) == 4, f"{T}|four-distinct-gap-warnings", "transform.py", f"the four gap warnings must have distinct qualified names; found {sorted(quals)}")
