"""Abstract interpretation of features.compute_temperature_features as the daily and billing data classes call it
(`compute_temperature_features(meter_index, temp_series, data_quality=True)`), shared by C09/R09.3.

The function is interpreted from its AST (engine/pyinterp) on recording frames: the temperature series is a symbol, grouping onto the
meter index (merge_asof + groupby, `_matching_groups` is interpreted too) is a description, `.agg({col: [(name, f), ...]})` applies every
aggregator to a symbolic group, and the rename table is *applied* to the resulting column keys.  The verdict is read from the frame
that comes out: which aggregate of which grouping ends up under the names temperature_mean / temperature_not_null / temperature_null —
however the aggregator list and the rename table are put together (literals, extend/update, append/item stores, helper functions)."""
from __future__ import annotations

from typing import Any, Dict, List, Optional, Tuple

from engine.absint import AbsBool, ModuleEnv, Oracle, explore
from engine.index import AnalysisError, FuncInfo
from engine.pyinterp import Function, Interp, InterpRaised, Stub, StubCall, Unsupported
from rules.colterms import CT


class TD(Stub):
    """A duration, in hours."""

    def __init__(self, hours: float):
        self.hours = hours

    def __eq__(self, o):
        return isinstance(o, TD) and o.hours == self.hours

    def __ne__(self, o):
        return not self.__eq__(o)

    def __hash__(self):
        return hash(("TD", self.hours))

    def __lt__(self, o): return self.hours < _hours(o)
    def __le__(self, o): return self.hours <= _hours(o)
    def __gt__(self, o): return self.hours > _hours(o)
    def __ge__(self, o): return self.hours >= _hours(o)

    def key(self):
        return f"{self.hours:g}h"

    __repr__ = key


def _hours(o) -> float:
    if isinstance(o, TD):
        return o.hours
    raise Unsupported("comparison of a duration with " + type(o).__name__)


_FREQ_HOURS = {"h": 1.0, "d": 24.0}


class Freq(Stub):
    """The frequency attribute of an index ('h' or 'D')."""

    def __init__(self, code: str):
        self.code = code

    def __eq__(self, o):
        if isinstance(o, str):
            return o.lower() in (self.code.lower(), "1" + self.code.lower())
        if isinstance(o, Freq):
            return o.code.lower() == self.code.lower()
        if isinstance(o, TD):
            return _FREQ_HOURS[self.code.lower()] == o.hours
        return False

    def __ne__(self, o):
        return not self.__eq__(o)

    def __hash__(self):
        return hash(("Freq", self.code.lower()))

    def __gt__(self, o): return _FREQ_HOURS[self.code.lower()] > _hours(o)
    def __lt__(self, o): return _FREQ_HOURS[self.code.lower()] < _hours(o)


class _No(Stub):
    """`index.duplicated()` of a well-formed meter index: nothing is."""

    def any(self):
        return False


class MIdx(Stub):
    def __init__(self, freq: Optional[str]):
        self.freq = Freq(freq) if freq else None
        self.inferred_freq = freq
        self.tz = "tz"

    def duplicated(self, **k):
        return _No()

    def key(self):
        return "meter_index"


class FIndex(Stub):
    def __init__(self, key: str):
        self._key = key

    def key(self):
        return self._key


def _idx_key(i) -> str:
    if isinstance(i, (MIdx, FIndex)):
        return i.key()
    raise Unsupported("reindex onto something that is not the meter index or a frame's own index")


class ColsFrame(Stub):
    """idx: description of the row labels; cols: name -> recording column; ops: row operations applied since the frame was made."""

    def __init__(self, idx: str, cols: Dict[Any, Any], ops: Optional[List[str]] = None, oracle: Optional[Oracle] = None):
        self._idx, self._cols, self._ops, self._oracle = idx, dict(cols), list(ops or []), oracle

    def _new(self, idx=None, cols=None, ops=None):
        return ColsFrame(self._idx if idx is None else idx, self._cols if cols is None else cols, self._ops if ops is None else ops, self._oracle)

    def key(self):
        cols = ", ".join(f"{k}={v.key() if hasattr(v, 'key') else repr(v)}" for k, v in self._cols.items())
        return f"frame[{self._idx}]{{{cols}}}{self._ops if self._ops else ''}"

    @property
    def index(self):
        return FIndex(self._idx)

    @property
    def columns(self):
        return list(self._cols)

    def __contains__(self, c):
        return c in self._cols

    def __getitem__(self, c):
        if isinstance(c, (str, tuple)):
            if c not in self._cols:
                raise InterpRaised("KeyError", str(c))
            return self._cols[c]
        if isinstance(c, list):
            return self._new(cols={k: self[k] for k in c})
        raise Unsupported("frame[...] with a row selector on the recording frame")

    def __setitem__(self, c, v):
        if not isinstance(c, (str, tuple)):
            raise Unsupported("frame[...] = ... with a non-column key on the recording frame")
        self._cols[c] = v

    def __delitem__(self, c):
        if c not in self._cols:
            raise InterpRaised("KeyError", str(c))
        del self._cols[c]

    def __getattr__(self, name):
        if name.startswith("_"):
            raise AttributeError(name)
        if name in self.__dict__.get("_cols", {}):
            return self._cols[name]
        raise AttributeError(name)

    def assign(self, **kw):
        cols = dict(self._cols)
        for k, v in kw.items():
            cols[k] = v(self) if isinstance(v, Function) else v
        return self._new(cols=cols)

    def rename(self, columns=None, **k):
        if columns is None or k or not isinstance(columns, dict):
            raise Unsupported("rename() other than rename(columns={...}) on the recording frame")
        return self._new(cols={columns.get(c, c): v for c, v in self._cols.items()})

    def drop(self, labels=None, axis=0, columns=None, **k):
        if k:
            raise Unsupported("drop() with further keyword arguments on the recording frame")
        if columns is None:
            if axis not in (1, "columns"):
                raise Unsupported("drop() of rows on the recording frame")
            columns = labels
        cs = [columns] if isinstance(columns, (str, tuple)) else list(columns)
        for c in cs:
            if c not in self._cols:
                raise InterpRaised("KeyError", str(c))
        return self._new(cols={c: v for c, v in self._cols.items() if c not in cs})

    def reindex(self, index=None, **k):
        if k:
            raise Unsupported("reindex() with keyword arguments on the recording frame")
        key = _idx_key(index)
        return self._new(idx=key, ops=self._ops + [f"reindex({key})"])

    def dropna(self, how="any", **k):
        if k:
            raise Unsupported("dropna() with further arguments on the recording frame")
        tag = "dropna" if how == "any" else f"dropna({how})"
        return self._new(idx=f"{tag}({self._idx})", ops=self._ops + [tag])

    @property
    def empty(self):
        if self._oracle is None:
            raise Unsupported("frame.empty without an oracle")
        return AbsBool(f"empty({self._ops[-1] if self._ops else self._idx})", self._oracle)

    @property
    def iloc(self):
        return _ILoc(self)

    def copy(self, deep=True):
        return self._new()


class _ILoc(Stub):
    def __init__(self, fr: ColsFrame):
        self._fr = fr

    def __getitem__(self, k):
        if isinstance(k, slice) and k.start is None and k.step is None and k.stop == -1:
            return self._fr._new(idx=f"{self._fr._idx}[:-1]", ops=self._fr._ops + ["iloc[:-1]"])
        raise Unsupported("frame.iloc[...] other than [:-1] on the recording frame")


class TData(Stub):
    """The temperature series handed to the function."""

    def __init__(self, oracle):
        self._oracle = oracle
        self.index = MIdx("h")   # the siblings hand over an hourly, timezone-aware series (their own guard)

    def to_frame(self, name="temperature"):
        return ColsFrame("temps", {name: CT("col:temp", oracle=self._oracle)}, oracle=self._oracle)


class Merged(Stub):
    def __init__(self, left, right, kw):
        self.left, self.right, self.kw = left, right, kw

    def groupby(self, by, **k):
        if k:
            raise Unsupported("groupby() with keyword arguments on the merged frame")
        return Groups(self, by)


class Groups(Stub):
    def __init__(self, merged: Merged, by):
        self.merged, self.by = merged, by

    def agg(self, spec):
        if not isinstance(spec, dict):
            raise Unsupported("groups.agg() with something other than {column: [(name, aggregator), ...]}")
        cols: Dict[Any, Any] = {}
        orc = self.merged.left._oracle
        for col, funcs in spec.items():
            if col not in self.merged.left._cols:
                raise InterpRaised("KeyError", str(col))
            if not isinstance(funcs, (list, tuple)):
                raise Unsupported("aggregator spec that is not a list of (name, aggregator)")
            for item in funcs:
                if not (isinstance(item, tuple) and len(item) == 2 and isinstance(item[0], str)):
                    raise Unsupported("aggregator spec entry that is not (name, aggregator)")
                nm, f = item
                c = CT("agg", _describe(f), col, oracle=orc)
                c.groups = self
                cols[(col, nm)] = c
        return ColsFrame(f"by:{self.by}", cols, oracle=orc)


def _describe(f) -> str:
    if isinstance(f, str):
        return f"{f}(x)"
    if isinstance(f, Function):
        try:
            r = f(CT("x"))
        except (Unsupported, InterpRaised, TypeError, ValueError, AttributeError):
            return f"fn:{getattr(f.node, 'name', 'lambda')}"
        return r.key() if isinstance(r, CT) else f"fn:{getattr(f.node, 'name', 'lambda')}"
    raise Unsupported("aggregator that is neither a name nor a function of the analysed code")


class _SeriesCtor(Stub):
    pass


class PDt(Stub):
    Series = _SeriesCtor()

    def __init__(self, oracle):
        self._oracle = oracle

    def Timedelta(self, x=None, **kw):
        if isinstance(x, Freq):
            return TD(_FREQ_HOURS[x.code.lower()])
        if isinstance(x, str):
            t = x.strip().lower().replace(" ", "")
            for suf, h in (("hours", 1.0), ("hour", 1.0), ("h", 1.0), ("days", 24.0), ("day", 24.0), ("d", 24.0)):
                if t.endswith(suf):
                    n = t[: -len(suf)] or "1"
                    try:
                        return TD(float(n) * h)
                    except ValueError:
                        break
            raise InterpRaised("ValueError", f"Timedelta({x!r})")
        if x is None and kw:
            return TD(sum(float(v) * {"hours": 1.0, "days": 24.0, "minutes": 1 / 60.0}[k] for k, v in kw.items()))
        raise Unsupported(f"pd.Timedelta of {type(x).__name__}")

    def DataFrame(self, data=None, index=None):
        if not isinstance(index, MIdx) or not isinstance(data, dict):
            raise Unsupported("pd.DataFrame other than DataFrame({...}, index=<meter index>)")
        cols = {}
        for k, v in data.items():
            cols[k] = CT("index_values", oracle=self._oracle) if isinstance(v, MIdx) else CT(f"const:{v!r}", oracle=self._oracle)
        return ColsFrame("meter_index", cols, oracle=self._oracle)

    def merge_asof(self, left=None, right=None, **kw):
        if not isinstance(left, ColsFrame) or not isinstance(right, ColsFrame):
            raise Unsupported("pd.merge_asof of something other than two recording frames")
        return Merged(left, right, {k: (v.key() if isinstance(v, TD) else v) for k, v in kw.items()})

    def concat(self, parts, axis=0, **k):
        if axis != 1 or k:
            raise Unsupported("pd.concat other than column-wise on the recording frames")
        parts = list(parts)
        cols: Dict[Any, Any] = {}
        for p in parts:
            if not isinstance(p, ColsFrame):
                raise Unsupported("pd.concat of something that is not a recording frame")
            if p._ops:
                raise Unsupported("pd.concat of a frame with pending row operations")
            cols.update(p._cols)
        return ColsFrame("concat(" + ", ".join(p._idx for p in parts) + ")", cols, oracle=self._oracle)


class NPt(Stub):
    nan = float("nan")

    @staticmethod
    def full(shape, v):
        return CT("full", v if not (isinstance(v, float) and v != v) else "nan")

    @staticmethod
    def maximum(a, b):
        return CT("maximum", a, b)


def _ct_extras():
    """CT grows what this function touches on a column: .shape and .apply(pd.Series)."""
    if getattr(CT, "_tempfeat_extras", False):
        return
    CT._tempfeat_extras = True
    plain_apply = CT.apply

    def apply(self, f):
        if isinstance(f, _SeriesCtor):
            return ColsFrame(f"index({self.key()})", {"*expanded": self._mk("expanded", self)}, oracle=self._oracle)
        return plain_apply(self, f)
    CT.apply = apply


def interpret(chk, fi: FuncInfo, freq: Optional[str]) -> List[Tuple[List[Tuple[str, bool]], Dict[str, Any]]]:
    """All decision sequences of compute_temperature_features(meter_index[freq], temps, data_quality=True)."""
    _ct_extras()
    oracle = Oracle()

    def run():
        it = Interp(step_limit=100_000)
        stand = {"pd": PDt(oracle), "pandas": PDt(oracle), "np": NPt(), "numpy": NPt()}
        env = ModuleEnv(chk.repo, fi.module, it, stand)
        try:
            res = Function(fi.node, env, it)(MIdx(freq), TData(oracle), data_quality=True)
        except InterpRaised as e:
            return {"raises": e.exc_name}
        if not isinstance(res, ColsFrame):
            return {"returns": repr(res)[:80]}
        return {"frame": res}
    try:
        return explore(run, oracle)
    except Unsupported as e:
        raise AnalysisError(f"{fi.key}: uses an operation outside the modelled subset (meter index frequency {freq}): {e}")


WANT_GROUPED = {"temperature_mean": "mean(x)", "temperature_not_null": "count(x)", "temperature_null": "sum(not(notna(x)))"}
WANT_HOURLY = {"temperature_mean": "col:temp", "temperature_not_null": "astype(notna(col:temp), 'int')", "temperature_null": "astype(not(notna(col:temp)), 'int')"}


def judge(trace, o: Dict[str, Any], freq: Optional[str]) -> List[Tuple[str, str]]:
    """[(obligation, message)] for one outcome."""
    all_nan = any(v for t, v in trace if t.startswith("empty(dropna(all)"))
    if "raises" in o:
        if all_nan and o["raises"] == "ValueError":
            return []
        return [("shape", f"raises {o['raises']} on a well-formed meter index of frequency {freq}")]
    if "frame" not in o:
        return [("shape", f"does not return the feature frame: {o}")]
    fr: ColsFrame = o["frame"]
    bad: List[Tuple[str, str]] = []
    if freq == "h":
        for c, w in WANT_HOURLY.items():
            got = fr._cols.get(c)
            got = got.key() if isinstance(got, CT) else repr(got)
            if got != w:
                bad.append(("hourly-fast-route-counts" if c != "temperature_mean" else "mean-aggregator", f"hourly meter index: column `{c}` is {got}; it must be {w}"))
        rows = ["reindex(meter_index)", "dropna", "reindex(meter_index)", "iloc[:-1]", "reindex(meter_index)"]
        if fr._ops != rows and fr._ops != rows[:3]:
            bad.append(("rows", f"hourly meter index: row operations {fr._ops}; expected {rows}"))
        return bad
    tol = TD(_FREQ_HOURS[freq.lower()]).key() if freq else None
    for c, w in WANT_GROUPED.items():
        ob = {"temperature_mean": "mean-aggregator", "temperature_not_null": "count-aggregators", "temperature_null": "count-aggregators"}[c]
        col = fr._cols.get(c)
        if not isinstance(col, CT) or col.op != "agg":
            have = {k: (v.args[0] if isinstance(v, CT) and v.op == "agg" else "?") for k, v in fr._cols.items()}
            bad.append((ob if c == "temperature_mean" else "count-renames", f"the result has no aggregated column `{c}` (columns: {have})"))
            continue
        if col.args[0] != w:
            bad.append((ob if col.args[0] not in WANT_GROUPED.values() else "count-renames",
                        f"column `{c}` is the per-meter-period aggregate {col.args[0]} of the readings; it must be {w}"))
        g: Groups = getattr(col, "groups", None)
        m = g.merged if g is not None else None
        ok = (m is not None and g.by == "index_col" and m.left._idx == "temps" and list(m.left._cols) == [col.args[1]] and not m.left._ops
              and m.right._idx == "meter_index" and isinstance(m.right._cols.get("index_col"), CT) and m.right._cols["index_col"].key() == "index_values" and not m.right._ops
              and m.kw == {"left_index": True, "right_index": True, "tolerance": tol})
        if not ok:
            bad.append(("grouped-onto-meter-index", f"column `{c}`: the readings must be grouped onto the meter index by merge_asof(readings, meter starts, on the indexes, tolerance = the index "
                                                    f"frequency ({tol})) grouped by the meter start; found by={getattr(g, 'by', None)}, arguments {getattr(m, 'kw', None)}"))
    ops = fr._ops
    # the siblings append a buffer stamp and cut the last row again: whether that row is blanked here does not reach them
    ok_rows = (len(ops) in (2, 4) and ops[0] == "dropna" and ops[1].startswith("reindex(concat(") and "concat(meter_index, by:index_col)" in ops[1]
               and (len(ops) == 2 or (ops[2] == "iloc[:-1]" and ops[3] == ops[1])))
    if not ok_rows:
        bad.append(("rows", f"row operations after the aggregation are {ops}; expected [dropna, reindex(own index), iloc[:-1], reindex(own index)] on the meter index joined with the "
                            "groups (partial rows blanked, last row blank, every meter start kept)"))
    if "meter_value" in fr._cols:
        bad.append(("renames-applied", "the placeholder column meter_value is handed out"))
    return bad
