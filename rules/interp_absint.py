"""interpolate() of opendsm/common/hourly_interpolation.py (C17: values kept, fills flagged) decided by symbolic interpretation.

The function is interpreted from its AST on recording values (engine.absint.Sym): the frame is a root symbol; a column store
`df[col] = ...` replaces what later reads of `df[col]` see, so the term finally stored in a column *is* the chain of operations
applied to the original column, and the mask of the flag store mentions the original column where it was captured before the
fills and the filled column where it is read after them.  Data-dependent tests (column present, flag already there, anything
still missing) are explored both ways; the frame length is taken from one representative per side of every lag threshold."""
from __future__ import annotations

import re
from typing import Any, Dict, List, Tuple

from engine.absint import ModuleEnv, Oracle, Sym, SymWorld, canon, explore, sym_root
from engine.index import AnalysisError
from engine.pyinterp import Function, Interp, InterpRaised, StubCall, Unsupported

HI = "opendsm.common.hourly_interpolation"
LENGTHS = {50: None, 72: None, 73: 25, 100: 25, 504: 25, 505: 169, 600: 169, 1008: 169, 1009: 337, 5000: 337}


def outcomes(chk, col: str = "temperature") -> List[Dict[str, Any]]:
    fi = chk.repo.func(HI, "interpolate")
    outs = []
    flag = f"interpolated_{col}"
    for n, columns in [(n_, {col, "observed"}) for n_ in LENGTHS] + [(600, {"observed"}), (600, {col, flag}), (50, {col, flag})]:
        orc = Oracle()

        def run():
            w = SymWorld(orc)
            df = sym_root(w, "df")
            w.lengths[df.key()] = n
            w.members["df.columns"] = set(columns)
            calls = []

            def icol(x, lags, *a, **k):
                calls.append((canon(x), lags))
                return Sym(w, "call", sym_root(w, "_interpolate_col"), (x, lags), ())
            it = Interp(step_limit=100_000)
            env = ModuleEnv(chk.repo, fi.module, it, {"_interpolate_col": StubCall(icol), "np": sym_root(w, "np"), "pd": sym_root(w, "pd")})
            try:
                r = Function(fi.node, env, it)(df, [col])
            except InterpRaised as e:
                return {"raises": e.exc_name}
            same = isinstance(r, Sym) and r._op == "root" and r._args == ("df",)
            return {"returns_df": same, "cols": {k: canon(v) for k, v in (r._cols.items() if isinstance(r, Sym) else [])}, "effects": list(w.effects), "autocorr_calls": calls}
        try:
            for tr, res in explore(run, orc):
                res = dict(res)
                res["n_rows"] = n
                res["columns"] = sorted(columns)
                res["decisions"] = tr
                outs.append(res)
        except Unsupported as e:
            raise AnalysisError(f"{fi.key}: uses an operation outside the modelled subset: {e}")
    return outs


_FILLS = [
    (re.compile(r"^(.*)\.interpolate\(limit_direction='both', method='time'\)$"), "time interpolation"),
    (re.compile(r"^(.*)\.ffill\(\)$"), "ffill"),
    (re.compile(r"^(.*)\.bfill\(\)$"), "bfill"),
    (re.compile(r"^_interpolate_col\((.*)\.copy\(\), \d+\)$"), "autocorrelation fill"),
    (re.compile(r"^_interpolate_col\((.*), \d+\)$"), "autocorrelation fill"),
]


def fill_chain(term: str, orig: str) -> Tuple[bool, List[str]]:
    """Is `term` the original column with only fill-only operations applied (they write missing cells only)?"""
    ops = []
    cur = term
    for _ in range(12):
        if cur == orig:
            return True, ops
        for rx, name in _FILLS:
            m = rx.match(cur)
            if m:
                ops.append(name)
                cur = m.group(1)
                break
        else:
            return False, ops
    return False, ops


def judge(o: Dict[str, Any], col: str = "temperature") -> List[Tuple[str, str]]:
    bad: List[Tuple[str, str]] = []
    ctx = f"(frame of {o['n_rows']} rows with columns {o['columns']}, decisions {[(t[:50], v) for t, v in o['decisions']]})"
    if "raises" in o:
        return [("data", f"interpolate raises {o['raises']} {ctx}")]
    if not o["returns_df"]:
        bad.append(("flag", f"interpolate must return the frame it was given {ctx}"))
    flag = f"interpolated_{col}"
    orig = f"df['{col}']"
    absent = col not in o["columns"]
    has_flag = flag in o["columns"]
    filled = o["cols"].get(col)
    stores = [e for e in o["effects"] if e[0] == "setitem"]
    if absent or has_flag:
        if filled is not None or flag in o["cols"] or stores:
            bad.append(("flag", f"a column that is absent, or whose {flag} flag already exists, must be left alone; found stores {list(o['cols'])} {stores} {ctx}"))
        return bad
    want_lags = LENGTHS[o["n_rows"]]
    got_lags = [l for _x, l in o["autocorr_calls"]]
    if got_lags != ([want_lags] if want_lags else []):
        bad.append(("data", f"autocorrelation fill must use {want_lags or 'no'} lags for a frame of {o['n_rows']} rows; found {got_lags} {ctx}"))
    final = filled if filled is not None else orig
    ok, ops = fill_chain(final, orig)
    if not ok:
        bad.append(("data", f"the column finally stored is `{final[:200]}`: only fill-only operations on the same column (autocorrelation fill, time interpolation, ffill, bfill) may write a data column {ctx}"))
    # nothing remains missing unless the whole column was empty: on the path where values are still missing after every earlier step,
    # both a forward and a backward fill must have been applied (trusted pandas fact: x.ffill().bfill() has a NaN only if x is all-NaN)
    still = [v_ for t_, v_ in o["decisions"] if ".isna()" in t_ and "== 0" in t_]
    if ok and still and not any(still) and not {"ffill", "bfill"} <= set(ops):
        bad.append(("data", f"values can remain missing in a column that has readings: on the path where every earlier fill left gaps the column ends as `{final[:160]}` "
                            f"(a forward and a backward fill are both needed to reach leading and trailing gaps) {ctx}"))
    if o["cols"].get(flag) != "False":
        bad.append(("flag", f"the flag column must be initialised False after the fills; found {o['cols'].get(flag)} {ctx}"))
    missing = f"df.loc[{orig}.isna()].index"
    want_a = f"(df.index.isin({missing}) & invert({final}.isna()))"
    want_b = f"(invert({final}.isna()) & df.index.isin({missing}))"
    want_c = f"(df.index.isin({missing}) & {final}.notna())"
    flag_stores = [e for e in stores if e[2].endswith(f", '{flag}')")]
    masks = [e[2][1:-len(f", '{flag}')")] for e in flag_stores]
    if len(flag_stores) != 1 or flag_stores[0][3] != "True" or masks[0] not in (want_a, want_b, want_c) or ".loc" not in flag_stores[0][1]:
        bad.append(("flag", f"the flag must be set True exactly on was-missing (captured before the first fill) & now-present (read after the last fill); found {[(m[:260]) for m in masks] or 'no flag store'}, expected `{want_a[:260]}` {ctx}"))
    other = [e for e in stores if e not in flag_stores]
    if other:
        bad.append(("data", f"unexpected in-place stores {other} {ctx}"))
    extra_cols = [c for c in o["cols"] if c not in (col, flag)]
    if extra_cols:
        bad.append(("data", f"unexpected column stores {extra_cols} {ctx}"))
    return bad


# ------------------------------------------------------------------------------------------------ cross-column flow (C05 R05.4)
def cross_column_outcomes(chk) -> List[Dict[str, Any]]:
    """interpolate() on a frame holding temperature, ghi and observed, for every order in which the three columns can be handed in (the
    hourly data classes use temperature, observed, ghi), short / medium / long frames.  Every argument of the autocorrelation fill is
    recorded, and scalars computed from a column keep that column in their term; what comes back is, per column, the term finally stored
    and the terms of its flag stores."""
    import itertools
    fi = chk.repo.func(HI, "interpolate")
    outs = []
    cols3 = ["temperature", "observed", "ghi"]
    orders = [list(p) for p in itertools.permutations(cols3)] + [None]
    for n in (50, 100, 600, 5000):
        for order in orders:
            orc = Oracle()

            def run():
                w = SymWorld(orc)
                df = sym_root(w, "df")
                w.lengths[df.key()] = n
                w.members["df.columns"] = set(cols3)

                def icol(x, lags, *a, **k):
                    return Sym(w, "call", sym_root(w, "_interpolate_col"), (x, lags) + tuple(a), tuple(sorted(k.items())))
                it = Interp(step_limit=200_000)
                env = ModuleEnv(chk.repo, fi.module, it, {"_interpolate_col": StubCall(icol), "np": sym_root(w, "np"), "pd": sym_root(w, "pd")})
                try:
                    r = Function(fi.node, env, it)(df, order) if order is not None else Function(fi.node, env, it)(df)
                except InterpRaised as e:
                    return {"raises": e.exc_name}
                return {"cols": {k: canon(v) for k, v in (r._cols.items() if isinstance(r, Sym) else [])}, "effects": [tuple(str(x) for x in e) for e in w.effects]}
            try:
                seen = set()
                for tr, res in explore(run, orc, max_runs=2048):
                    sig = repr(sorted((res.get("cols") or {}).items())) + repr(res.get("effects")) + repr(res.get("raises"))
                    if sig in seen:
                        continue
                    seen.add(sig)
                    res = dict(res)
                    res.update(n_rows=n, order=order, decisions=tr)
                    outs.append(res)
            except Unsupported as e:
                raise AnalysisError(f"{fi.key}: uses an operation outside the modelled subset: {e}")
    return outs


def usage_into_weather(o: Dict[str, Any]) -> List[str]:
    """Weather columns (and their flags) whose stored term mentions the usage column."""
    bad = []
    for c, term in (o.get("cols") or {}).items():
        if ("temperature" in c or "ghi" in c) and "observed" in term:
            bad.append(f"df['{c}'] = {term[:220]}")
    for e in o.get("effects") or []:
        if e and e[0] == "setitem" and any(("temperature" in x or "ghi" in x) for x in e[2:3]) and any("'observed'" in x for x in e[2:]):
            if "interpolated_temperature" in e[2] or "interpolated_ghi" in e[2] or "'temperature')" in e[2] or "'ghi')" in e[2]:
                bad.append(f"store {e[1:]}"[:260])
    return bad


def usage_controls_weather(outs: List[Dict[str, Any]]) -> List[str]:
    """Implicit flow: the interpreter explores every data-dependent test both ways and records the tested term.  Project each run onto
    what concerns the weather columns only: the sequence of tests whose term does not mention the usage column, and the terms finally
    stored for temperature / ghi and their flags.  In a program where usage does not steer the weather columns, two runs that answered
    the weather-only tests identically so far are asked the same next weather-only test, and end with the same weather terms.  A
    divergence is a test on the usage column deciding what happens to a weather column."""
    bad: List[str] = []
    groups: Dict[Tuple[Any, Any], List[Dict[str, Any]]] = {}
    for o in outs:
        if "raises" in o:
            continue
        groups.setdefault((o["n_rows"], repr(o["order"])), []).append(o)
    for (n, order), runs in groups.items():
        trie: Dict[Tuple, Any] = {}
        for o in runs:
            wonly = [(t, v) for t, v in o["decisions"] if "observed" not in t]
            proj = tuple(sorted((c, t) for c, t in (o.get("cols") or {}).items() if "temperature" in c or "ghi" in c)) + \
                tuple(e for e in (o.get("effects") or []) if any(("interpolated_temperature" in x or "interpolated_ghi" in x) for x in e))
            prefix: Tuple = ()
            for i, (t, v) in enumerate(wonly):
                node = trie.setdefault(prefix, {"next": t, "by": o})
                if node.get("next") is None:
                    node["next"] = "<end>"
                if node["next"] != t:
                    ob = [d for d in o["decisions"] if "observed" in d[0]][:2]
                    bad.append(f"columns {order}, {n} rows: after the same answers to the weather-only tests, one run goes on to test `{node['next'][:120]}` and another `{t[:120]}`; "
                               f"the difference is decided by a test on the usage column ({[x[0][:100] for x in ob]})")
                    break
                prefix = prefix + ((t, v),)
            else:
                node = trie.setdefault(prefix, {"next": "<end>", "proj": proj, "by": o})
                if node.get("next") != "<end>":
                    bad.append(f"columns {order}, {n} rows: one run stops where another goes on to test `{str(node.get('next'))[:120]}`, decided by a test on the usage column")
                elif node.get("proj", proj) != proj:
                    bad.append(f"columns {order}, {n} rows: same answers to every weather-only test, different weather columns stored: {[x for x in proj if x not in node['proj']][:1]}")
        if bad:
            break
    return bad[:3]
