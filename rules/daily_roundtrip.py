"""Symbolic round trip of the daily / billing model's persisted state (C01): DailyModel._create_params_from_fit_model is interpreted on
a model object whose fitted state is symbolic, the parameter record it builds is dumped (pydantic: model_dump of nested records gives
nested dicts), pushed through the JSON data model, and DailyModel.from_dict is interpreted on that document.  The restored object is
compared with the original: the parameter record field by field, the settings the new model is built from, the decoded warning and
disqualification lists, the timezone, is_fitted.

Trusted: for the plain pydantic records of daily/parameters.py, building a record from the dump of a record gives an equal record
(what their custom methods do to coefficient order and model type is the subject of R01.7 / R12.3)."""
from __future__ import annotations

from typing import Any, Dict, List

from engine.absint import AbsObj, BoundRepoMethods, ModuleEnv, Opaque
from engine.index import AnalysisError
from engine.pyinterp import Function, Interp, InterpRaised, Stub, StubCall, Unsupported
from rules.hourly_roundtrip import SV, RecObj, _dump, _val_key, json_pass

PARAMS = "opendsm.eemeter.models.daily.parameters"


class _Warn(Stub):
    def __init__(self, tag: str):
        self.qualified_name, self.description, self.data = SV(f"{tag}.qualified_name"), SV(f"{tag}.description"), SV(f"{tag}.data")

    def json(self):
        return {"qualified_name": self.qualified_name, "description": self.description, "data": self.data}


def _record_ctor(chk, name: str, problems: List[str]):
    ci = chk.repo.modules[PARAMS].classes.get(name)
    declared = [n for n, (ann, v, st) in ci.attrs.items() if ann is not None and n != "model_config"] if ci is not None else None
    required = [n for n, (ann, v, st) in ci.attrs.items() if ann is not None and v is None and n != "model_config"] if ci is not None else []

    def ctor(*a, **kw):
        if a:
            raise Unsupported(f"{name}(...) with positional arguments")
        if declared is not None:
            extra = [k for k in kw if k not in declared]
            missing = [k for k in required if k not in kw]
            if extra:
                problems.append(f"{name} is given `{extra[0]}`, which it does not declare (pydantic drops it silently)")
            if missing:
                problems.append(f"{name} is built without its required field `{missing[0]}`")
        return RecObj(name, {k: v for k, v in kw.items() if declared is None or k in declared})
    return StubCall(ctor)


class _Model(AbsObj, BoundRepoMethods):
    """The model object: what the scenario does not set is the repository's own method, interpreted."""


def round_trip(chk, dm, cp, fd, through_json: bool) -> Dict[str, Any]:
    problems: List[str] = []
    stand = {"DailyModelParameters": _record_ctor(chk, "DailyModelParameters", problems), "DailySubmodelParameters": _record_ctor(chk, "DailySubmodelParameters", problems),
             "EEMeterWarning": StubCall(lambda *a, **kw: RecObj("EEMeterWarning", dict(kw)) if not a else (_ for _ in ()).throw(Unsupported("EEMeterWarning with positional arguments")))}
    settings = RecObj("DailySettings", {"developer_mode": False, "alpha_minimum": SV("settings.alpha_minimum"), "season": SV("settings.season")})
    subs = {}
    for key in ("wd-su_sh_wi", "we-su_sh_wi"):
        subs[key] = AbsObj({"OptimizedResult"}, T_min=SV(f"{key}.T_min"), T_max=SV(f"{key}.T_max"), T_min_seg=SV(f"{key}.T_min_seg"), T_max_seg=SV(f"{key}.T_max_seg"),
                           named_coeffs=SV(f"{key}.named_coeffs"), f_unc=SV(f"{key}.f_unc"))
    orig = _Model({dm.name, "DailyModel"}, settings=settings, model=subs, error={k_: SV(f"error.{k_}") for k_ in ("wRMSE", "RMSE", "MAE", "CVRMSE", "PNRMSE")}, baseline_timezone=SV("baseline_timezone"),
                  disqualification=[_Warn("dq0")], warnings=[_Warn("w0"), _Warn("w1")])
    it = Interp(step_limit=100_000)
    orig._bind_repo(chk, dm, it, stand)
    try:
        params = Function(cp.node, ModuleEnv(chk.repo, cp.module, it, stand), it)(orig)
    except InterpRaised as e:
        return {"raises": f"_create_params_from_fit_model raises {e.exc_name}"}
    if not isinstance(params, RecObj):
        return {"raises": "_create_params_from_fit_model does not return the parameter record"}
    doc = _dump(params)
    if through_json:
        doc = json_pass(doc)
    built: Dict[str, Any] = {}

    it2 = Interp(step_limit=100_000)

    def make_model(*a, **kw):
        built["args"] = (a, kw)
        # the new model carries what its own constructor creates (interpreted), so bookkeeping attributes from_dict touches exist
        from rules.daily_errors import constructed
        return constructed(chk, dm, it2, stand, settings=Opaque("settings-of-new-model"), warnings=[], disqualification=[])
    def _clone(x):
        if isinstance(x, dict):
            return {k_: _clone(v_) for k_, v_ in x.items()}
        if isinstance(x, list):
            return [_clone(v_) for v_ in x]
        return x
    doc_in = _clone(doc)    # the reader gets its own copy: what it does to the caller's document is judged separately
    try:
        back = Function(fd.node, ModuleEnv(chk.repo, fd.module, it2, stand), it2)(StubCall(make_model), doc_in)
    except InterpRaised as e:
        return {"raises": f"from_dict raises {e.exc_name} on the document the writer produced"}
    if not isinstance(back, AbsObj):
        return {"raises": "from_dict does not return the model it built"}
    diffs: Dict[str, Any] = {}
    if _val_key(doc_in) != _val_key(doc):
        changed = [k_ for k_ in sorted(set(doc) | set(doc_in)) if _val_key(doc.get(k_)) != _val_key(doc_in.get(k_))]
        diffs["document-modified"] = f"from_dict modifies the document it is given (in {changed}): loading the same parsed document twice gives different models"
    # 1. the parameter record
    rp = back.__dict__.get("params")
    gd = _dump(rp) if isinstance(rp, RecObj) else None
    if through_json and gd is not None:
        gd = json_pass(gd)
    if not isinstance(gd, dict):
        diffs["params"] = f"the reloaded model's params is {repr(rp)[:60]}, not the parameter record"
    else:
        bad = [k for k in sorted(set(doc) | set(gd)) if _val_key(doc.get(k)) != _val_key(gd.get(k))]   # field order of a record does not matter
        if bad:
            diffs["params"] = f"the reloaded parameter record differs from the one stored in {bad}"
    # 2. the settings the new model is built from
    a, kw = built.get("args", ((), {}))
    if a or set(kw) != {"settings"} or _val_key(kw.get("settings")) != _val_key(doc.get("settings")):
        diffs["settings"] = f"the new model must be built as cls(settings=<the stored settings>); built with {sorted(kw)}"
    # 3. warnings / disqualification decoded field by field
    for attr, src in (("disqualification", orig.disqualification), ("warnings", orig.warnings)):
        rv = back.__dict__.get(attr)
        w = [_val_key(x.json()) for x in src]
        g = [_val_key(x._fields()) if isinstance(x, RecObj) and x._kind == "EEMeterWarning" else repr(x)[:40] for x in rv] if isinstance(rv, list) else repr(rv)
        if g != w:
            diffs[attr] = f"{attr}: stored {w}, reloaded {g}"
    # 4. timezone (a string of it is what is stored), fitted flag
    tz = back.__dict__.get("baseline_timezone")
    if _val_key(tz) not in (_val_key(orig.baseline_timezone), repr(str(orig.baseline_timezone))):
        diffs["baseline_timezone"] = f"baseline_timezone: stored {orig.baseline_timezone!r}, reloaded {_val_key(tz)}"
    if back.__dict__.get("is_fitted") is not True:
        diffs["is_fitted"] = "the reloaded model is not marked fitted"
    # 5. what the writer stored is the model's own state
    w_doc = _dump(params)
    exp_sub = {k: {"coefficients": f"{k}.named_coeffs", "temperature_constraints": "{" + ", ".join(f"'{t}': {k}.{t}" for t in ("T_min", "T_max", "T_min_seg", "T_max_seg")) + "}", "f_unc": f"{k}.f_unc"}
               for k in subs}
    got_sub = {k: {f: _val_key(v) for f, v in d.items()} for k, d in (w_doc.get("submodels") or {}).items()} if isinstance(w_doc.get("submodels"), dict) else {}
    if got_sub != exp_sub:
        diffs["submodels"] = f"the stored sub-models must hold each fitted component's named coefficients, its four temperature limits and f_unc; stored {got_sub}"
    if _val_key(w_doc.get("settings")) != _val_key(_dump(settings)):
        diffs["settings-written"] = "the stored settings are not the model's own settings (self.settings.model_dump())"
    info = w_doc.get("info") if isinstance(w_doc.get("info"), dict) else {}
    if _val_key(info.get("error")) != _val_key(orig.error):
        diffs["info.error"] = f"info.error must be the model's error record; stored {_val_key(info.get('error'))}"
    for p in problems:
        diffs.setdefault("declared", p)
    return {"diffs": diffs, "written": w_doc}


def written_limits(chk, dm, cp, fd) -> Dict[str, Dict[str, str]]:
    """{sub-model key: {limit name: what is stored under it}} as the writer produces it (for C12/R12.4)."""
    o = round_trip(chk, dm, cp, fd, False)
    subs = (o.get("written") or {}).get("submodels") if "written" in o else None
    out: Dict[str, Dict[str, str]] = {}
    if isinstance(subs, dict):
        for k, d in subs.items():
            tc = d.get("temperature_constraints") if isinstance(d, dict) else None
            out[k] = {n: _val_key(v) for n, v in tc.items()} if isinstance(tc, dict) else {}
    return out


def check(chk, rule, dm, cp, fd):
    chk.trusted.append("pydantic: a record built from the dump of a record of daily/parameters.py is an equal record; undeclared keyword arguments are dropped silently")
    for through_json in (True, False):
        key = f"{fd.key}|round-trip|{'json' if through_json else 'dict'}"
        try:
            o = round_trip(chk, dm, cp, fd, through_json)
        except Unsupported as e:
            raise AnalysisError(f"daily round trip: operation outside the modelled subset: {e}")
        if "raises" in o:
            rule.require(False, key, fd.where(), f"daily model: {o['raises']}")
            continue
        d = o["diffs"]
        for part in ("document-modified", "params", "settings", "disqualification", "warnings", "baseline_timezone", "is_fitted", "submodels", "settings-written", "info.error", "declared"):
            rule.require(part not in d, f"{key}|{part}", fd.where() if part not in ("submodels", "settings-written", "info.error") else cp.where(),
                         f"daily model ({'through JSON' if through_json else 'dict only'}): {d.get(part, '')}", sample={"part": part, "json": through_json})
