"""C07 — observed and predicted usage are masked together (daily / billing predict)."""
from __future__ import annotations

import ast
from typing import List, Optional, Set, Tuple

from engine import boolalg
from engine.cfg import CFG, ENTRY, EXIT, feasible_reach
from engine.dataflow import ReachingDefs, backward_slice_exprs
from engine.index import AnalysisError, FuncInfo, calls_in, const_str, kwarg, unparse, walk_no_nested
from engine.pdfacts import FACTS, FRESH_METHODS, is_mask_expr
from rules.common import BILLING_MODEL, DAILY_MODEL, WEIGHTED_MODEL, method

COPYING_CALLS = {"copy", "dropna", "query", "head", "tail", "reset_index", "sort_values", "sort_index", "drop", "rename", "reindex", "fillna", "astype"}


def _store_targets(st: ast.AST) -> List[ast.AST]:
    if isinstance(st, ast.Assign):
        out = []
        for t in st.targets:
            out += t.elts if isinstance(t, (ast.Tuple, ast.List)) else [t]
        return out
    if isinstance(st, (ast.AugAssign, ast.AnnAssign)):
        return [st.target]
    return []


def _name_mask_resolver(rd: Optional[ReachingDefs], st):
    def f(n: ast.Name) -> bool:
        if rd is None:
            return False
        ds = rd.reaching(st, n.id)
        vals = [rd.value_of(d) for d in ds]
        return bool(vals) and all(v is not None and is_mask_expr(v) for v in vals)
    return f


def ineffective_store(target: ast.AST, name_is_mask=None) -> Optional[str]:
    """If `target` (a Subscript/Attribute store target) writes into a temporary, say why."""
    if not isinstance(target, (ast.Subscript, ast.Attribute)):
        return None
    v = target.value
    # x.loc[...] / x.iloc[...] / x.at[...] = v  are direct stores (one indexing step): look *below* the accessor
    if isinstance(v, ast.Attribute) and v.attr in ("loc", "iloc", "at", "iat"):
        v = v.value
        # the store goes to v itself; v must not be a temporary
        base = v
    else:
        base = v
    # walk down the receiver chain looking for a copying step
    cur = base
    while True:
        if isinstance(cur, ast.Subscript):
            recv = cur.value
            sl = cur.slice
            first = sl.elts[0] if isinstance(sl, ast.Tuple) and sl.elts else sl
            if isinstance(recv, ast.Attribute) and recv.attr in ("loc", "iloc"):
                if is_mask_expr(first, name_is_mask):
                    return f"`{unparse(cur)[:70]}` selects rows by a boolean mask and therefore yields a copy"
                cur = recv.value
                continue
            if is_mask_expr(first, name_is_mask):
                return f"`{unparse(cur)[:70]}` selects rows by a boolean mask and therefore yields a copy"
            cur = recv
            continue
        if isinstance(cur, ast.Call) and isinstance(cur.func, ast.Attribute) and cur.func.attr in COPYING_CALLS:
            if not (kwarg(cur, "inplace") is not None):
                return f"`{unparse(cur)[:70]}` returns a new object"
            return None
        if isinstance(cur, ast.Attribute):
            cur = cur.value
            continue
        return None


def run(chk):
    chk.explanation = (
        "Effect lint for stores that go into a temporary (boolean-mask selection yields a copy), must-pass-through of an "
        "*effective* NaN store into `observed` of the dropped-rows frame under the valuation mask_flag=True, and def-use checks "
        "that predictions are produced only for rows that survived the completeness filters and are left-joined onto them.")
    chk.trusted += FACTS[:2]
    chk.not_decided += ["billing aggregation sums (C19)"]
    r1 = chk.rule("R07.1", "no store on the daily/billing predict path writes into a temporary (mask-selected copy)", 1)
    r2 = chk.rule("R07.2", "every path of _predict with the masking flag on passes an effective NaN store into observed[temperature missing] of the frame that is concatenated into the result; flag default True; no caller turns it off", 3)
    r3 = chk.rule("R07.3", "predictions are built for and left-joined onto rows that survived dropna + finite filters (incl. observed when present); the dropped rows are the exact complement", 4)

    daily = chk.repo.cls(*DAILY_MODEL)
    fams = [daily, chk.repo.cls(*BILLING_MODEL), chk.repo.cls(*WEIGHTED_MODEL)]
    predict_impls = {}
    for c in fams:
        f = method(chk, c, "_predict")
        predict_impls[f.key] = f
    reach = set()
    for c in fams:
        for f in chk.res.reachable([method(chk, c, "predict")]):
            reach.add(f.key)

    # ---------------- R07.1
    n_chain = 0
    for fi in chk.repo.all_functions():
        rd = None
        for st in walk_no_nested(fi.node):
            for t in _store_targets(st) if isinstance(st, ast.stmt) else []:
                if isinstance(t, (ast.Subscript, ast.Attribute)) and isinstance(t.value, (ast.Subscript, ast.Call)) or \
                        (isinstance(t, ast.Subscript) and isinstance(t.value, ast.Attribute) and t.value.attr in ("loc", "iloc") and isinstance(t.value.value, (ast.Subscript, ast.Call))):
                    n_chain += 1
                    if rd is None and fi.key in reach:
                        try:
                            rd = ReachingDefs(fi.node)
                        except Exception:
                            rd = None
                    why = ineffective_store(t, _name_mask_resolver(rd, st) if rd else None)
                    key = f"{fi.key}|store:{unparse(t)[:90]}"
                    if fi.key in reach:
                        r1.require(why is None, key, fi.where(st),
                                   f"store `{unparse(st)[:100]}` has no effect: {why}; the intended masking never happens", sample={"store": unparse(t)[:90], "in": fi.key})
                    else:
                        r1.inst(key)
                        if why is not None:
                            r1.note(f"ineffective store outside the daily/billing predict path (not a C07 matter): {fi.where(st)} {unparse(st)[:80]}")
    # positive control: the lint must recognise the canonical no-op shape
    ctl = ast.parse("x[x['t'].isna()]['o'] = 0").body[0]
    if ineffective_store(ctl.targets[0]) is None or ineffective_store(ast.parse("x.loc[x['t'].isna(), 'o'] = 0").body[0].targets[0]) is not None:
        raise AnalysisError("R07.1 positive/negative control failed")
    r1.inst("control|chained-mask-store recognised; .loc[mask, col] accepted")

    # ---------------- R07.2 / R07.3
    for fi in predict_impls.values():
        cfg = CFG(fi.node)
        rd = ReachingDefs(fi.node, cfg)
        flag = None
        for p, d in fi.param_defaults().items():
            if "mask" in p and "temperature" in p or p.startswith("mask_observed"):
                flag = p
                r2.require(isinstance(d, ast.Constant) and d.value is True, f"{fi.key}|flag-default", fi.where(),
                           f"default of `{p}` must be True (CalTRACK 3.5.1.1 masking on by default); found {unparse(d)}")
        # The assembly is interpreted from the AST on an abstract frame (rules/daily_predict.py): which rows each returned part
        # holds, what was joined onto them, which in-place stores reached the returned objects — for the flag on/off, with and
        # without an observed column, and both ways of every data-dependent branch (`frame.empty`).
        from rules.daily_predict import judge_predict, predict_outcomes
        owner = fi.cls if fi.cls is not None else daily
        outs = predict_outcomes(chk, owner, fi)
        seen_msgs = set()
        for o in outs:
            for ob, msg in judge_predict(o):
                rule = {"mask": r2, "mask-nonfinite": r2, "lost": r1, "kept": r3, "rows": r3}[ob]
                key = {"mask": f"{fi.key}|mask-observed-where-temperature-missing", "mask-nonfinite": f"{fi.key}|mask-observed-where-temperature-not-finite", "lost": f"{fi.key}|store-into-temporary",
                       "kept": f"{fi.key}|predicts-only-complete-rows", "rows": f"{fi.key}|result=concat(kept+pred, dropped)"}[ob]
                if (key, msg[:80]) in seen_msgs:
                    continue
                seen_msgs.add((key, msg[:80]))
                rule.require(False, key, fi.where(), f"{fi.key}: {msg}", sample={"function": fi.key, "scenario": {k_: o[k_] for k_ in ("with_observed", "mask_on", "decisions")}})
        for key_, rule in ((f"{fi.key}|mask-observed-where-temperature-missing", r2), (f"{fi.key}|mask-observed-where-temperature-not-finite", r2), (f"{fi.key}|store-into-temporary", r1),
                           (f"{fi.key}|predicts-only-complete-rows", r3), (f"{fi.key}|result=concat(kept+pred, dropped)", r3)):
            rule.inst(key_)
        r3.inst(f"{fi.key}|scenarios={len(outs)}")
        # callers never switch the flag off
        if flag:
            for g in chk.repo.all_functions():
                for c in calls_in(g.node):
                    if isinstance(c.func, ast.Attribute) and c.func.attr == "_predict":
                        v = kwarg(c, flag)
                        pos = c.args[1] if len(c.args) > 1 else None
                        for val in (v, pos):
                            if val is not None and isinstance(val, ast.Constant) and val.value is False:
                                tg = [t for t in chk.res.resolve_call(g, c) if isinstance(t, FuncInfo)]
                                if any(t.key == fi.key for t in tg):
                                    r2.violate(f"{g.key}|caller-disables-mask", g.where(c), f"{g.key} calls _predict with `{flag}=False`")
            r2.inst(f"{fi.key}|callers-scan")

    # ---------------- R07.4: billing aggregation sums observed and predicted of the *same* (masked) frame
    r4 = chk.rule("R07.4", "billing aggregation reads observed and predicted from the frame returned by _predict (the one whose usage was masked), with the same frequency", 2)
    from rules.billing_agg import billing_outcomes
    for mc in (BILLING_MODEL, WEIGHTED_MODEL):
        c = chk.repo.cls(*mc)
        p = method(chk, c, "predict")
        out = billing_outcomes(chk, p, {"BillingModel", "DailyModel", c.name})
        for agg in ("monthly", "bimonthly"):
            o = out[(agg, True)]
            items = {i.get("column"): i for i in o.get("items", [])} if o.get("returns") == "concat" else {}
            ob, pr = items.get("observed"), items.get("predicted")
            ok = ob is not None and pr is not None and ob["from"] == pr["from"] == "predict" and not ob["from_ops"] and not pr["from_ops"] and ob["rule"] == pr["rule"] \
                and ob["reduction"] == pr["reduction"] == "sum(x)"
            r4.require(ok, f"{p.key}|observed-and-predicted-from-masked-frame|{agg}", p.where(),
                       f"{p.qualname} (aggregation={agg!r}): aggregated observed is {ob} and predicted is {pr}: both must be plain period sums of the frame returned by self._predict "
                       f"(the one whose usage was masked on days without temperature), otherwise period sums include days that got no prediction",
                       sample={"function": p.qualname, "observed": ob, "predicted": pr})

    # ---------------- R07.3 (b): _initialize_data complement pair (interpreted)
    from rules.daily_predict import initialize_outcomes, judge_initialize
    done = set()
    for c in fams:
        fi = method(chk, c, "_initialize_data")
        if fi.key in done:
            continue
        done.add(fi.key)
        msgs = set()
        for o in initialize_outcomes(chk, fi.cls or c, fi):
            for ob, msg in judge_initialize(o):
                if ob not in ("rows", "kept"):
                    continue  # routing columns are C13's subject
                key = f"{fi.key}|complement" if ob == "rows" else f"{fi.key}|kept-rows-complete"
                if (key, msg[:80]) in msgs:
                    continue
                msgs.add((key, msg[:80]))
                r3.require(False, key, fi.where(), f"{fi.key}: {msg}")
        r3.inst(f"{fi.key}|complement")
        r3.inst(f"{fi.key}|kept-rows-complete")
