"""C07 — observed and predicted usage are masked together (daily / billing predict)."""
from __future__ import annotations

import ast
from typing import List, Optional, Set, Tuple

from engine import boolalg
from engine.cfg import CFG, ENTRY, EXIT, feasible_reach
from engine.dataflow import ReachingDefs, backward_slice_exprs
from engine.index import AnalysisError, FuncInfo, calls_in, const_str, kwarg, unparse, walk_no_nested
from engine.pdfacts import FACTS, FRESH_METHODS, is_mask_expr
from rules.common import BILLING_MODEL, DAILY_MODEL, WEIGHTED_MODEL, method

COPYING_CALLS = {"copy", "dropna", "query", "head", "tail", "reset_index", "sort_values", "sort_index", "drop", "rename", "reindex", "fillna", "astype"}


def _store_targets(st: ast.AST) -> List[ast.AST]:
    if isinstance(st, ast.Assign):
        out = []
        for t in st.targets:
            out += t.elts if isinstance(t, (ast.Tuple, ast.List)) else [t]
        return out
    if isinstance(st, (ast.AugAssign, ast.AnnAssign)):
        return [st.target]
    return []


def _name_mask_resolver(rd: Optional[ReachingDefs], st):
    def f(n: ast.Name) -> bool:
        if rd is None:
            return False
        ds = rd.reaching(st, n.id)
        vals = [rd.value_of(d) for d in ds]
        return bool(vals) and all(v is not None and is_mask_expr(v) for v in vals)
    return f


def ineffective_store(target: ast.AST, name_is_mask=None) -> Optional[str]:
    """If `target` (a Subscript/Attribute store target) writes into a temporary, say why."""
    if not isinstance(target, (ast.Subscript, ast.Attribute)):
        return None
    v = target.value
    # x.loc[...] / x.iloc[...] / x.at[...] = v  are direct stores (one indexing step): look *below* the accessor
    if isinstance(v, ast.Attribute) and v.attr in ("loc", "iloc", "at", "iat"):
        v = v.value
        # the store goes to v itself; v must not be a temporary
        base = v
    else:
        base = v
    # walk down the receiver chain looking for a copying step
    cur = base
    while True:
        if isinstance(cur, ast.Subscript):
            recv = cur.value
            sl = cur.slice
            first = sl.elts[0] if isinstance(sl, ast.Tuple) and sl.elts else sl
            if isinstance(recv, ast.Attribute) and recv.attr in ("loc", "iloc"):
                if is_mask_expr(first, name_is_mask):
                    return f"`{unparse(cur)[:70]}` selects rows by a boolean mask and therefore yields a copy"
                cur = recv.value
                continue
            if is_mask_expr(first, name_is_mask):
                return f"`{unparse(cur)[:70]}` selects rows by a boolean mask and therefore yields a copy"
            cur = recv
            continue
        if isinstance(cur, ast.Call) and isinstance(cur.func, ast.Attribute) and cur.func.attr in COPYING_CALLS:
            if not (kwarg(cur, "inplace") is not None):
                return f"`{unparse(cur)[:70]}` returns a new object"
            return None
        if isinstance(cur, ast.Attribute):
            cur = cur.value
            continue
        return None


def _temperature_missing_mask(rd: ReachingDefs, st, mask_expr: ast.AST, frame: str) -> bool:
    """Does mask_expr (evaluated at st) derive from <frame>["temperature"] missing-ness?"""
    for e in backward_slice_exprs(rd, st, mask_expr, depth=4):
        for n in ast.walk(e):
            if isinstance(n, ast.Call):
                fn = unparse(n.func)
                args_txt = " ".join(unparse(a) for a in n.args)
                recv = unparse(n.func.value) if isinstance(n.func, ast.Attribute) else ""
                if isinstance(n.func, ast.Attribute) and n.func.attr in ("isna", "isnull") and "temperature" in recv and frame in recv:
                    return True
                if fn in ("np.isnan", "pd.isna", "pd.isnull") and "temperature" in args_txt and frame in args_txt:
                    return True
            if isinstance(n, ast.UnaryOp) and isinstance(n.op, ast.Invert) and isinstance(n.operand, ast.Call):
                c = n.operand
                fn = unparse(c.func)
                recv = unparse(c.func.value) if isinstance(c.func, ast.Attribute) else ""
                args_txt = " ".join(unparse(a) for a in c.args)
                if isinstance(c.func, ast.Attribute) and c.func.attr in ("notna", "notnull") and "temperature" in recv and frame in recv:
                    return True
                if fn in ("np.isfinite", "pd.notna", "pd.notnull") and "temperature" in args_txt and frame in args_txt:
                    return True
    return False


def _is_nan(e: ast.AST) -> bool:
    return unparse(e) in ("np.nan", "numpy.nan", "float('nan')", "math.nan", "np.NaN", "pd.NA", "None", "float(\"nan\")")


def _effective_nan_store(rd: ReachingDefs, st: ast.AST, frame: str) -> bool:
    """Is st an effective store of NaN into column 'observed' of `frame` on rows where temperature is missing?"""
    if not isinstance(st, ast.Assign) or len(st.targets) != 1:
        return False
    t = st.targets[0]
    nm = _name_mask_resolver(rd, st)
    # form a: frame.loc[M, "observed"] = nan   (also ["observed"] list)
    if isinstance(t, ast.Subscript) and isinstance(t.value, ast.Attribute) and t.value.attr == "loc" and unparse(t.value.value) == frame \
            and isinstance(t.slice, ast.Tuple) and len(t.slice.elts) == 2:
        m, c = t.slice.elts
        col_ok = const_str(c) == "observed" or (isinstance(c, (ast.List, ast.Tuple)) and [const_str(x) for x in c.elts] == ["observed"])
        return col_ok and _is_nan(st.value) and _temperature_missing_mask(rd, st, m, frame)
    # form b: frame["observed"] = frame["observed"].where(~M) | .mask(M) | np.where(M, nan, frame["observed"])
    if isinstance(t, ast.Subscript) and unparse(t.value) == frame and const_str(t.slice) == "observed":
        v = st.value
        if isinstance(v, ast.Call) and isinstance(v.func, ast.Attribute) and v.func.attr in ("where", "mask") and v.args:
            recv = unparse(v.func.value)
            if recv in (f"{frame}['observed']", f"{frame}.observed"):
                m = v.args[0]
                other_ok = len(v.args) < 2 or _is_nan(v.args[1])
                if v.func.attr == "mask":
                    return other_ok and _temperature_missing_mask(rd, st, m, frame)
                # where keeps rows where cond is True: cond must be the complement of missing
                if isinstance(m, ast.UnaryOp) and isinstance(m.op, ast.Invert):
                    return other_ok and _temperature_missing_mask(rd, st, m.operand, frame)
                if isinstance(m, ast.Call) and isinstance(m.func, ast.Attribute) and m.func.attr in ("notna", "notnull") and "temperature" in unparse(m.func.value):
                    return other_ok
                return False
        if isinstance(v, ast.Call) and unparse(v.func) == "np.where" and len(v.args) == 3:
            return _is_nan(v.args[1]) and unparse(v.args[2]) in (f"{frame}['observed']", f"{frame}.observed") \
                and _temperature_missing_mask(rd, st, v.args[0], frame)
    return False


def run(chk):
    chk.explanation = (
        "Effect lint for stores that go into a temporary (boolean-mask selection yields a copy), must-pass-through of an "
        "*effective* NaN store into `observed` of the dropped-rows frame under the valuation mask_flag=True, and def-use checks "
        "that predictions are produced only for rows that survived the completeness filters and are left-joined onto them.")
    chk.trusted += FACTS[:2]
    chk.not_decided += ["rows whose temperature is +-inf rather than missing (the masking statement and the rule speak of missing temperature)",
                        "billing aggregation sums (C19)"]
    r1 = chk.rule("R07.1", "no store on the daily/billing predict path writes into a temporary (mask-selected copy)", 1)
    r2 = chk.rule("R07.2", "every path of _predict with the masking flag on passes an effective NaN store into observed[temperature missing] of the frame that is concatenated into the result; flag default True; no caller turns it off", 3)
    r3 = chk.rule("R07.3", "predictions are built for and left-joined onto rows that survived dropna + finite filters (incl. observed when present); the dropped rows are the exact complement", 4)

    daily = chk.repo.cls(*DAILY_MODEL)
    fams = [daily, chk.repo.cls(*BILLING_MODEL), chk.repo.cls(*WEIGHTED_MODEL)]
    predict_impls = {}
    for c in fams:
        f = method(chk, c, "_predict")
        predict_impls[f.key] = f
    reach = set()
    for c in fams:
        for f in chk.res.reachable([method(chk, c, "predict")]):
            reach.add(f.key)

    # ---------------- R07.1
    n_chain = 0
    for fi in chk.repo.all_functions():
        rd = None
        for st in walk_no_nested(fi.node):
            for t in _store_targets(st) if isinstance(st, ast.stmt) else []:
                if isinstance(t, (ast.Subscript, ast.Attribute)) and isinstance(t.value, (ast.Subscript, ast.Call)) or \
                        (isinstance(t, ast.Subscript) and isinstance(t.value, ast.Attribute) and t.value.attr in ("loc", "iloc") and isinstance(t.value.value, (ast.Subscript, ast.Call))):
                    n_chain += 1
                    if rd is None and fi.key in reach:
                        try:
                            rd = ReachingDefs(fi.node)
                        except Exception:
                            rd = None
                    why = ineffective_store(t, _name_mask_resolver(rd, st) if rd else None)
                    key = f"{fi.key}|store:{unparse(t)[:90]}"
                    if fi.key in reach:
                        r1.require(why is None, key, fi.where(st),
                                   f"store `{unparse(st)[:100]}` has no effect: {why}; the intended masking never happens", sample={"store": unparse(t)[:90], "in": fi.key})
                    else:
                        r1.inst(key)
                        if why is not None:
                            r1.note(f"ineffective store outside the daily/billing predict path (not a C07 matter): {fi.where(st)} {unparse(st)[:80]}")
    # positive control: the lint must recognise the canonical no-op shape
    ctl = ast.parse("x[x['t'].isna()]['o'] = 0").body[0]
    if ineffective_store(ctl.targets[0]) is None or ineffective_store(ast.parse("x.loc[x['t'].isna(), 'o'] = 0").body[0].targets[0]) is not None:
        raise AnalysisError("R07.1 positive/negative control failed")
    r1.inst("control|chained-mask-store recognised; .loc[mask, col] accepted")

    # ---------------- R07.2 / R07.3
    for fi in predict_impls.values():
        cfg = CFG(fi.node)
        rd = ReachingDefs(fi.node, cfg)
        flag = None
        for p, d in fi.param_defaults().items():
            if "mask" in p and "temperature" in p or p.startswith("mask_observed"):
                flag = p
                r2.require(isinstance(d, ast.Constant) and d.value is True, f"{fi.key}|flag-default", fi.where(),
                           f"default of `{p}` must be True (CalTRACK 3.5.1.1 masking on by default); found {unparse(d)}")
        # the frame of dropped rows: second element of the unpacking of self._initialize_data(...)
        init_stmt = None
        kept = dropped = None
        for st in cfg.stmts():
            if isinstance(st, ast.Assign) and isinstance(st.value, ast.Call) and unparse(st.value.func) == "self._initialize_data" \
                    and isinstance(st.targets[0], (ast.Tuple, ast.List)) and len(st.targets[0].elts) == 2:
                init_stmt = st
                kept, dropped = (unparse(x) for x in st.targets[0].elts)
        if init_stmt is None:
            raise AnalysisError(f"{fi.key}: the `kept, dropped = self._initialize_data(...)` anchor is gone")
        # the result: return <expr> whose slice contains pd.concat([... kept' ..., dropped])
        rets = [s for s in cfg.stmts() if isinstance(s, ast.Return)]
        if not rets:
            raise AnalysisError(f"{fi.key}: no return")
        for ret in rets:
            sl = backward_slice_exprs(rd, ret, ret.value, depth=3)
            concats = [n for e in sl for n in ast.walk(e) if isinstance(n, ast.Call) and unparse(n.func) == "pd.concat"]
            has_both = False
            for c in concats:
                if c.args and isinstance(c.args[0], (ast.List, ast.Tuple)):
                    names = [unparse(x) for x in c.args[0].elts]
                    if dropped in names and kept in names and len(names) == 2:
                        has_both = True
            r3.require(has_both, f"{fi.key}|result=concat(kept+pred, dropped)", fi.where(ret),
                       f"{fi.key}: the returned frame is not `concat([{kept} (with predictions), {dropped}])`: rows are lost or invented")
            sorted_last = isinstance(ret.value, ast.Call) and isinstance(ret.value.func, ast.Attribute) and ret.value.func.attr == "sort_index"
            if not sorted_last:
                sorted_last = any(isinstance(e, ast.Call) and isinstance(e.func, ast.Attribute) and e.func.attr == "sort_index" for e in sl[:2])
            r3.require(sorted_last, f"{fi.key}|sorted", fi.where(ret), f"{fi.key}: result is not sorted by index after re-appending the dropped rows")
        # R07.2 effective stores
        stores = [st for st in cfg.stmts() if _effective_nan_store(rd, st, dropped)]

        def atomizer(e):
            s, neg = boolalg.strip_truthiness(e)
            if flag and isinstance(s, ast.Name) and s.id == flag:
                return ("flag", neg)
            if isinstance(s, ast.Compare) and len(s.ops) == 1 and isinstance(s.ops[0], (ast.In, ast.NotIn)) and const_str(s.left) == "observed" \
                    and unparse(s.comparators[0]) in (f"{dropped}.columns", dropped, f"{dropped}.keys()", f"{kept}.columns", f"{kept}"):
                return ("hascol", neg != isinstance(s.ops[0], ast.NotIn))
            return None
        env = {"flag": True, "hascol": True}
        ev = lambda t: boolalg.ev3(t, atomizer, env)
        bypass = feasible_reach(cfg, {EXIT}, ev, src=id(init_stmt), avoid={id(s) for s in stores})
        r2.require(bool(stores) and not bypass, f"{fi.key}|mask-observed-where-temperature-missing", fi.where(init_stmt),
                   f"{fi.key}: with masking on, a path reaches the return without an effective NaN store into `{dropped}['observed']` for rows whose "
                   f"temperature is missing ({len(stores)} effective store(s) found) — those days keep their consumption although they get no prediction",
                   sample={"function": fi.key, "frame": dropped, "effective_stores": [unparse(s)[:100] for s in stores]})
        # the store must precede the concat that consumes `dropped`
        for s in stores:
            for ret in rets:
                r2.require(cfg.paths_avoiding(id(s), id(ret), set()), f"{fi.key}|store-before-return", fi.where(s), "masking store is not upstream of the return")
        # R07.3: predictions indexed by segments of `kept`, joined with default (left) join
        seg_ok = False
        join_ok = False
        for st in cfg.stmts():
            for c in calls_in(st) if not isinstance(st, (ast.For, ast.If, ast.While, ast.With, ast.Try)) else []:
                if isinstance(c.func, ast.Attribute) and c.func.attr == "join":
                    recv = unparse(c.func.value)
                    how = kwarg(c, "how")
                    if recv == kept:
                        join_ok = how is None or const_str(how) == "left"
                        if not join_ok:
                            r3.violate(f"{fi.key}|join-how", fi.where(st), f"{fi.key}: predictions are joined with how={unparse(how)}; rows without a complete input could receive/lose predictions")
                if unparse(c.func) == "self._meter_segment" and len(c.args) >= 2 and unparse(c.args[1]) == kept:
                    seg_ok = True
        r3.require(seg_ok, f"{fi.key}|segments-of-kept", fi.where(), f"{fi.key}: prediction segments are not taken from the cleaned frame `{kept}`")
        r3.require(join_ok, f"{fi.key}|left-join", fi.where(), f"{fi.key}: predictions are not left-joined onto the cleaned frame `{kept}`")
        # callers never switch the flag off
        if flag:
            for g in chk.repo.all_functions():
                for c in calls_in(g.node):
                    if isinstance(c.func, ast.Attribute) and c.func.attr == "_predict":
                        v = kwarg(c, flag)
                        pos = c.args[1] if len(c.args) > 1 else None
                        for val in (v, pos):
                            if val is not None and isinstance(val, ast.Constant) and val.value is False:
                                tg = [t for t in chk.res.resolve_call(g, c) if isinstance(t, FuncInfo)]
                                if any(t.key == fi.key for t in tg):
                                    r2.violate(f"{g.key}|caller-disables-mask", g.where(c), f"{g.key} calls _predict with `{flag}=False`")
            r2.inst(f"{fi.key}|callers-scan")

    # ---------------- R07.4: billing aggregation sums observed and predicted of the *same* (masked) frame
    r4 = chk.rule("R07.4", "billing aggregation reads observed and predicted from the frame returned by _predict (the one whose usage was masked), with the same frequency", 2)
    from rules.billing_agg import billing_outcomes
    for mc in (BILLING_MODEL, WEIGHTED_MODEL):
        c = chk.repo.cls(*mc)
        p = method(chk, c, "predict")
        out = billing_outcomes(chk, p, {"BillingModel", "DailyModel", c.name})
        for agg in ("monthly", "bimonthly"):
            o = out[(agg, True)]
            items = {i.get("column"): i for i in o.get("items", [])} if o.get("returns") == "concat" else {}
            ob, pr = items.get("observed"), items.get("predicted")
            ok = ob is not None and pr is not None and ob["from"] == pr["from"] == "predict" and not ob["from_ops"] and not pr["from_ops"] and ob["rule"] == pr["rule"] \
                and ob["reduction"] == pr["reduction"] == "sum(x)"
            r4.require(ok, f"{p.key}|observed-and-predicted-from-masked-frame|{agg}", p.where(),
                       f"{p.qualname} (aggregation={agg!r}): aggregated observed is {ob} and predicted is {pr}: both must be plain period sums of the frame returned by self._predict "
                       f"(the one whose usage was masked on days without temperature), otherwise period sums include days that got no prediction",
                       sample={"function": p.qualname, "observed": ob, "predicted": pr})

    # ---------------- R07.3 (b): _initialize_data complement pair
    for c in fams:
        fi = method(chk, c, "_initialize_data")
        key = f"{fi.key}|complement"
        if key in r3.instances:
            continue
        cfg = CFG(fi.node)
        rd = ReachingDefs(fi.node, cfg)
        rets = [s for s in cfg.stmts() if isinstance(s, ast.Return)]
        full = [r for r in rets if isinstance(r.value, ast.Tuple) and len(r.value.elts) == 2]
        r3.require(len(full) == len(rets) and rets, f"{fi.key}|returns-pair", fi.where(), f"{fi.key} must return (kept, dropped) on every path")
        final = rets[-1] if rets else None
        if final is None:
            continue
        kept_e, drop_e = final.value.elts
        ksl = backward_slice_exprs(rd, final, kept_e, depth=6)
        ktxt = " ".join(unparse(e) for e in ksl)
        # rows with missing temperature / missing observed must not survive into the kept frame
        def removed(col):
            for e in ksl:
                for n in ast.walk(e):
                    if isinstance(n, ast.Call) and isinstance(n.func, ast.Attribute) and n.func.attr == "dropna":
                        sub = kwarg(n, "subset")
                        how = kwarg(n, "how")
                        if how is not None and const_str(how) == "all":
                            continue
                        if sub is None and not n.args:
                            return True
                        if sub is not None and col in unparse(sub):
                            return True
                    if isinstance(n, ast.Subscript) and isinstance(n.slice, ast.Call) and unparse(n.slice.func) in ("np.isfinite", "pd.notna", "pd.notnull") \
                            and n.slice.args and col in unparse(n.slice.args[0]):
                        return True
                    if isinstance(n, ast.Subscript) and isinstance(n.slice, ast.Call) and isinstance(n.slice.func, ast.Attribute) \
                            and n.slice.func.attr in ("notna", "notnull") and col in unparse(n.slice.func.value):
                        return True
            return False
        r3.require(removed("temperature"), f"{fi.key}|drop-missing-temperature", fi.where(final),
                   f"{fi.key}: rows with missing temperature are not removed before prediction")
        r3.require(removed("observed"), f"{fi.key}|drop-missing-observed", fi.where(final),
                   f"{fi.key}: rows with missing usage are not removed before prediction: a day without consumption would still get a prediction")
        dsl = backward_slice_exprs(rd, final, drop_e, depth=3)
        dtxt = " ".join(unparse(e) for e in dsl)
        comp = f"~" in dtxt and ".index.isin(" in dtxt and unparse(kept_e) + ".index" in dtxt
        r3.require(comp, key, fi.where(final), f"{fi.key}: dropped rows are not the complement `~all.index.isin(kept.index)` of the kept rows")
