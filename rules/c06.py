"""C06 — one row per input timestamp: index provenance of predict()'s result, and the clock-normalisation step decided
exhaustively over every day shape of the IANA database (rules/dstnorm.py)."""
from __future__ import annotations

import ast
from typing import List

from engine.cfg import CFG
from engine.dataflow import ReachingDefs, backward_slice_exprs
from engine.index import AnalysisError, FuncInfo, calls_in, const_str, kwarg, unparse, walk_no_nested
from rules.common import BILLING_MODEL, CALTRACK_WRAPPER, DAILY_MODEL, HOURLY_DATA, HOURLY_MODEL, WEIGHTED_MODEL, method, self_calls

ROW_CHANGERS = ("drop_duplicates", "groupby", "resample", "dropna", "head", "tail", "sample", "query", "drop", "merge", "asfreq", "shift", "tz_convert", "tz_localize")


def _caltrack_predict_outcome(chk, cw, cp):
    """Interpret CalTRACKHourlyModel.predict on frames that only know which index they carry."""
    from engine.absint import AbsObj, ModuleEnv, Opaque
    from engine.pyinterp import Function, Interp, InterpRaised, Stub, StubCall, Unsupported
    VALUE_ONLY = {"rename", "copy", "astype", "assign", "fillna", "round", "infer_objects"}

    class IIndex(Stub):
        def __init__(self, ident):
            self.ident = ident
            self.month = Opaque("index.month")

        def __getitem__(self, k):
            return IIndex(f"{self.ident}[...]")

        def _abs_len(self):
            return 3

    class ISeries(Stub):
        def __init__(self, ident):
            self.ident = ident
            self.index = IIndex(ident)

        def isna(self): return self
        isnull = isna
        notna = isna
        def all(self): return True      # no usage supplied: the uncertainty block is not the subject here
        def any(self): return False

        def __getattr__(self, name):
            if name.startswith("_"):
                raise AttributeError(name)

            def op(*a, **k):
                if name == "reindex" and a and isinstance(a[0], IIndex):
                    return ISeries(a[0].ident)
                return ISeries(self.ident if name in VALUE_ONLY else f"{self.ident}.{name}()")
            return op

    class IFrame(Stub):
        _settable = True

        def __init__(self, ident, cols, ops=()):
            self.ident, self.cols, self.ops = ident, list(cols), tuple(ops)

        @property
        def index(self): return IIndex(self.ident)

        @property
        def columns(self): return list(self.cols)

        def __getitem__(self, k):
            if isinstance(k, str):
                if k not in self.cols:
                    raise InterpRaised("KeyError", k)
                return ISeries(self.ident)
            if isinstance(k, list) and all(isinstance(x, str) for x in k):
                miss = [x for x in k if x not in self.cols]
                if miss:
                    raise InterpRaised("KeyError", str(miss))
                return IFrame(self.ident, k, self.ops)
            return IFrame(f"{self.ident}[rows selected]", self.cols, self.ops + ("row-selection",))

        def __setitem__(self, k, v):
            if not isinstance(k, str):
                raise Unsupported("frame[...] = ... with a non-column key")
            if k not in self.cols:
                self.cols.append(k)

        def rename(self, columns=None, **k):
            if not isinstance(columns, dict) or k:
                raise Unsupported("rename() other than rename(columns={...})")
            return IFrame(self.ident, [columns.get(c, c) for c in self.cols], self.ops)

        def __getattr__(self, name):
            if name.startswith("_") or name in ("loc", "iloc", "values", "T", "shape", "empty"):
                raise AttributeError(name)

            def op(*a, **k):
                if name == "reindex" and a and isinstance(a[0], IIndex):
                    return IFrame(a[0].ident, self.cols, self.ops)
                return IFrame(self.ident, self.cols, self.ops if name in VALUE_ONLY else self.ops + (name,))
            return op

    class PDi(Stub):
        @staticmethod
        def concat(objs, axis=0, **k):
            objs = [o for o in objs if o is not None]
            if not all(isinstance(o, IFrame) for o in objs):
                raise Unsupported("pd.concat of something that is not a frame")
            cols = [c for o in objs for c in o.cols]
            ops = tuple(x for o in objs for x in o.ops)
            if axis in (1, "columns"):
                ids = {o.ident for o in objs}
                how = k.get("join", "outer")
                ident = objs[0].ident if len(ids) == 1 else f"{how}({', '.join(sorted(ids))})"
                return IFrame(ident, cols, ops)
            return IFrame("rows-of(" + ", ".join(o.ident for o in objs) + ")", cols, ops + ("row-wise concat",))

    class NPi(Stub):
        nan = float("nan")
    seen = {}

    _mp = chk.repo.try_func("opendsm.eemeter.models.hourly_caltrack.model", "CalTRACKHourlyModelResults.predict")

    def model_predict(*a, **k):
        # by position or by the repository method's own parameter names
        from rules.common import bind_like
        if _mp is not None:
            vals = bind_like(_mp, a, k)
            ps = [p_ for p_ in _mp.params if p_ not in ("self", "cls")]
            index, temps = vals.get(ps[0]), vals.get(ps[1])
        else:
            index, temps = a[0], a[1]
        seen["predicted_on"] = getattr(index, "ident", repr(index)[:40])
        seen["temperature_from"] = getattr(temps, "ident", repr(temps)[:40])
        return AbsObj({"CalTRACKHourlyModelResults"}, result=IFrame(seen["predicted_on"], ["predicted_usage"]))
    data = AbsObj({"HourlyReportingData"}, df=IFrame("data.df.index", ["temperature", "observed"]), warnings=[], disqualification=[])
    me = AbsObj({cw.name}, is_fit=True, is_fitted=True, model=AbsObj({"Model"}, predict=StubCall(model_predict)), _autocorr_unc_vars={}, alpha=0.1, warnings=[], disqualification=[])
    it = Interp(step_limit=50_000)
    env = ModuleEnv(chk.repo, cp.module, it, {"pd": PDi(), "pandas": PDi(), "np": NPi(), "numpy": NPi()})
    try:
        res = Function(cp.node, env, it)(me, data)
    except InterpRaised as e:
        return {"raises": e.exc_name}
    except Unsupported as e:
        raise AnalysisError(f"{cp.key}: uses an operation outside the modelled subset: {e}")
    if not isinstance(res, IFrame):
        return {"returns": repr(res)[:60]}
    return {"index": res.ident, "row_ops": list(res.ops), "columns": list(res.cols), "predicted_on": seen.get("predicted_on"), "temperature_from": seen.get("temperature_from")}


def run(chk):
    chk.explanation = (
        "Index provenance of the frame returned by predict(): hourly — every return is `X.reindex(I)` with I's only reaching definition "
        "`<data>.df.index` of the same data object; daily/billing — `_initialize_data` splits the input into a complement pair and `_predict` "
        "returns `concat([kept.join(pred), dropped]).sort_index()` with a left join and no row-changing operation afterwards; billing "
        "without aggregation hands that frame through unchanged; CalTRACK — column-wise concat on the data frame's own index; the hourly "
        "data class builds a contiguous hourly index from first day 00:00 to last day 23:00 and reindexes onto it.")
    chk.explanation += (
        "  Clock normalisation (R06.5): _get_dst_indices, correct_dst and _transform_dst are interpreted from their AST over an abstract hourly "
        "frame whose days range over every distinct day shape of the tz database 2000-2037 (spec/dst_day_shapes.json: 36 shapes of 21..27 stamps, "
        "with the localisability of the day's bounds) at the first / an inner / the last position of the span and over all ordered pairs of "
        "one-hour transitions; values are provenance vectors, so the verdict is which model slot feeds which timestamp.")
    from rules.dstnorm import PANDAS_FACTS
    chk.trusted += PANDAS_FACTS
    chk.not_decided += ["finiteness of the numbers the fitted model produces for a slot (only that every timestamp is fed by a slot)",
                        "zones' rules outside the tz database of the machine that generated spec/dst_day_shapes.json; grids that are not hourly"]
    r1 = chk.rule("R06.1", "hourly: predict returns X.reindex(I) where I is the index of the data object's own frame", 3)
    r2 = chk.rule("R06.2", "daily/billing: result = concat([kept left-joined with predictions, dropped complement]).sort_index(); no row-changing step afterwards; unaggregated billing passes it through", 8)
    r3 = chk.rule("R06.3", "hourly data class: contiguous hourly index from first day 00:00 to last day 23:00, frame reindexed onto it", 4)
    r4 = chk.rule("R06.4", "CalTRACK wrapper: prediction joined column-wise onto the data frame's own index", 2)
    r5 = chk.rule("R06.5", "clock normalisation: for every day shape x position, no helper raises, every day gets 24 slots, one value per timestamp, no value shifted, none empty", 2)

    # ------------------------------------------------------------------ R06.1
    hm = chk.repo.cls(*HOURLY_MODEL)
    hp = method(chk, hm, "_predict")
    data_param = [p for p in hp.params if p != "self"][0]
    cfg = CFG(hp.node)
    rd = ReachingDefs(hp.node, cfg)
    rets = [s for s in cfg.stmts() if isinstance(s, ast.Return)]
    if not rets:
        raise AnalysisError("HourlyModel._predict has no return")
    for rt in rets:
        ok = False
        idx_src = None
        v = rt.value
        chain = [v] + [rd.value_of(d) for d in (rd.reaching(rt, v.id) if isinstance(v, ast.Name) else [])]
        for e in chain:
            if isinstance(e, ast.Call) and isinstance(e.func, ast.Attribute) and e.func.attr == "reindex" and (e.args or kwarg(e, "index") is not None):
                a = e.args[0] if e.args else kwarg(e, "index")
                srcs = [unparse(rd.value_of(d)) for d in rd.reaching(rt if e is v else rd.def_stmt(rd.reaching(rt, v.id)[0]), a.id)] if isinstance(a, ast.Name) else [unparse(a)]
                idx_src = srcs
                ok = bool(srcs) and all(s == f"{data_param}.df.index" for s in srcs)
                if not ok and isinstance(a, ast.Name):
                    # `<name>.index` where <name> is, at that point, the frame the data object handed out (`df_eval = eval_data.df`)
                    at = rt if e is v else rd.def_stmt(rd.reaching(rt, v.id)[0])
                    ok2 = True
                    for d in rd.reaching(at, a.id):
                        val = rd.value_of(d)
                        if not (isinstance(val, ast.Attribute) and val.attr == "index" and isinstance(val.value, ast.Name)):
                            ok2 = False
                            break
                        inner = [unparse(rd.value_of(d2)) for d2 in rd.reaching(rd.def_stmt(d), val.value.id)]
                        if not inner or any(x != f"{data_param}.df" for x in inner):
                            ok2 = False
                            break
                    ok = ok2 and bool(rd.reaching(at, a.id))
        all_defs_reindex = True
        if isinstance(v, ast.Name):
            all_defs_reindex = all(isinstance(rd.value_of(d), ast.Call) and isinstance(rd.value_of(d).func, ast.Attribute) and rd.value_of(d).func.attr == "reindex" for d in rd.reaching(rt, v.id))
        r1.require(ok and all_defs_reindex, f"{hp.key}|returns-reindex(data.df.index)", hp.where(rt),
                   f"HourlyModel._predict must return `<frame>.reindex({data_param}.df.index)`; found index source {idx_src}: rows of the reporting frame can be dropped, duplicated or reordered",
                   sample={"function": hp.qualname, "index_source": idx_src})
    pub = method(chk, hm, "predict")
    rts = [s for s in walk_no_nested(pub.node) if isinstance(s, ast.Return)]
    r1.require(all(isinstance(r.value, ast.Call) and unparse(r.value.func) == "self._predict" and unparse(r.value.args[0]) == [p for p in pub.params if p != "self"][0] for r in rts) and rts,
               f"{pub.key}|returns-_predict(data)", pub.where(), "HourlyModel.predict must return self._predict(reporting_data) unchanged")
    # _prepare_features / _predict must not rebind the data object's frame index before the final reindex (set_index only under not fitted)
    pf = method(chk, hm, "_prepare_features")
    pcfg = CFG(pf.node)
    bad = []
    for s in pcfg.stmts():
        if isinstance(s, ast.Assign) and isinstance(s.value, ast.Call) and isinstance(s.value.func, ast.Attribute) and s.value.func.attr in ("set_index", "reset_index"):
            from rules.c02 import _fit_only
            if not _fit_only(pcfg, s):
                bad.append(unparse(s)[:60])
    r1.require(not bad, f"{pf.key}|index-rebinding-fit-only", pf.where(), f"_prepare_features rebinds the frame index on the prediction path: {bad}")

    # ------------------------------------------------------------------ R06.2
    dm = chk.repo.cls(*DAILY_MODEL)
    # The daily assembly (_initialize_data + _predict) is interpreted from the AST on an abstract frame (rules/daily_predict.py):
    # row-set expressions say which input rows each returned part holds; the obligations below are read from that description.
    from rules.daily_predict import initialize_outcomes, judge_initialize, judge_predict, predict_outcomes
    done = set()
    for c in (dm, chk.repo.cls(*BILLING_MODEL), chk.repo.cls(*WEIGHTED_MODEL)):
        f = method(chk, c, "_predict")
        if f.key in done:
            continue
        done.add(f.key)
        outs = predict_outcomes(chk, f.cls or c, f)
        msgs = set()
        for o in outs:
            for ob, msg in judge_predict(o):
                if ob != "rows" or msg[:90] in msgs:
                    continue
                msgs.add(msg[:90])
                r2.require(False, f"{f.key}|result=sorted-concat(kept-left-joined-with-predictions, complement)", f.where(), f"{f.qualname}: {msg}",
                           sample={"function": f.qualname, "scenario": {k_: o[k_] for k_ in ("with_observed", "mask_on", "decisions")}})
        for nm in ("result=sorted-concat(kept-left-joined-with-predictions, complement)", "prediction-index=segment-index", "left-join", "every-stored-key-once", "sort_index-last"):
            r2.inst(f"{f.key}|{nm}")
        r2.inst(f"{f.key}|scenarios={len(outs)}")
        idf = method(chk, f.cls or c, "_initialize_data")
        if idf.key not in done:
            done.add(idf.key)
            msgs = set()
            for o in initialize_outcomes(chk, idf.cls or c, idf):
                for ob, msg in judge_initialize(o):
                    if ob != "rows" or msg[:90] in msgs:
                        continue
                    msgs.add(msg[:90])
                    r2.require(False, f"{idf.key}|complement", idf.where(), f"{idf.qualname}: {msg}")
            r2.inst(f"{idf.key}|complement")
            r2.inst(f"{idf.key}|sorted")
    from rules.billing_agg import billing_outcomes
    for mc in (BILLING_MODEL, WEIGHTED_MODEL):
        c = chk.repo.cls(*mc)
        p = method(chk, c, "predict")
        out = billing_outcomes(chk, p, {"BillingModel", "DailyModel", c.name})
        bad = {k: v for k, v in out.items() if (k[0] is None or (isinstance(k[0], str) and k[0].lower() == "none")) and not (v.get("returns") == "frame" and v["frame"] == {"frame": "predict", "ops": []})}
        r2.require(not bad, f"{p.key}|unaggregated-pass-through", p.where(),
                   f"{p.qualname}: without aggregation the frame returned by _predict must be handed out unchanged (interpreted for aggregation in None/'none'); found {list(bad.items())[:1]}")
    dp = method(chk, dm, "predict")
    from rules.billing_agg import interpret_plain_predict
    outs_p = [interpret_plain_predict(chk, dp, {"DailyModel", dm.name}, wo) for wo in (True, False)]
    ok = all(o.get("returns") == "frame" and o["frame"] == {"frame": "predict", "ops": []} and o.get("predict_calls") == 1 for o in outs_p)
    r2.require(ok, f"{dp.key}|returns-_predict(df)", dp.where(), f"DailyModel.predict must return the frame self._predict gives for the data object's frame, unchanged; interpreted: {outs_p[:1]}")

    # ------------------------------------------------------------------ R06.3
    from rules.hourlyframe import check_contiguous_index
    check_contiguous_index(chk, r3)

    # ------------------------------------------------------------------ R06.5
    from rules.dstnorm import check_dst_normalisation
    check_dst_normalisation(chk, r5)

    # ------------------------------------------------------------------ R06.4
    cw = chk.repo.cls(*CALTRACK_WRAPPER)
    cp = method(chk, cw, "predict")
    # interpreted on index-provenance frames: which index does the returned frame carry, and what happened to its rows on the way
    out = _caltrack_predict_outcome(chk, cw, cp)
    ok = out.get("index") == "data.df.index" and not out.get("row_ops") and out.get("predicted_on") == "data.df.index"
    r4.require(ok, f"{cp.key}|column-wise-on-own-index", cp.where(),
               f"CalTRACK predict must predict over reporting_data.df.index and join the result column-wise onto reporting_data.df; interpreted: {out}", sample=out)
    sp = chk.repo.func("opendsm.eemeter.models.hourly_caltrack.segmentation", "SegmentedModel.predict")
    r4.require(".reindex(prediction_index)" in unparse(sp.node), f"{sp.key}|reindex(prediction_index)", sp.where(), "segment predictions must be reindexed onto the requested prediction index")
