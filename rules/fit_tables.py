"""The three sub-model fit functions of the daily model (fit_hdd_tidd_cdd, fit_c_hdd_tidd, fit_tidd) interpreted from their AST with the
optimiser, the objective factory and the bounds-update helpers as recorders (C12/R12.1, R12.2): what bounds table, coefficient-id list,
start vector and (model, weight, TSS) functions does the optimiser get, for smooth / unsmoothed, initial / final fit, heating / cooling
prior?  Temperatures and usage are represented by distinct numbers (minimum 20, maximum 95, the two segment_minimum_count order
statistics 25.5 and 89.5, usage quantiles 3.25 and 77.75), so the provenance of every bound is readable from its value."""
from __future__ import annotations

import math
from typing import Any, Dict, List, Optional

from engine.absint import AbsObj, ModuleEnv, enum_class
from engine.index import AnalysisError
from engine.pyinterp import Function, Interp, InterpRaised, Stub, StubCall, Unsupported
from rules.coef import CHT, HTC, PA, TIDD

T_MIN, T_MAX, T_LO_SEG, T_HI_SEG = 20.0, 95.0, 25.5, 89.5
Q01, Q99 = 3.25, 77.75
N_MIN = 6
SCALAR = 2.0


class _Data(Stub):
    """T or obs: only recognised reductions are answered."""

    def __init__(self, what):
        self.what = what


class _Part(Stub):
    def __init__(self, n):
        self.n = n

    def __getitem__(self, k):
        if k == self.n == N_MIN:
            return T_LO_SEG
        if k == self.n == -N_MIN:
            return T_HI_SEG
        return -999.0   # not an order statistic the settings ask for


class Bounds(Stub):
    """A bounds table: rows are [lo, hi] lists; rows and cells can be read and stored."""

    def __init__(self, rows):
        self.rows = [list(r) for r in rows]

    def __getitem__(self, k):
        if isinstance(k, int):
            return self.rows[k]
        if isinstance(k, tuple) and len(k) == 2 and isinstance(k[0], int):
            return self.rows[k[0]] if isinstance(k[1], slice) else self.rows[k[0]][k[1]]
        raise Unsupported("bounds[...] with a key other than a row or (row, column)")

    def __setitem__(self, k, v):
        if isinstance(k, int):
            self.rows[k] = list(v)
        elif isinstance(k, tuple) and len(k) == 2 and isinstance(k[0], int):
            if isinstance(k[1], slice):
                self.rows[k[0]] = list(v)
            else:
                self.rows[k[0]][k[1]] = v
        else:
            raise Unsupported("bounds[...] = ... with a key other than a row or (row, column)")

    def _abs_len(self):
        return len(self.rows)

    def __iter__(self):
        return iter(self.rows)


class NPf(Stub):
    inf = math.inf

    @staticmethod
    def min(x, **k):
        if isinstance(x, _Data) and x.what == "T":
            return T_MIN
        return min(x)

    @staticmethod
    def max(x, **k):
        if isinstance(x, _Data) and x.what == "T":
            return T_MAX
        return max(x)

    amin, amax = min, max

    @staticmethod
    def partition(x, n):
        if isinstance(x, _Data) and x.what == "T":
            return _Part(n)
        raise Unsupported("np.partition of something other than the temperatures")

    @staticmethod
    def quantile(x, q, **k):
        if isinstance(x, _Data) and x.what == "obs" and list(q) == [0.01, 0.99] and not k:
            return [Q01, Q99]
        return [-1.0, -2.0]   # not the 1 % / 99 % quantiles of usage

    @staticmethod
    def percentile(x, q, **k):
        if isinstance(x, _Data) and x.what == "obs" and list(q) == [1, 99] and not k:
            return [Q01, Q99]
        return [-1.0, -2.0]

    @staticmethod
    def abs(x): return abs(x)

    absolute = abs

    @staticmethod
    def log10(x): return math.log10(x) if x > 0 else -math.inf

    @staticmethod
    def array(x, **k):
        if isinstance(x, list) and x and isinstance(x[0], list):
            return Bounds(x)
        return x

    asarray = array


def _settings():
    return AbsObj({"DailySettings"}, alpha_selection=2.0, alpha_final="adaptive", segment_minimum_count=N_MIN, maximum_slope_oom_scalar=SCALAR)


class _Run(Stub):
    def __init__(self, rec):
        self.rec = rec

    def run(self):
        self.rec["ran"] = self.rec.get("ran", 0) + 1
        return "RESULT"


def _interpret(chk, fi, args: Dict[str, Any], update_name: str, x0_stand_ins: Dict[str, Any]) -> Dict[str, Any]:
    rec: Dict[str, Any] = {}

    def update(bnds, bnds_0, *a):
        rec["bnds_given"], rec["bnds_0"], rec["update_extra"] = bnds, bnds_0, a
        rows = bnds_0.rows if isinstance(bnds_0, Bounds) else bnds_0
        out = Bounds(rows)
        rec["bnds_out"] = out
        return out

    def factory(*a, **k):
        names = ["model_fcn", "weight_fcn", "TSS_fcn", "T", "obs", "weights", "settings", "alpha", "coef_id", "initial_fit"]
        got = dict(zip(names, a))
        got.update(k)
        rec["objective"] = got
        return "OBJECTIVE"

    def optimizer(*a, **k):
        names = ["obj_fcn", "x0", "bnds", "coef_id", "settings", "opt_options"]
        got = dict(zip(names, a))
        got.update(k)
        rec["optimizer"] = got
        return _Run(rec)
    stand = {"np": NPf(), "numpy": NPf(), update_name: StubCall(update), "obj_fcn_decorator": StubCall(factory), "Optimizer": StubCall(optimizer),
             "get_T_bnds": StubCall(lambda T, s: ([T_MIN, T_MAX], [T_LO_SEG, T_HI_SEG]))}
    stand.update(x0_stand_ins)
    it = Interp(step_limit=50_000)
    try:
        rec["returns"] = Function(fi.node, ModuleEnv(chk.repo, fi.module, it, stand), it)(**args)
    except InterpRaised as e:
        rec["raises"] = e.exc_name
    except Unsupported as e:
        raise AnalysisError(f"{fi.key}: uses an operation outside the modelled subset: {e}")
    return rec


def _fn_name(f) -> Optional[str]:
    if f is None:
        return None
    if isinstance(f, Function):
        return getattr(f.node, "name", "<lambda>")
    return repr(f)[:40]


def _x0(model_type, **vals):
    o = AbsObj({"ModelCoefficients"}, model_type=model_type, **vals)
    object.__setattr__(o, "to_np_array", StubCall(lambda: "X0-ARRAY"))
    return o


def outcomes(chk) -> List[Dict[str, Any]]:
    """One record per (function, smooth, initial_fit, prior) scenario: key of the coefficient shape, recorded tables, expected bounds."""
    mt = enum_class(chk.repo.cls(PA, "ModelType"))
    if mt is None:
        raise AnalysisError("ModelType is no longer an Enum of literal members")
    out: List[Dict[str, Any]] = []
    base = {"T": _Data("T"), "obs": _Data("obs"), "weights": None, "settings": _settings(), "opt_options": {"o": 1}, "bnds": None}
    # --- heating + cooling
    f = chk.repo.func(HTC, "fit_hdd_tidd_cdd")
    for smooth in (True, False):
        for initial in (True, False):
            x0 = _x0(mt.HDD_TIDD_CDD_SMOOTH if smooth else mt.HDD_TIDD_CDD, hdd_beta=2.0, cdd_beta=3.0, hdd_bp=50.0, cdd_bp=70.0, intercept=10.0, hdd_k=0.1, cdd_k=0.1)
            rec = _interpret(chk, f, dict(base, smooth=smooth, x0=x0, initial_fit=initial), "_hdd_tidd_cdd_smooth_update_bnds", {})
            bp = [T_MIN, T_MAX] if initial else [T_LO_SEG, T_HI_SEG]
            beta = [0, 3.0 + 3.0 * SCALAR]
            want = [bp, beta, [0, 1], bp, beta, [0, 1], [Q01, Q99]] if smooth else [bp, beta, bp, beta, [Q01, Q99]]
            out.append({"function": f, "key": "hdd_tidd_cdd_smooth" if smooth else "hdd_tidd_cdd", "smooth": smooth, "initial": initial, "prior": "given", "rec": rec, "want_bounds": want,
                        "want_alpha": 2.0 if initial else "adaptive"})
    # --- one slope
    f = chk.repo.func(CHT, "fit_c_hdd_tidd")
    for smooth in (True, False):
        for initial in (True, False):
            for prior in ("heating", "cooling", "heating-at-the-upper-limit"):
                if prior == "heating-at-the-upper-limit" and (smooth or initial):
                    continue
                b = -2.0 if prior.startswith("heating") else 3.0
                heating = prior.startswith("heating")
                typ = (mt.HDD_TIDD_SMOOTH if smooth else mt.HDD_TIDD) if heating else (mt.TIDD_CDD_SMOOTH if smooth else mt.TIDD_CDD)
                x0 = _x0(typ, hdd_beta=b if heating else None, cdd_beta=None if heating else b, hdd_bp=(92.0 if prior.endswith("limit") else 50.0) if heating else None,
                         cdd_bp=None if heating else 60.0, intercept=10.0, hdd_k=0.1 if smooth and heating else None, cdd_k=0.1 if smooth and not heating else None)
                rec = _interpret(chk, f, dict(base, smooth=smooth, x0=x0, initial_fit=initial), "_c_hdd_tidd_update_bnds",
                                 {"_c_hdd_tidd_x0_final": StubCall(lambda T, obs, x, alpha, settings: x), "_c_hdd_tidd_x0": StubCall(lambda *a: x0)})
                ms = abs(b) + abs(b) * SCALAR
                bp = [T_MIN, T_MAX] if initial else [T_LO_SEG, T_HI_SEG]
                if prior.endswith("limit"):
                    bp = [T_MAX, T_MAX]
                beta = [-ms, ms] if initial else ([-ms, 0] if b < 0 else [0, ms])
                want = [bp, beta, [0, 1000.0], [Q01, Q99]] if smooth else [bp, beta, [Q01, Q99]]
                out.append({"function": f, "key": "c_hdd_tidd_smooth" if smooth else "c_hdd_tidd", "smooth": smooth, "initial": initial, "prior": prior, "rec": rec, "want_bounds": want,
                            "want_alpha": 2.0 if initial else "adaptive", "final_bounds_row0": bp if prior.endswith("limit") else None})
    # --- no slope
    f = chk.repo.func(TIDD, "fit_tidd")
    for initial in (True, False):
        x0 = _x0(mt.TIDD, intercept=10.0)
        rec = _interpret(chk, f, {k: v for k, v in dict(base, x0=x0, initial_fit=initial).items()}, "_tidd_update_bnds", {"_tidd_x0": StubCall(lambda *a: x0)})
        out.append({"function": f, "key": "tidd", "smooth": False, "initial": initial, "prior": "given", "rec": rec, "want_bounds": [[Q01, Q99]], "want_alpha": 2.0 if initial else "adaptive"})
    return out


def rows_of(b) -> Optional[List[List[Any]]]:
    if isinstance(b, Bounds):
        return [list(r) for r in b.rows]
    if isinstance(b, list) and all(isinstance(r, list) for r in b):
        return [list(r) for r in b]
    return None


def functions_of(o: Dict[str, Any]) -> Dict[str, Optional[str]]:
    ob = o["rec"].get("objective") or {}
    return {r: _fn_name(ob.get(r)) for r in ("model_fcn", "weight_fcn", "TSS_fcn")}
