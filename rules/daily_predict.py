"""Abstract interpretation of DailyModel._initialize_data and DailyModel._predict (shared by C06/R06.2, C07/R07.1-3, C13/R13.2).

The two methods are interpreted from their AST on an abstract frame whose state is a *row-set expression* (which rows of the input
it holds: ALL, ALL filtered by a list of row filters, or ALL minus another row set), its columns, the in-place stores applied to
it, whether it was sorted, and what was joined onto it.  Copies are new objects, so aliasing and "write to a copy" are decided by
object identity, not by names.  Abstract booleans (`frame.empty`) are explored both ways.

Result: a description of the returned frame(s) from which the obligations of the three properties are read."""
from __future__ import annotations

from typing import Any, Dict, List, Optional, Tuple

from engine.absint import AbsBool, AbsObj, BoundRepoMethods, ClassRef, ModuleEnv, Opaque, Oracle, explore
from engine.index import AnalysisError, FuncInfo
from engine.pyinterp import Function, Interp, InterpRaised, Record, Stub, Unsupported

NAN = "NaN"


class Rows:
    """Immutable row-set expression."""

    def __init__(self, filters: Tuple[str, ...] = (), minus: Optional["Rows"] = None):
        self.filters, self.minus = tuple(filters), minus

    def add(self, f: str) -> "Rows":
        if self.minus is not None:
            return Rows(self.filters + (f,), self.minus)
        return Rows(self.filters + (f,))

    def key(self) -> str:
        base = "ALL" if self.minus is None else f"(ALL - {self.minus.key()})"
        return base + "".join(f"|{f}" for f in self.filters)

    def __eq__(self, o):
        return isinstance(o, Rows) and o.key() == self.key()

    def __hash__(self):
        return hash(self.key())

    __repr__ = key


CELLS = ("fin", "nan", "+inf", "-inf")   # what one cell of a numeric column can hold, as far as the masks of this code can tell


class Tok(str):
    """The description of a mask, carrying its meaning where it is known: sem(cell) -> bool for a row given as {column: one of CELLS}."""
    sem = None


def _tok(text: str, sem) -> "Tok":
    t = Tok(text)
    t.sem = sem
    return t


class DMask(Stub):
    def __init__(self, desc: str, rows: Rows, neg: bool = False, isin: Optional[Rows] = None, sem=None):
        self.desc, self.rows, self.neg, self.isin, self.sem = desc, rows, neg, isin, sem

    def __invert__(self):
        return DMask(self.desc, self.rows, not self.neg, self.isin, self.sem)

    def _sem(self):
        if self.sem is None:
            return None
        f, neg = self.sem, self.neg
        return (lambda c: not f(c)) if neg else f

    def token(self) -> str:
        return _tok(("not " if self.neg else "") + self.desc, self._sem())

    def _both(self, o, op):
        a, b = self._sem(), (o._sem() if isinstance(o, DMask) else None)
        if a is None or b is None:
            return None
        return (lambda c: a(c) and b(c)) if op == "&" else (lambda c: a(c) or b(c))

    def __and__(self, o):
        return DMask(f"({self.token()} & {o.token()})", self.rows, sem=self._both(o, "&"))

    def __or__(self, o):
        return DMask(f"({self.token()} | {o.token()})", self.rows, sem=self._both(o, "|"))

    def any(self):
        raise Unsupported("mask.any() is data dependent")


class DArr(Stub):
    def __init__(self, desc: str, rows: Rows):
        self.desc, self.rows = desc, rows

    def astype(self, *a, **k):
        return self


class DCol(Stub):
    def __init__(self, frame: "DFrame", col: str):
        self.frame, self.col = frame, col

    def isna(self):
        col = self.col
        return DMask(f"isna({self.col})", self.frame.rows, sem=lambda c: c.get(col, "fin") == "nan")

    isnull = isna

    def notna(self):
        return ~self.isna()

    notnull = notna

    def isin(self, values):
        """column.isin([np.inf, -np.inf]) and the like: membership in a literal list of special values."""
        vals = list(values) if isinstance(values, (list, tuple, set)) else None
        if vals is None or not all(isinstance(v, float) for v in vals):
            raise Unsupported("column.isin(...) other than a literal list of floats")
        import math as _m
        cells = set()
        for v in vals:
            if _m.isnan(v):
                continue            # isin never matches NaN against NaN reliably; not counted
            if _m.isinf(v):
                cells.add("+inf" if v > 0 else "-inf")
            else:
                raise Unsupported("column.isin(...) with an ordinary number")
        col = self.col
        return DMask(f"isin({col},{sorted(cells)})", self.frame.rows, sem=lambda c: c.get(col, "fin") in cells)

    def abs(self):
        return _AbsCol(self)

    def __eq__(self, o):
        import math as _m
        if isinstance(o, float) and _m.isinf(o):
            col, cell = self.col, ("+inf" if o > 0 else "-inf")
            return DMask(f"eq({col},{cell})", self.frame.rows, sem=lambda c: c.get(col, "fin") == cell)
        return NotImplemented

    __hash__ = None

    @property
    def values(self):
        return DArr(self.col, self.frame.rows)

    def to_numpy(self):
        return DArr(self.col, self.frame.rows)

    def mask(self, m, other=None):
        if not isinstance(m, DMask) or other is not None:
            raise Unsupported("Series.mask form not modelled")
        return DMaskedCol(self, m)

    def where(self, m, other=None):
        if not isinstance(m, DMask) or other is not None:
            raise Unsupported("Series.where form not modelled")
        return DMaskedCol(self, ~m)


class _AbsCol(Stub):
    """column.abs(): only `== np.inf` is asked of it."""

    def __init__(self, col):
        self.c = col

    def __eq__(self, o):
        import math as _m
        if isinstance(o, float) and _m.isinf(o) and o > 0:
            col = self.c.col
            return DMask(f"isinf({col})", self.c.frame.rows, sem=lambda c: c.get(col, "fin") in ("+inf", "-inf"))
        return NotImplemented

    __hash__ = None


class DMaskedCol(Stub):
    def __init__(self, col: DCol, m: DMask):
        self.col, self.m = col, m


class DIndex(Stub):
    def __init__(self, rows: Rows, of: Any = None):
        self.rows, self.of = rows, of
        from rules.colterms import CT
        self.month = CT("index.month")
        self.dayofweek = CT("index.dayofweek")
        self.weekday = CT("index.dayofweek")   # DatetimeIndex.weekday is an alias of dayofweek
        self.day_of_week = CT("index.dayofweek")
        self.tz = Opaque("index.tz")

    def _abs_isinstance(self, t):
        ts = t if isinstance(t, tuple) else (t,)
        return any(isinstance(x, ClassRef) and x.name == "DatetimeIndex" for x in ts)

    def isin(self, other):
        if not isinstance(other, DIndex):
            raise Unsupported("index.isin(<not an index>)")
        return DMask(f"index-in[{other.rows.key()}]", self.rows, isin=other.rows)

    def duplicated(self, *a, **k):
        return DMask("index-duplicated", self.rows)

    def __getattr__(self, name):
        if name.startswith("_"):
            raise AttributeError(name)
        if name in ("normalize", "round", "floor", "ceil", "unique", "drop_duplicates", "tz_convert", "tz_localize", "shift", "sort_values", "to_period", "date"):
            me = self

            class _Op(Stub):
                def _abs_call(self_, *a, **k):
                    return DIndex(me.rows.add(f"index-op:{name}"), me.of)
            return _Op()
        raise AttributeError(name)


class DColumns(Stub):
    def __init__(self, cols):
        self.cols = list(cols)

    def __contains__(self, k):
        return k in self.cols

    def __iter__(self):
        return iter(list(self.cols))

    def __len__(self):
        return len(self.cols)

    def tolist(self):
        return list(self.cols)

    to_list = tolist


def _default_sort(k: dict) -> bool:
    """Only the defaults spelled out: sort_index(axis=0, ascending=True)."""
    return all((n == "axis" and v in (0, "index")) or (n == "ascending" and v is True) for n, v in k.items())


def _all_rows(x) -> bool:
    return isinstance(x, slice) and x.start is None and x.stop is None and x.step is None


class DLoc(Stub):
    def __init__(self, frame: "DFrame"):
        self.frame = frame

    def __getitem__(self, k):
        if isinstance(k, DMask):
            return self.frame._filter(k)
        if isinstance(k, tuple) and len(k) == 2:
            rows, cols = k
            if isinstance(rows, DMask) and _all_rows(cols):
                return self.frame._filter(rows)
            if _all_rows(rows) and isinstance(cols, (list, str)):
                return self.frame[cols]            # .loc[:, cols] selects columns like frame[cols]
        raise Unsupported(".loc[...] read with " + type(k).__name__)

    def __setitem__(self, k, v):
        if isinstance(k, tuple) and len(k) == 2 and isinstance(k[0], DMask) and isinstance(k[1], str):
            m, col = k
            if m.rows != self.frame.rows:
                raise Unsupported(".loc store with a mask of another row set")
            self.frame.stores.append((m.token(), col, _val(v)))
            return
        raise Unsupported(".loc[...] store form not modelled")


def _val(v) -> str:
    if isinstance(v, float) and v != v:
        return NAN
    if v is None:
        return "None"
    if isinstance(v, (int, float, str)):
        return repr(v)
    if isinstance(v, DMaskedCol):
        return f"{v.col.col} masked where {v.m.token()}"
    return type(v).__name__


class DFrame(Stub):
    _uid = [0]

    def __init__(self, w: "World", rows: Rows, cols, sorted_: bool = False, joined=None, parent: Optional["DFrame"] = None):
        self.w, self.rows, self.cols, self.sorted, self.joined = w, rows, list(cols), sorted_, joined
        self.stores: List[Tuple[str, str, str]] = []
        self.mutations: List[str] = []
        self.parent = parent
        DFrame._uid[0] += 1
        self.uid = DFrame._uid[0]
        w.frames.append(self)
        self.defs: Dict[str, str] = {}   # column -> how its values were computed (columns stored as recording terms)
        if parent is not None:
            self.stores = list(parent.stores)
            self.defs = dict(parent.defs)

    # ---- reads
    @property
    def columns(self):
        return DColumns(self.cols)

    @property
    def index(self):
        return DIndex(self.rows, self)

    @index.setter
    def index(self, v):
        self.mutations.append("index=")

    @property
    def empty(self):
        return AbsBool(f"empty[{self.rows.key()}]", self.w.oracle)

    @property
    def loc(self):
        return DLoc(self)

    def __len__(self):
        return 7  # an arbitrary positive length: only used to form positions, which are recorded as `op:iloc`

    def __getitem__(self, k):
        if isinstance(k, str):
            if k not in self.cols:
                raise InterpRaised("KeyError", repr(k))
            return DCol(self, k)
        if isinstance(k, DMask):
            return self._filter(k)
        if isinstance(k, list) and all(isinstance(x, str) for x in k):
            miss = [x for x in k if x not in self.cols]
            if miss:
                raise InterpRaised("KeyError", repr(miss))
            f = DFrame(self.w, self.rows, k, self.sorted, self.joined, self)
            return f
        raise Unsupported("frame[...] with " + type(k).__name__)

    def _filter(self, m: DMask) -> "DFrame":
        if m.rows != self.rows:
            raise Unsupported("row filter with a mask computed on another row set")
        if m.isin is not None:
            if not m.neg:
                raise Unsupported("positive index.isin filter")
            if self.rows.filters or self.rows.minus is not None:
                raise Unsupported("complement of a filtered frame")
            return DFrame(self.w, Rows((), m.isin), self.cols, self.sorted, self.joined, self)
        return DFrame(self.w, self.rows.add("keep " + m.token()), self.cols, self.sorted, self.joined, self)

    def isna(self):
        return _DFrameNa(self, False)

    isnull = isna

    def notna(self):
        return _DFrameNa(self, True)

    notnull = notna

    # ---- new frames
    def copy(self, *a, **k):
        return DFrame(self.w, self.rows, self.cols, self.sorted, self.joined, self)

    def dropna(self, *a, subset=None, how="any", axis=0, inplace=False, **k):
        if a or k or axis not in (0, "index") or inplace:
            raise Unsupported("dropna form not modelled")
        what = "all-columns" if subset is None else ",".join(subset if isinstance(subset, list) else [subset])
        return DFrame(self.w, self.rows.add(f"keep notna[{how}:{what}]"), self.cols, self.sorted, self.joined, self)

    def sort_index(self, *a, inplace=False, **k):
        if a or not _default_sort(k):
            raise Unsupported("sort_index with arguments")
        if inplace:
            self.sorted = True
            self.mutations.append("sort_index(inplace)")
            return None
        return DFrame(self.w, self.rows, self.cols, True, self.joined, self)

    def rename(self, columns=None, inplace=False, **k):
        if k or not isinstance(columns, dict) or inplace:
            raise Unsupported("rename form not modelled")
        return DFrame(self.w, self.rows, [columns.get(c, c) for c in self.cols], self.sorted, self.joined, self)

    def join(self, other, how="left", **k):
        if k:
            raise Unsupported(f"join with {sorted(k)}")
        if self.joined is not None:
            raise Unsupported("second join")
        f = DFrame(self.w, self.rows, self.cols + list(getattr(other, "cols", [])), self.sorted, (other, how), self)
        return f

    # ---- in-place mutations
    def __setitem__(self, k, v):
        if not isinstance(k, str):
            raise Unsupported("frame[...] store with " + type(k).__name__)
        if isinstance(v, DMaskedCol) and v.col.frame is self and v.col.col == k:
            self.stores.append((v.m.token(), k, NAN))
            return
        if k in self.cols and (v is None or isinstance(v, (int, float, str))):
            self.stores.append(("<all rows>", k, _val(v)))
        from rules.colterms import CT
        if isinstance(v, CT):
            self.defs[k] = v.key()
        elif isinstance(v, Opaque):
            self.defs[k] = f"opaque:{v._what}"
        else:
            self.defs.pop(k, None)
        if k not in self.cols:
            self.cols.append(k)
        self.mutations.append(f"setitem:{k}")

    def drop(self, labels=None, axis=0, inplace=False, columns=None, **k):
        if k:
            raise Unsupported(f"drop with {sorted(k)}")
        names = columns if columns is not None else (labels if axis in (1, "columns") else None)
        if names is None:
            raise Unsupported("row drop")
        names = names if isinstance(names, list) else [names]
        if inplace:
            self.cols = [c for c in self.cols if c not in names]
            self.mutations.append(f"drop:{names}")
            return None
        return DFrame(self.w, self.rows, [c for c in self.cols if c not in names], self.sorted, self.joined, self)

    def set_index(self, col, inplace=False, **k):
        if k:
            raise Unsupported("set_index form not modelled")
        if inplace:
            self.cols = [c for c in self.cols if c != col]
            self.mutations.append("set_index")
            return None
        return DFrame(self.w, self.rows, [c for c in self.cols if c != col], self.sorted, self.joined, self)

    def __getattr__(self, name):
        if name.startswith("_"):
            raise AttributeError(name)
        if name in ("drop_duplicates", "head", "tail", "asfreq", "reindex", "sample", "query", "shift", "tz_convert", "tz_localize", "reset_index", "first", "last", "truncate", "nlargest", "nsmallest"):
            # operations that change which rows (or which labels) a frame holds: recorded in the row-set expression, so the result
            # can no longer be shown to be kept + complement
            me = self

            class _Op(Stub):
                def _abs_call(self_, *a, **k):
                    return DFrame(me.w, me.rows.add(f"op:{name}"), me.cols, me.sorted, me.joined, me)
            return _Op()
        if name == "iloc":
            me = self

            class _ILoc(Stub):
                def __getitem__(self_, k):
                    return DFrame(me.w, me.rows.add("op:iloc"), me.cols, me.sorted, me.joined, me)

                def __setitem__(self_, k, v):
                    raise Unsupported("iloc store")
            return _ILoc()
        if name in ("resample", "groupby", "merge", "fillna", "interpolate", "rolling", "apply", "transform"):
            raise Unsupported(f"frame operation `{name}` is not part of the modelled assembly")
        raise AttributeError(name)

    def desc(self) -> Dict[str, Any]:
        d = {"rows": self.rows.key(), "sorted": self.sorted, "stores": list(self.stores), "column_defs": {c: v for c, v in self.defs.items() if c in self.cols}}
        if self.joined is not None:
            d["joined"] = {"how": self.joined[1], "what": self.joined[0].desc() if hasattr(self.joined[0], "desc") else type(self.joined[0]).__name__}
        return d


class _DFrameNa(Stub):
    """frame.isna() / frame.notna(): only the row-wise reductions are modelled."""

    def __init__(self, frame: DFrame, neg: bool):
        self.frame, self.neg = frame, neg

    def _reduce(self, how: str, axis):
        if axis not in (1, "columns"):
            raise Unsupported("frame.isna().any()/all() other than row-wise (axis=1)")
        # isna().any(1) = not notna().all(1) = rows dropna(how='any') drops ; isna().all(1) = not notna().any(1) = rows dropna(how='all') drops
        if not self.neg:
            return DMask(f"isna[{'any' if how == 'any' else 'all'}:all-columns]", self.frame.rows)
        return DMask(f"isna[{'all' if how == 'any' else 'any'}:all-columns]", self.frame.rows, neg=True)

    def any(self, axis=0, **k):
        return self._reduce("any", axis)

    def all(self, axis=0, **k):
        return self._reduce("all", axis)


class Segment(Stub):
    def __init__(self, key: str, of: DFrame):
        self.key, self.of = key, of

    def __getitem__(self, k):
        if isinstance(k, str):
            return DCol(DFrame(self.of.w, self.of.rows.add(f"segment[{self.key}]"), self.of.cols), k)
        raise Unsupported("segment[...]")

    @property
    def index(self):
        return DIndex(self.of.rows.add(f"segment[{self.key}]"), self)


class PredFrame(Stub):
    def __init__(self, index: DIndex, data: Dict[str, Any]):
        self.index, self.data = index, dict(data)
        self.labels: Dict[str, Any] = {}

    def __setitem__(self, k, v):
        self.labels[k] = v
        self.data[k] = v

    @property
    def cols(self):
        return list(self.data)

    def desc(self):
        return {"index": self.index.rows.key(), "segment_key": getattr(self.index.of, "key", None), "columns": list(self.data),
                "model_split": self.labels.get("model_split"), "sources": {k: (v.desc, v.rows.key()) for k, v in self.data.items() if isinstance(v, DArr)}}


class PredAll(Stub):
    def __init__(self, items: List[PredFrame], axis):
        self.items, self.axis = items, axis

    @property
    def cols(self):
        return self.items[0].cols if self.items else []

    def desc(self):
        return {"axis": self.axis, "parts": [i.desc() for i in self.items]}


class DConcat(Stub):
    def __init__(self, items, axis, sorted_=False, ops=()):
        self.items, self.axis, self.sorted, self.ops = items, axis, sorted_, tuple(ops)

    def sort_index(self, *a, **k):
        if a or not _default_sort(k):
            raise Unsupported("sort_index with arguments")
        return DConcat(self.items, self.axis, True, self.ops)

    @property
    def index(self):
        return DIndex(Rows(("concat",)), self)

    @property
    def columns(self):
        return DColumns([c for i in self.items for c in getattr(i, "cols", [])])

    def __getitem__(self, k):
        if isinstance(k, DMask):
            return DConcat(self.items, self.axis, self.sorted, self.ops + (f"filter[{k.token()}]",))
        if isinstance(k, list):
            return DConcat(self.items, self.axis, self.sorted, self.ops + (f"select{k}",))
        raise Unsupported("concat[...] with " + type(k).__name__)

    def __getattr__(self, name):
        if name.startswith("_"):
            raise AttributeError(name)
        if name in ("drop_duplicates", "head", "tail", "dropna", "reindex", "reset_index", "sample", "query", "copy", "loc", "iloc"):
            me = self

            class _Op(Stub):
                def _abs_call(self_, *a, **k):
                    return DConcat(me.items, me.axis, me.sorted, me.ops + (name,) if name != "copy" else me.ops)

                def __getitem__(self_, k):
                    return DConcat(me.items, me.axis, me.sorted, me.ops + (name,))
            return _Op()
        raise AttributeError(name)

    def desc(self):
        return {"concat_axis": self.axis, "sorted": self.sorted, "ops": list(self.ops), "parts": [i.desc() if hasattr(i, "desc") else type(i).__name__ for i in self.items]}


class PDd(Stub):
    DatetimeIndex = ClassRef("DatetimeIndex")
    Series = ClassRef("Series")
    DataFrame_cls = ClassRef("DataFrame")

    def __init__(self, w):
        self.w = w

    def concat(self, objs, axis=0, **k):
        if k:
            raise Unsupported(f"pd.concat with {sorted(k)}")
        objs = list(objs)
        if objs and all(isinstance(o, PredFrame) for o in objs):
            return PredAll(objs, axis)
        if objs and all(isinstance(o, (DFrame, DConcat)) for o in objs):
            return DConcat(objs, axis)
        raise Unsupported("pd.concat of " + ", ".join(type(o).__name__ for o in objs))

    def DataFrame(self, data=None, index=None, **k):
        if k or not isinstance(data, dict) or not isinstance(index, DIndex):
            raise Unsupported("pd.DataFrame form not modelled")
        return PredFrame(index, data)

    def to_datetime(self, x, **k):
        return x


class NPd(Stub):
    nan = float("nan")

    inf = float("inf")
    NINF = float("-inf")
    PINF = float("inf")

    @staticmethod
    def isfinite(x):
        if isinstance(x, DCol):
            col = x.col
            return DMask(f"finite({x.col})", x.frame.rows, sem=lambda c: c.get(col, "fin") == "fin")
        raise Unsupported("np.isfinite of " + type(x).__name__)

    @staticmethod
    def isinf(x):
        if isinstance(x, DCol):
            col = x.col
            return DMask(f"isinf({x.col})", x.frame.rows, sem=lambda c: c.get(col, "fin") in ("+inf", "-inf"))
        raise Unsupported("np.isinf of " + type(x).__name__)

    @staticmethod
    def isnan(x):
        if isinstance(x, DCol):
            return x.isna()
        raise Unsupported("np.isnan of " + type(x).__name__)

    @staticmethod
    def logical_not(m):
        if isinstance(m, DMask):
            return ~m
        raise Unsupported("np.logical_not of " + type(m).__name__)

    invert = logical_not

    @staticmethod
    def logical_and(a, b):
        if isinstance(a, DMask) and isinstance(b, DMask):
            return a & b
        raise Unsupported("np.logical_and of non-masks")

    @staticmethod
    def logical_or(a, b):
        if isinstance(a, DMask) and isinstance(b, DMask):
            return a | b
        raise Unsupported("np.logical_or of non-masks")

    float64 = Opaque("np.float64")


class World:
    def __init__(self):
        self.oracle = Oracle()
        self.frames: List["DFrame"] = []


class _DailyModel(AbsObj, BoundRepoMethods):
    def __init__(self, chk, cls_info, interp, stand_ins, world):
        AbsObj.__init__(self, {"DailyModel", cls_info.name}, is_fitted=True, disqualification=[], warnings=[], settings=Opaque("settings"), baseline_timezone="TZ")
        self._bind_repo(chk, cls_info, interp, stand_ins)
        self._w = world
        subs = {}
        for k in ("wd-su_sh_wi", "we-su_sh_wi"):
            subs[k] = AbsObj({"DailySubmodelParameters"}, model_type=AbsObj((), value=f"type-of-{k}"), coefficients=Opaque("coefficients"), temperature_constraints=Opaque("constraints"), f_unc=1.0)
        self.params = AbsObj({"DailyModelParameters"}, submodels=subs)
        self.segment_calls: List[Tuple[str, str]] = []

    def _bind(self, name, a, k, n):
        """Positional view of a call written against the repository method's own parameter names (keywords allowed)."""
        chk_, cls_info_ = self.__dict__["_repo_ctx"][0], self.__dict__["_repo_ctx"][1]
        fi = chk_.res.find_method(cls_info_, name)
        params = [p for p in (fi.params if fi is not None else []) if p not in ("self", "cls")]
        vals = list(a)
        for p_ in params[len(vals):]:
            if p_ in k:
                vals.append(k[p_])
            else:
                break
        if len(vals) < n:
            raise Unsupported(f"{name} called without its first {n} arguments")
        return vals[:n]

    def _meter_segment(self, *a, **k):
        key, frame = self._bind("_meter_segment", a, k, 2)
        if not isinstance(frame, DFrame):
            raise Unsupported("_meter_segment on " + type(frame).__name__)
        self.segment_calls.append((key, frame.rows.key()))
        return Segment(key, frame)

    def _predict_submodel(self, *a, **k):
        sub, T = self._bind("_predict_submodel", a, k, 2)
        if not isinstance(T, DArr):
            raise Unsupported("_predict_submodel on " + type(T).__name__)
        owner = [k_ for k_, v in self.params.submodels.items() if v is sub]
        tag = owner[0] if owner else "?"
        vals = tuple(DArr(f"{nm}[{tag}]({T.desc})", T.rows) for nm in ("model", "unc", "hdd_load", "cdd_load"))
        # the container the repository's method hands back: a plain tuple, or a NamedTuple / record class of four fields (read by name too)
        import ast as _ast
        from engine.pyinterp import Record, record_class
        chk_, cls_info_ = self.__dict__["_repo_ctx"][0], self.__dict__["_repo_ctx"][1]
        fi = chk_.res.find_method(cls_info_, "_predict_submodel")
        if fi is not None:
            for r_ in [n for n in _ast.walk(fi.node) if isinstance(n, _ast.Return) and isinstance(n.value, _ast.Call) and isinstance(n.value.func, _ast.Name)]:
                ci = fi.module.classes.get(r_.value.func.id)
                rc = record_class(ci.node) if ci is not None else None
                if rc is not None and len(rc.fields) == 4:
                    return Record(rc, dict(zip(rc.fields, vals)))
        return vals


IN_COLS = ["season", "weekday_weekend", "temperature", "observed"]


def _mk(chk, cls_info, with_observed: bool):
    it = Interp(step_limit=300_000)
    w = World()
    stand = {"np": NPd(), "numpy": NPd(), "pd": PDd(w), "pandas": PDd(w)}
    model = _DailyModel(chk, cls_info, it, stand, w)
    frame = DFrame(w, Rows(), [c for c in IN_COLS if with_observed or c != "observed"])
    return it, w, stand, model, frame


def initialize_outcomes(chk, cls_info, fi: FuncInfo) -> List[Dict[str, Any]]:
    out = []
    for wo in (True, False):
        def run():
            it, w, stand, model, frame = _mk(chk, cls_info, wo)
            w.oracle = orc
            model._oracle = orc
            env = ModuleEnv(chk.repo, fi.module, it, stand)
            try:
                r = Function(fi.node, env, it)(model, frame)
            except InterpRaised as e:
                return {"raises": e.exc_name}
            if isinstance(r, Record) and r._cls.is_tuple:
                r = tuple(r._values())   # a named pair is still the pair
            if not (isinstance(r, tuple) and len(r) == 2 and all(isinstance(x, DFrame) for x in r)):
                return {"returns": repr(r)[:80]}
            k, d = r
            return {"kept": k.desc(), "dropped": d.desc(), "kept_cols": list(k.cols), "dropped_cols": list(d.cols), "same_object": k is d, "input_mutations": list(frame.mutations)}
        orc = Oracle()
        try:
            for tr, res in explore(run, orc):
                res = dict(res)
                res["with_observed"] = wo
                res["decisions"] = tr
                out.append(res)
        except Unsupported as e:
            raise AnalysisError(f"{fi.key}: uses an operation outside the modelled subset: {e}")
    return out


def predict_outcomes(chk, cls_info, fi: FuncInfo) -> List[Dict[str, Any]]:
    out = []
    flag = [p for p in fi.params if p not in ("self",)][1] if len([p for p in fi.params if p != "self"]) > 1 else None
    for wo in (True, False):
        for mask_on in ((True, False) if flag else (True,)):
            def run():
                it, w, stand, model, frame = _mk(chk, cls_info, wo)
                w.oracle = orc
                model._oracle = orc
                env = ModuleEnv(chk.repo, fi.module, it, stand)
                kw = {flag: mask_on} if flag else {}
                try:
                    r = Function(fi.node, env, it)(model, frame, **kw)
                except InterpRaised as e:
                    return {"raises": e.exc_name}
                d = r.desc() if hasattr(r, "desc") else {"returns": repr(r)[:80]}
                in_result = set()
                if isinstance(r, DConcat):
                    in_result = {id(x) for x in r.items}
                own = {id(x): len(x.parent.stores) if x.parent is not None else 0 for x in w.frames}
                d["lost_stores"] = [st for x in w.frames if id(x) not in in_result for st in x.stores[own[id(x)]:] if st[1] in ("observed", "temperature")
                                    and not any(st in y.stores for y in w.frames if id(y) in in_result)]
                d["segment_calls"] = list(model.segment_calls)
                d["stored_keys"] = list(model.params.submodels)
                return d
            orc = Oracle()
            try:
                for tr, res in explore(run, orc):
                    res = dict(res)
                    res.update({"with_observed": wo, "mask_on": mask_on, "decisions": tr})
                    out.append(res)
            except Unsupported as e:
                raise AnalysisError(f"{fi.key}: uses an operation outside the modelled subset: {e}")
    return out


# ---------------------------------------------------------------------------------------------- obligations
def _complete(rows_key: str, col: str) -> bool:
    """Do the row filters remove every row whose `col` is missing?  (dropna over all columns or over a subset naming it, or a finite filter)"""
    import re as _re
    if "keep notna[any:all-columns]" in rows_key or f"keep finite({col})" in rows_key or f"keep not isna({col})" in rows_key:
        return True
    for m in _re.finditer(r"keep notna\[any:([^\]]*)\]", rows_key):
        if col in m.group(1).split(","):
            return True
    return False


def judge_predict(o: Dict[str, Any]) -> List[Tuple[str, str]]:
    """[(obligation, text)] violated by one outcome of predict_outcomes().  Obligations:
    rows    (C06)  result = sort_index(concat axis 0 of [kept left-joined with the per-key predictions, dropped]); dropped = ALL - kept;
                   every stored key predicts exactly its own segment of the kept frame and labels it with that key
    mask    (C07)  with the flag on and an observed column, dropped carries exactly the store observed[isna(temperature)] = NaN; with the
                   flag off, or without observed, no store; kept rows are never written
    lost    (C07)  no store into observed/temperature is made on a frame that is not part of the result (a temporary copy)
    kept    (C07)  the kept frame has no row with missing temperature (or usage, when supplied)"""
    bad: List[Tuple[str, str]] = []
    ctx = f"(observed column {'present' if o['with_observed'] else 'absent'}, masking flag {'on' if o['mask_on'] else 'off'}, decisions {o['decisions']})"
    if "raises" in o:
        return [("rows", f"_predict raises {o['raises']} {ctx}")]
    if "concat_axis" not in o:
        return [("rows", f"_predict does not return the concat of the kept and dropped frames: {str(o)[:120]} {ctx}")]
    parts = o["parts"]
    if o["concat_axis"] not in (0, "index") or len(parts) != 2 or not all(isinstance(p, dict) and "rows" in p for p in parts):
        return [("rows", f"the result must be the row-wise concat of exactly two frames (kept with predictions, dropped); found axis={o['concat_axis']} with {len(parts)} part(s) {ctx}")]
    if not o["sorted"]:
        bad.append(("rows", f"the result is not sorted by index after re-appending the dropped rows {ctx}"))
    if o.get("ops"):
        bad.append(("rows", f"after re-appending the dropped rows the result is changed again by {o['ops']}: rows of the reporting frame can be dropped or multiplied {ctx}"))
    ks = [p for p in parts if "joined" in p]
    ds = [p for p in parts if "joined" not in p]
    if len(ks) != 1 or len(ds) != 1:
        return bad + [("rows", f"exactly one of the two concatenated frames must carry the joined predictions; found {len(ks)} {ctx}")]
    K, D = ks[0], ds[0]
    empty = any(t.startswith("empty[") and v for t, v in o["decisions"])
    same_by_na = K["rows"] == "ALL|keep notna[any:all-columns]" and D["rows"] == "ALL|keep isna[any:all-columns]"   # the rows dropna() drops, spelled as a mask
    if not (D["rows"] == f"(ALL - {K['rows']})" or (empty and D["rows"] == "ALL") or same_by_na):
        bad.append(("rows", f"the re-appended rows `{D['rows']}` are not the complement of the predicted rows `{K['rows']}`: timestamps are dropped or duplicated {ctx}"))
    j = K["joined"]
    if j["how"] != "left":
        bad.append(("rows", f"predictions are joined with how={j['how']!r}: rows of the cleaned frame can be lost or multiplied {ctx}"))
    what = j["what"]
    if not isinstance(what, dict) or what.get("axis") not in (0, "index"):
        bad.append(("rows", f"per-key predictions must be stacked row-wise before the join; found {str(what)[:80]} {ctx}"))
    else:
        keys = [p["segment_key"] for p in what["parts"]]
        if sorted(keys) != sorted(o["stored_keys"]):
            bad.append(("rows", f"predictions are built for keys {keys}, the stored sub-models are {o['stored_keys']}: days are predicted twice or not at all {ctx}"))
        for p in what["parts"]:
            want = f"{K['rows']}|segment[{p['segment_key']}]"
            if p["index"] != want:
                bad.append(("rows", f"the prediction frame of `{p['segment_key']}` is indexed by `{p['index']}` instead of its own segment of the cleaned frame `{want}` {ctx}"))
            if p.get("model_split") != p["segment_key"]:
                bad.append(("rows", f"rows routed with key `{p['segment_key']}` are labelled model_split={p.get('model_split')!r} {ctx}"))
            for col, (src, rows) in p.get("sources", {}).items():
                if rows != want or "(temperature)" not in src or f"[{p['segment_key']}]" not in src:
                    bad.append(("rows", f"`{col}` of segment `{p['segment_key']}` is computed from `{src}` over `{rows}` (must be that segment's own temperatures with its own sub-model) {ctx}"))
    # masking
    # the re-appended rows get no prediction, so each of them whose temperature is not a number - missing, or +-inf, which the finite
    # filter drops as well - must have its consumption blanked; the NaN stores into `observed` are evaluated on one cell per case
    obs_stores = [s_ for s_ in D["stores"] if s_[1] == "observed"]
    if o["mask_on"] and o["with_observed"]:
        blank = [s_ for s_ in obs_stores if s_[2] == NAN and getattr(s_[0], "sem", None) is not None]
        opaque = [s_ for s_ in obs_stores if s_ not in blank]
        uncovered = [t_ for t_ in ("nan", "+inf", "-inf") if not any(s_[0].sem({"temperature": t_, "observed": "fin"}) for s_ in blank)]
        if "nan" in uncovered:
            bad.append(("mask", f"with masking on, the re-appended rows reach the result without observed[temperature missing] = NaN (stores found: {D['stores']}): those days keep their consumption although they get no prediction {ctx}"))
        elif uncovered:
            bad.append(("mask-nonfinite", f"the re-appended rows include the days whose temperature is {' / '.join(uncovered)} (the finite filter drops them like days without temperature), but their consumption is blanked "
                                           f"only by {[tuple(s_) for s_ in blank]}: such a day comes back with its usage and no prediction {ctx}"))
        if opaque:
            bad.append(("mask", f"observed of the re-appended rows is also overwritten by {opaque} {ctx}"))
    else:
        if obs_stores:
            bad.append(("mask", f"observed is overwritten {obs_stores} although {'masking is off' if o['with_observed'] else 'there is no observed column'} {ctx}"))
    if [s_ for s_ in K["stores"] if s_[1] in ("observed", "temperature")]:
        bad.append(("mask", f"values of predicted rows are overwritten: {K['stores']} {ctx}"))
    if [s_ for s_ in D["stores"] if s_[1] == "temperature"]:
        bad.append(("mask", f"temperature of the re-appended rows is overwritten: {D['stores']} {ctx}"))
    if o.get("lost_stores"):
        bad.append(("lost", f"store(s) {o['lost_stores']} go into a frame that is not part of the result (a temporary copy): the masking has no effect {ctx}"))
    # kept rows are complete
    f_ = K["rows"]
    t_ok = _complete(f_, "temperature")
    o_ok = (not o["with_observed"]) or _complete(f_, "observed")
    if not (t_ok and o_ok):
        bad.append(("kept", f"predictions are made for `{f_}`: rows with a missing temperature{' or usage' if o['with_observed'] else ''} are not removed first {ctx}"))
    return bad


def judge_initialize(o: Dict[str, Any]) -> List[Tuple[str, str]]:
    bad: List[Tuple[str, str]] = []
    ctx = f"(observed column {'present' if o['with_observed'] else 'absent'}, decisions {o['decisions']})"
    if "kept" not in o:
        return [("rows", f"_initialize_data does not return (kept, dropped): {str(o)[:100]} {ctx}")]
    K, D = o["kept"], o["dropped"]
    empty = any(t.startswith("empty[") and v for t, v in o["decisions"])
    if not (D["rows"] == f"(ALL - {K['rows']})" or (empty and D["rows"] == "ALL")):
        bad.append(("rows", f"dropped rows `{D['rows']}` are not the complement of the kept rows `{K['rows']}` {ctx}"))
    if not K["sorted"] or not D["sorted"]:
        bad.append(("rows", f"_initialize_data must sort the frame by its index before splitting it {ctx}"))
    if o["same_object"]:
        bad.append(("rows", f"kept and dropped are the same object {ctx}"))
    f_ = K["rows"]
    t_ok = _complete(f_, "temperature")
    o_ok = (not o["with_observed"]) or _complete(f_, "observed")
    if not (t_ok and o_ok):
        bad.append(("kept", f"kept rows `{f_}` may still hold a missing temperature{' or usage' if o['with_observed'] else ''} {ctx}"))
    if K["stores"] or D["stores"]:
        bad.append(("rows", f"_initialize_data overwrites values: {K['stores'] + D['stores']} {ctx}"))
    want = {"season": "map(index.month, settings.season._num_dict)", "day_of_week": "add(1, index.dayofweek)"}
    for part, P in (("kept", K), ("dropped", D)):
        for c, wv in want.items():
            got = P.get("column_defs", {}).get(c)
            if got != wv and not (part == "dropped" and got is None):
                bad.append(("routing", f"the routing column `{c}` of the {part} frame is computed as `{got}`; it must be `{wv}` (the model's own season map of the calendar month; weekday 1 = Monday) {ctx}"))
    return bad
