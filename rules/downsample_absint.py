"""downsample_and_clean_daily_data (the sub-daily -> daily usage roll-up) interpreted under the one-row abstraction (engine/rowabs.py):
the generic day has coverage c and rolled-up value v; the outcome says whether the day is still a row of the result, with which value,
and whether the missing-data warning fired.  Shared by C08/R08.1 (the 50 % rule and the coverage rescaling) and C05 (the set of meter
days must not depend on the usage values: a thinly covered day stays a row, holding NaN)."""
from __future__ import annotations

from typing import Any, Dict, List

from engine.absint import ModuleEnv
from engine.index import AnalysisError
from engine.pyinterp import Function, Interp, InterpRaised, StubCall, Unsupported
from engine.rowabs import ABSENT, NPRow, PDRow, RowFrame, Ser
from rules.kinds import DPU

COVERAGES = [0.0, 0.25, 0.5, 0.5000001, 0.75, 1.0]
VALUE = 12.0


def outcomes(chk) -> List[Dict[str, Any]]:
    fi = chk.repo.func(DPU, "downsample_and_clean_daily_data")
    out = []
    for c in COVERAGES:
        seen: Dict[str, Any] = {}

        def as_freq(data, freq, *a, **k):
            seen["as_freq"] = (freq, tuple(a), tuple(sorted(k.items())))
            return RowFrame({"value": VALUE, "coverage": c})
        warned: List[Any] = []
        it = Interp(step_limit=20_000)
        env = ModuleEnv(chk.repo, fi.module, it, {"as_freq": StubCall(as_freq), "np": NPRow(), "numpy": NPRow(), "pd": PDRow(), "pandas": PDRow(),
                                                  "EEMeterWarning": StubCall(lambda **k: k.get("qualified_name"))})
        try:
            res = Function(fi.node, env, it)(Ser(1.0), warned)
        except InterpRaised as e:
            out.append({"coverage": c, "raises": e.exc_name})
            continue
        except Unsupported as e:
            raise AnalysisError(f"{fi.key}: uses an operation outside the one-row abstraction: {e}")
        if isinstance(res, Ser):
            res = RowFrame({"value": res.v if res.v is not ABSENT else float("nan")}, res.v is not ABSENT)
        if not isinstance(res, RowFrame):
            out.append({"coverage": c, "returns": repr(res)[:60]})
            continue
        d = res.describe()
        out.append({"coverage": c, "present": d["present"], "columns": sorted(d["values"]), "value": d["values"].get("value"), "warned": list(warned), "as_freq": seen.get("as_freq")})
    return out
