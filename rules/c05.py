"""C05 — the counterfactual never depends on reporting-period consumption."""
from __future__ import annotations

import ast
from typing import Dict, List, Optional, Set, Tuple

from engine.cfg import CFG
from engine.dataflow import ReachingDefs, backward_slice_exprs
from engine.index import AnalysisError, ClassInfo, FuncInfo, calls_in, const_str, is_self_attr, kwarg, unparse, walk_no_nested
from rules.c02 import _fit_only, _fitted_reach
from rules.common import BILLING_MODEL, CALTRACK_WRAPPER, DAILY_MODEL, HOURLY_MODEL, WEIGHTED_MODEL, method

USAGE = "observed"
KERNEL_LISTS = ("_ts_features", "_ts_feature_norm", "_categorical_features")
WHOLE_FRAME_REDUCTIONS = ("isnull", "isna", "notna", "notnull", "count", "any", "all", "sum", "mean", "nunique")


def _reads_usage(e: ast.AST) -> List[ast.AST]:
    """Nodes inside e that read *values* of the usage column (not mere presence tests / stores)."""
    out = []
    for n in ast.walk(e):
        if isinstance(n, ast.Subscript) and isinstance(n.ctx, ast.Load):
            s = n.slice
            if const_str(s) is not None and const_str(s).startswith(USAGE):
                out.append(n)
            elif isinstance(s, (ast.List, ast.Tuple)) and any((const_str(x) or "").startswith(USAGE) for x in s.elts):
                out.append(n)
        elif isinstance(n, ast.Attribute) and isinstance(n.ctx, ast.Load) and n.attr.startswith(USAGE):
            out.append(n)
        elif isinstance(n, ast.Dict) and any((const_str(k) or "").startswith(USAGE) for k in n.keys if k is not None):
            out.append(n)
        elif isinstance(n, ast.keyword) and n.arg == "values" and (const_str(n.value) or "").startswith(USAGE):
            out.append(n.value)
    return out


def _presence_test_only(f: FuncInfo, n: ast.AST) -> bool:
    par = f.module.parent(n)
    return isinstance(par, ast.Compare) and isinstance(par.ops[0], (ast.In, ast.NotIn))


def run(chk):
    chk.explanation = (
        "Every read of the usage column (explicit `[...]['observed*']`, `.observed`, and whole-frame reductions of frames that carry it) in "
        "the functions reachable from predict() once fitted is enumerated and classified structurally: fit-only (under `not self.is_fitted`), "
        "row filter (mask / dropna that only selects rows), pass-through (stored back under an observed* name or projected into the output), "
        "uncertainty-only, cache-only, or excluded by the property's premise (unseen month/weekday cells).  Anything else flows onward and "
        "is a violation.  The arguments of every numeric kernel call are sliced backwards and must contain no usage read; the feature-name "
        "lists that select kernel input columns must never receive a usage-derived name.")
    chk.not_decided += ["dependence introduced through positional access (iloc[:, k]) is reported as UNKNOWN rather than tracked",
                        "row filtering on usage is allowed by the property ('every produced prediction'); which rows are produced is C06/C07"]
    r1 = chk.rule("R05.1", "every read of the usage column on the fitted predict path is fit-only / a row filter / pass-through / uncertainty-only / premise-excluded", 12)
    r2 = chk.rule("R05.2", "feature-list provenance: names stored in _ts_features/_ts_feature_norm/_categorical_features never derive from the usage column", 6)
    r3 = chk.rule("R05.3", "kernel inputs: no usage read in the backward slice of any numeric-kernel argument", 6)

    fams = [("daily", chk.repo.cls(*DAILY_MODEL)), ("billing", chk.repo.cls(*BILLING_MODEL)), ("billing_weighted", chk.repo.cls(*WEIGHTED_MODEL)),
            ("hourly", chk.repo.cls(*HOURLY_MODEL)), ("caltrack_hourly", chk.repo.cls(*CALTRACK_WRAPPER))]
    seen_sites: Set[str] = set()
    derived_cols: Set[str] = set()
    for _round in range(3):
        before = set(derived_cols)
        for name, cls in fams:
            pred = method(chk, cls, "predict")
            P = _fitted_reach(chk, pred, cls)
            for f in P.values():
                _taint_function(chk, r1, name, f, derived_cols, seen_sites, final=(_round == 2))
        if derived_cols == before and _round > 0:
            # one more pass with final=True to report
            for name, cls in fams:
                P = _fitted_reach(chk, method(chk, cls, "predict"), cls)
                for f in P.values():
                    _taint_function(chk, r1, name, f, derived_cols, seen_sites, final=True)
            break
    # ------------------------------------------------------------------ R05.4 data classes: usage never decides weather cells
    r4 = chk.rule("R05.4", "data preparation: no flow from the usage column into the weather columns (no whole-row blanking / row filtering / temperature store conditioned on usage)", 8)
    from rules.common import BILLING_DATA, DAILY_DATA, HOURLY_DATA
    prep = [(HOURLY_DATA, "_HourlyData._set_data"), (HOURLY_DATA, "_HourlyData._get_contiguous_datetime"), (HOURLY_DATA, "_HourlyData._interpolate"),
            (HOURLY_DATA, "HourlyReportingData.__init__"), (DAILY_DATA, "_DailyData._set_data"), (DAILY_DATA, "_DailyData._merge_meter_temp"),
            (DAILY_DATA, "DailyReportingData.__init__"), (BILLING_DATA, "BillingReportingData.__init__"),
            ("opendsm.common.hourly_interpolation", "interpolate"), ("opendsm.eemeter.common.data_processor_utilities", "remove_duplicates")]
    weather_only = [(DAILY_DATA, "_DailyData._compute_temperature_features"), (BILLING_DATA, "_BillingData._compute_temperature_features")]
    WEATHER = ("temperature", "ghi")
    for mod, q in prep:
        f = chk.repo.func(mod, q)
        n_chk = 0
        for st in [x for x in walk_no_nested(f.node) if isinstance(x, (ast.Assign, ast.AugAssign))]:
            tgt = st.targets[0] if isinstance(st, ast.Assign) else st.target
            val = st.value
            reads = [r for r in _reads_usage(val) if not _presence_test_only(f, r)]
            # (1) store into a weather column
            if isinstance(tgt, ast.Subscript):
                sl = tgt.slice
                col = const_str(sl) if not isinstance(sl, ast.Tuple) else const_str(sl.elts[-1])
                mask_reads = _reads_usage(sl.elts[0]) if isinstance(sl, ast.Tuple) else []
                if col in WEATHER:
                    n_chk += 1
                    r4.require(not reads and not mask_reads, f"{f.key}|weather-store:{col}", f.where(st),
                               f"{f.qualname}: `{unparse(st)[:80]}` writes the `{col}` column using the usage column: the weather a prediction is based on would depend on observed consumption")
                elif col is None and isinstance(sl, ast.Tuple) is False and (mask_reads or _reads_usage(sl)) and not (isinstance(tgt.value, ast.Attribute) and tgt.value.attr == "loc"):
                    # df[mask(usage)] = value : whole rows
                    n_chk += 1
                    r4.require(False, f"{f.key}|row-store-by-usage", f.where(st), f"{f.qualname}: `{unparse(st)[:80]}` overwrites whole rows selected by the usage column (weather cells included)")
                elif isinstance(sl, ast.Tuple) and mask_reads and col is None:
                    n_chk += 1
                    r4.require(False, f"{f.key}|loc-store-all-columns-by-usage", f.where(st), f"{f.qualname}: `{unparse(st)[:80]}` stores into columns other than the usage column on rows selected by usage")
            # (2) whole-frame rebinding conditioned on usage
            if isinstance(tgt, ast.Name) and reads:
                whole = False
                v = val
                if isinstance(v, ast.Call) and isinstance(v.func, ast.Attribute) and v.func.attr in ("mask", "where", "query", "drop", "dropna") and isinstance(v.func.value, ast.Name) and v.func.value.id == tgt.id:
                    whole = True
                if isinstance(v, ast.Subscript) and unparse(v.value) in (tgt.id, tgt.id + ".loc") and not isinstance(v.slice, (ast.Constant, ast.List)):
                    whole = True
                if whole:
                    n_chk += 1
                    r4.require(False, f"{f.key}|frame-filtered-by-usage", f.where(st),
                               f"{f.qualname}: `{unparse(st)[:80]}` blanks or drops whole rows depending on the usage column; the weather cells of those rows are lost and re-filled by interpolation, "
                               f"so the temperature a prediction is based on depends on observed consumption (only the usage column itself may be edited: df.loc[cond, 'observed'] = ...)",
                               sample={"function": f.qualname, "statement": unparse(st)[:80]})
        r4.inst(f"{f.key}|scanned[{n_chk}]")
    for mod, q in weather_only:
        f = chk.repo.func(mod, q)
        reads = [unparse(r)[:40] for r in _reads_usage(f.node) if not _presence_test_only(f, r)]
        r4.require(not reads, f"{f.key}|weather-only", f.where(), f"{f.qualname} computes the temperature features and must not read the usage column; found {reads[:3]}")

    # the meter days of the *daily* data class must be all calendar days of the span, whatever the usage pattern (rules/daycompletion.py,
    # shared with C09): a day without usage that is not put back as a row has its weather pooled into the previous day's prediction
    from rules import daycompletion
    mvf = chk.repo.func(DAILY_DATA, "_DailyData._compute_meter_value_df")
    bad_dc, n_dc = daycompletion.judge(chk)
    for k_, msg in bad_dc:
        r4.require(False, f"{mvf.key}|{k_}", mvf.where(), "_compute_meter_value_df: " + msg)
    if n_dc < 1:
        raise AnalysisError(f"{mvf.key}: no interpreted path completes the calendar (anchor changed)")
    r4.inst(f"{mvf.key}|calendar-completion[{n_dc}]", {"paths_completing_the_calendar": n_dc})

    # gap filling of the weather columns must not look at the usage column: interpolate() is interpreted on recording values for every
    # order in which the three columns can be handed in (rules/interp_absint.py); the term finally stored in temperature / ghi and in
    # their flags must not mention df['observed'] (a scalar computed from the usage column keeps the column in its term)
    from rules.interp_absint import cross_column_outcomes, usage_into_weather
    ipf = chk.repo.func("opendsm.common.hourly_interpolation", "interpolate")
    n_io, bad_io = 0, {}
    _cco = cross_column_outcomes(chk)
    from rules.interp_absint import usage_controls_weather
    for msg in usage_controls_weather(_cco):
        r4.require(False, f"{ipf.key}|usage-steers-weather-fill", ipf.where(), "interpolate(): " + msg + " — how a weather column is filled depends on the reporting period's consumption")
    for o in _cco:
        n_io += 1
        if "raises" in o:
            continue   # C17 judges raising paths
        for b in usage_into_weather(o):
            bad_io.setdefault(b.split(" = ")[0].split(",")[0][:60], (b, o["order"], o["n_rows"]))
    for k_, (b, order, n_rows) in sorted(bad_io.items()):
        r4.require(False, f"{ipf.key}|usage-into-weather-fill|{k_}", ipf.where(),
                   f"interpolate(): with columns handed in as {order} on a frame of {n_rows} rows, what is stored for a weather column depends on the usage column: {b} — "
                   "the filled-in weather, and with it the prediction, changes when the reporting period's consumption is altered or blanked")
    r4.inst(f"{ipf.key}|cross-column-flow[{n_io}]", {"interpretations": n_io, "weather_columns_depending_on_usage": len(bad_io)})

    # the meter days the temperatures are grouped onto must not depend on the usage values: a thinly covered day stays a (NaN) row of
    # the daily roll-up (one-row interpretation shared with C08, rules/downsample_absint.py) - otherwise its weather is pooled into the
    # day before, which does get a prediction
    from rules.downsample_absint import outcomes as downsample_outcomes
    dsf = chk.repo.func("opendsm.eemeter.common.data_processor_utilities", "downsample_and_clean_daily_data")
    for o in downsample_outcomes(chk):
        r4.require(o.get("present") is True, f"{dsf.key}|meter-day-kept|coverage:{o['coverage']:g}", dsf.where(),
                   f"downsample_and_clean_daily_data drops the day when {o['coverage']:.0%} of its usage readings are present ({ {k_: v_ for k_, v_ in o.items() if k_ in ('present', 'raises', 'returns')} }): "
                   "the meter index the temperatures are grouped onto then depends on the usage values, and that day's weather is pooled into the previous day's prediction",
                   sample={"coverage": o["coverage"], "present": o.get("present")})

    # the fitted cluster table must cover every (month, weekday) cell the baseline *calendar* has: the load shapes are grouped over all
    # baseline rows (filled-in usage included).  A cell dropped here is "unseen" at prediction time and is then labelled from the
    # reporting period's usage (the fallback the property's premise excludes only for cells the baseline really lacks).
    _cluster_table_covers_calendar(chk, r4)

    # ------------------------------------------------------------------ R05.2
    hm = chk.repo.cls(*HOURLY_MODEL)
    n_writes = 0
    for m in hm.methods.values():
        for sub in [m] + [g for g in m.module.all_funcs if g.parent_func is m]:
            for st in walk_no_nested(sub.node):
                val = None
                lst = None
                if isinstance(st, ast.Assign):
                    for t in st.targets:
                        for x in (t.elts if isinstance(t, ast.Tuple) else [t]):
                            if is_self_attr(x) and x.attr in KERNEL_LISTS:
                                lst, val = x.attr, st.value
                if isinstance(st, ast.Expr) and isinstance(st.value, ast.Call) and isinstance(st.value.func, ast.Attribute) and st.value.func.attr in ("append", "extend", "insert") \
                        and is_self_attr(st.value.func.value) and st.value.func.value.attr in KERNEL_LISTS:
                    lst, val = st.value.func.value.attr, st.value.args[-1] if st.value.args else None
                if isinstance(st, ast.AugAssign) and is_self_attr(st.target) and st.target.attr in KERNEL_LISTS:
                    lst, val = st.target.attr, st.value
                if lst is None or val is None:
                    continue
                n_writes += 1
                rd = ReachingDefs(sub.node)
                sl = backward_slice_exprs(rd, st, val, 4)
                lits = [c.value for e in sl for c in ast.walk(e) if isinstance(c, ast.Constant) and isinstance(c.value, str)]
                bad = [l for l in lits if USAGE in l]
                # names taken from df.columns must be filtered by startswith(<literal without usage>)
                unfiltered = False
                for e in sl:
                    for c in ast.walk(e):
                        if isinstance(c, ast.comprehension) and "columns" in unparse(c.iter):
                            conds = " ".join(unparse(i) for i in c.ifs)
                            if "startswith" not in conds and " in " not in conds:
                                unfiltered = True
                r2.require(not bad and not unfiltered, f"{sub.key}|{lst}|{unparse(st)[:60]}", sub.where(st),
                           f"{sub.qualname}: `{unparse(st)[:90]}` puts a usage-derived / unfiltered column name into {lst}, which selects kernel input columns ({bad or 'unfiltered df.columns'})",
                           sample={"list": lst, "site": f"{sub.qualname}: {unparse(st)[:60]}"})
    if n_writes < 6:
        raise AnalysisError(f"R05.2: only {n_writes} writes to the kernel feature lists found")
    # ------------------------------------------------------------------ R05.3
    kernels = [
        (chk.repo.cls(*DAILY_MODEL), "_predict", ("self._predict_submodel",)),
        (chk.repo.cls(*DAILY_MODEL), "_predict_submodel", ("full_model", "get_full_model_x")),
        (hm, "_predict", ("self._model.predict", "self._y_scaler.inverse_transform", "_transform_dst")),
        (hm, "_normalize_features", ("self._feature_scaler.transform",)),
        (chk.repo.cls(*CALTRACK_WRAPPER), "predict", ("self.model.predict",)),
        (chk.repo.cls("opendsm.eemeter.models.hourly_caltrack.segmentation", "SegmentedModel"), "predict", ("segment_model.predict", "segment_time_series", "iterate_segmented_dataset")),
        (chk.repo.cls("opendsm.eemeter.models.hourly_caltrack.segmentation", "CalTRACKSegmentModel"), "predict", ("design_matrix_granular.dot", "dmatrix")),
    ]
    for cls, mname, names in kernels:
        f = method(chk, cls, mname)
        rd = ReachingDefs(f.node)
        for c in [n for n in ast.walk(f.node) if isinstance(n, ast.Call)]:
            if unparse(c.func) in names:
                st = f.module.enclosing_stmt(c)
                bad = []
                for a in list(c.args) + [k.value for k in c.keywords]:
                    for e in backward_slice_exprs(rd, st, a, 5):
                        for r in _reads_usage(e):
                            if not _presence_test_only(f, r):
                                bad.append(unparse(r)[:50])
                        for x in ast.walk(e):
                            if isinstance(x, ast.Subscript) and isinstance(x.value, ast.Attribute) and x.value.attr == "iloc" and isinstance(x.slice, ast.Tuple):
                                bad.append("UNKNOWN positional column access " + unparse(x)[:40])
                # hourly X: comes from _prepare_features -> feature lists (R05.2) ; the slice stops at the call, which is fine
                r3.require(not bad, f"{f.key}|kernel:{unparse(c.func)}", f.where(c),
                           f"{f.qualname}: an argument of `{unparse(c.func)}` is computed from the usage column ({sorted(set(bad))[:3]})",
                           sample={"function": f.qualname, "kernel": unparse(c.func)})
        # the hourly feature matrix selects its columns through the kernel feature lists only
    gfm = method(chk, hm, "_get_feature_matrices")
    out = _feature_matrix_columns(chk, hm, gfm)
    allowed = {"temperature_norm", "ghi_norm", "temporal_cluster_0", "temporal_cluster_1", "daily_temp_2"}
    ok = out.get("X") == sorted(allowed) and out.get("y") is None
    r3.require(ok, f"{gfm.key}|columns-via-feature-lists", gfm.where(),
               f"_get_feature_matrices (fitted model) must build X from exactly the columns named by _ts_feature_norm and _categorical_features, and no target; interpreted: {out}",
               sample=out)


def _feature_matrix_columns(chk, hm, gfm):
    """Interpret HourlyModel._get_feature_matrices on a frame that only records which columns are selected."""
    from engine.absint import AbsObj, BoundRepoMethods, ModuleEnv, Opaque
    from engine.pyinterp import Function, Interp, InterpRaised, Stub, Unsupported
    ALL = ["date", "hour_of_day", "observed", "observed_norm", "temperature", "temperature_norm", "ghi", "ghi_norm", "temporal_cluster_0", "temporal_cluster_1", "daily_temp_2",
           "interpolated_observed", "interpolated_temperature"]

    class GArr(Stub):
        def __init__(self, cols):
            self.cols = set(cols)

        @property
        def shape(self): return (Opaque("n0"), Opaque("n1"), Opaque("n2"))
        def reshape(self, *a, **k): return GArr(self.cols)
        @property
        def values(self): return self
        def tolist(self): return GList(self.cols)
        def to_numpy(self, *a, **k): return self
        def astype(self, *a, **k): return self

    class GList(Stub):
        def __init__(self, cols):
            self.cols = set(cols)

        def _abs_len(self): return 0
        def __iter__(self): return iter(())

    class GGroups(Stub):
        def __init__(self, fr, key):
            self.fr, self.key = fr, key

        def agg(self, spec=None, **k):
            if not isinstance(spec, dict):
                raise Unsupported("groupby().agg() with something other than {column: function}")
            miss = [c for c in spec if c not in self.fr.cols]
            if miss:
                raise InterpRaised("KeyError", str(miss))
            return GArr(spec.keys())

        def _all(self, *a, **k):
            return GArr(c for c in self.fr.cols if c != self.key)

        first = last = mean = sum = max = min = median = _all

        def __getitem__(self, k):
            return GGroups(GFrame([k] if isinstance(k, str) else list(k)) if True else None, self.key)

    class GFrame(Stub):
        def __init__(self, cols):
            self.cols = list(cols)

        def groupby(self, key, **k):
            if not isinstance(key, str):
                raise Unsupported("groupby on something other than a column name")
            return GGroups(self, key)

        def __getitem__(self, k):
            if isinstance(k, list) and all(isinstance(x, str) for x in k):
                miss = [x for x in k if x not in self.cols]
                if miss:
                    raise InterpRaised("KeyError", str(miss))
                return GFrame(k)
            raise Unsupported("frame[...] other than a list of column names")

        @property
        def columns(self): return list(self.cols)

        def copy(self, *a, **k): return GFrame(self.cols)

    class NPg(Stub):
        @staticmethod
        def array(x, **k):
            if isinstance(x, (GList, GArr)):
                return GArr(x.cols)
            raise Unsupported("np.array of something other than the aggregated lists")

        @staticmethod
        def concatenate(parts, axis=0, **k):
            parts = list(parts)
            if axis != 1 or not all(isinstance(p, GArr) for p in parts):
                raise Unsupported("np.concatenate other than column-wise on the day matrices")
            return GArr(set().union(*[p.cols for p in parts]))

        hstack = staticmethod(lambda parts: NPg.concatenate(parts, axis=1))

    class _Me(AbsObj, BoundRepoMethods):
        pass
    it = Interp(step_limit=50_000)
    stand = {"np": NPg(), "numpy": NPg()}
    me = _Me({"HourlyModel"}, is_fitted=True, _ts_feature_norm=["temperature_norm", "ghi_norm"], _categorical_features=["temporal_cluster_0", "temporal_cluster_1", "daily_temp_2"],
             _ts_features=["temperature", "ghi"], settings=Opaque("settings"))
    me._bind_repo(chk, hm, it, stand)
    try:
        res = Function(gfm.node, ModuleEnv(chk.repo, gfm.module, it, stand), it)(me, GFrame(ALL), ([], []))
    except InterpRaised as e:
        return {"raises": e.exc_name}
    except Unsupported as e:
        raise AnalysisError(f"{gfm.key}: uses an operation outside the modelled subset: {e}")
    if not (isinstance(res, tuple) and len(res) == 2 and isinstance(res[0], GArr)):
        return {"returns": repr(res)[:60]}
    return {"X": sorted(res[0].cols), "y": None if res[1] is None else (sorted(res[1].cols) if isinstance(res[1], GArr) else repr(res[1])[:40])}


_CFG_CACHE: Dict[int, CFG] = {}


def _premise_excluded(f: FuncInfo, st: ast.AST) -> bool:
    """Inside correct_missing_temporal_clusters: does `st` run only when the set of (month, weekday) cells the baseline never saw is
    non-empty?  Decided from the must-hold guard facts of the CFG (a positive `if not M.empty:` block and the code after an early
    `if M.empty: return ...` are the same thing), M being any name bound to the index of the cells whose cluster is NaN."""
    if f.name != "correct_missing_temporal_clusters":
        return False
    unseen = set()
    for n in ast.walk(f.node):
        if isinstance(n, ast.Assign) and len(n.targets) == 1 and isinstance(n.targets[0], ast.Name):
            t = unparse(n.value)
            if ".isna()" in t and t.rstrip().endswith(".index") and "temporal_cluster" in t:
                unseen.add(n.targets[0].id)
    if not unseen:
        return False
    cfg = _CFG_CACHE.get(id(f.node))
    if cfg is None:
        cfg = _CFG_CACHE[id(f.node)] = CFG(f.node)
    if id(st) not in cfg.g:
        return False
    for t, pol in cfg.guards(st):
        while isinstance(t, ast.UnaryOp) and isinstance(t.op, ast.Not):
            t, pol = t.operand, not pol
        tt = unparse(t)
        if any(tt == f"{m}.empty" for m in unseen) and pol is False:
            return True
        if any(tt in (f"len({m}) == 0", f"len({m}) < 1") for m in unseen) and pol is False:
            return True
        if any(tt in (f"len({m}) > 0", f"len({m}) != 0", f"len({m})") for m in unseen) and pol is True:
            return True
    return False


def _ancestor_ifs(f: FuncInfo, st: ast.AST):
    """(If node, branch taken) for every enclosing If of st inside f."""
    out = []
    child = st
    for a in f.module.ancestors(st):
        if a is f.node:
            break
        if isinstance(a, ast.If):
            out.append((a, any(child is x for x in a.body)))
        child = a
    return out


PREDICTION_OUTPUTS = ("predicted", "predicted_unc", "heating_load", "cooling_load", "predicted_usage", "model_split", "model_type")


def _billing_predict_by_interpretation(chk, r1, f: FuncInfo, seen: Set[str]) -> None:
    """BillingModel.predict / BillingWeightedModel.predict are judged from their abstract interpretation (rules/billing_agg.py): in every
    scenario the only returned item computed from the usage column is the `observed` column itself (a pass-through)."""
    from rules.billing_agg import billing_outcomes
    key = f"{f.key}|usage-only-in-observed"
    if key in seen:
        return
    seen.add(key)
    out = billing_outcomes(chk, f, {"BillingModel", "DailyModel", f.cls.name if f.cls else "BillingModel"})
    bad = []
    for (agg, wo), o in out.items():
        for i in o.get("items", []):
            if i.get("source_column", "").startswith(USAGE) and not str(i.get("column", "")).startswith(USAGE):
                bad.append((agg, i))
    r1.require(not bad, key, f.where(), f"{f.qualname}: a returned column other than `observed` is computed from the reporting period's usage: {bad[:2]}",
               sample={"function": f.qualname, "scenarios": len(out)})


def _taint_function(chk, r1, fam: str, f: FuncInfo, derived_cols: Set[str], seen: Set[str], final: bool):
    """Intraprocedural taint from usage reads (explicit column reads, whole-frame reductions, derived columns, tainted locals)
    to escapes: return, self-attribute store, non-observed column store (-> derived column), call argument."""
    if f.name == "predict" and f.cls is not None and f.cls.name in ("BillingModel", "BillingWeightedModel") and "aggregation" in f.params:
        if final:
            _billing_predict_by_interpretation(chk, r1, f, seen)
        return
    from engine.dataflow import own_exprs
    tainted: Set[str] = set()
    stmts = [s for s in walk_no_nested(f.node) if isinstance(s, ast.stmt)]
    stmts.sort(key=lambda s: (s.lineno, s.col_offset))

    def reads_of(e: ast.AST) -> List[str]:
        out = []
        for r in _reads_usage(e):
            if not _presence_test_only(f, r):
                out.append(unparse(r)[:40])
        for n in ast.walk(e):
            if isinstance(n, ast.Subscript) and isinstance(n.ctx, ast.Load) and const_str(n.slice) in derived_cols:
                out.append(unparse(n)[:40])
            if isinstance(n, ast.Name) and isinstance(n.ctx, ast.Load) and n.id in tainted:
                out.append(n.id)
            if isinstance(n, ast.Call) and isinstance(n.func, ast.Attribute) and n.func.attr in WHOLE_FRAME_REDUCTIONS and isinstance(n.func.value, ast.Name) \
                    and n.func.value.id in ("df", "meter_data", "df_eval", "df_meter") and not n.args:
                out.append(unparse(n)[:40])
            if isinstance(n, ast.Call) and isinstance(n.func, ast.Attribute) and n.func.attr in ("count",) and isinstance(n.func.value, ast.Call) and "groupby" in unparse(n.func.value.func):
                out.append(unparse(n)[:40])
        return out

    def excluded(st) -> Optional[str]:
        for a, taken in _ancestor_ifs(f, st):
            t = unparse(a.test)
            if (t == "not self.is_fitted" and taken) or (t == "self.is_fitted" and not taken):
                return "fit-only"
        if _premise_excluded(f, st):
            return "premise-excluded (month/weekday cell unseen at fit)"
        return None

    for _pass in range(2):  # two passes: loops may carry taint backwards
        for st in stmts:
            if isinstance(st, ast.Expr) and isinstance(st.value, ast.Constant):
                continue
            ex = excluded(st)
            exprs = own_exprs(st)
            tgts = st.targets if isinstance(st, ast.Assign) else ([st.target] if isinstance(st, (ast.AugAssign, ast.AnnAssign, ast.For)) else [])
            rs: List[str] = []
            for e in exprs:
                if any(e is t for t in tgts):
                    if isinstance(e, ast.Subscript):
                        rs += reads_of(e.slice)
                    continue
                rs += reads_of(e)
            if not rs:
                continue
            key = f"{f.key}|{unparse(st)[:80]}"
            cls_ = ex
            escape = None
            if cls_ is None:
                if isinstance(st, (ast.Assign, ast.AugAssign)):
                    t = tgts[0]
                    v = st.value
                    if isinstance(t, ast.Subscript):
                        sl = t.slice
                        col = const_str(sl) if not isinstance(sl, ast.Tuple) else const_str(sl.elts[-1])
                        if col is not None and col.startswith(USAGE):
                            cls_ = "pass-through (stored under an observed* column)"
                        elif col == "predicted_uncertainty":
                            cls_ = "uncertainty-only"
                        elif col in PREDICTION_OUTPUTS:
                            escape = f"stored into the prediction output `{col}`"
                        elif col is not None:
                            derived_cols.add(col)
                            cls_ = f"derived column `{col}` (judged at its reads)"
                        else:
                            escape = "store into a computed column / element"
                    elif isinstance(t, ast.Name):
                        # row filter / projection / dropna do not carry the values onward
                        if isinstance(v, ast.Subscript) and unparse(v.value) == t.id and not isinstance(v.slice, (ast.Constant,)) and all(x in unparse(v.slice) for x in rs if x not in tainted or True) and not isinstance(v.slice, (ast.List, ast.Tuple)):
                            cls_ = "row filter"
                        elif isinstance(v, ast.Subscript) and isinstance(v.slice, (ast.List, ast.Tuple)):
                            cls_ = "pass-through (column projection)"
                        elif isinstance(v, ast.Call) and isinstance(v.func, ast.Attribute) and v.func.attr == "dropna":
                            cls_ = "row filter"
                        elif isinstance(v, ast.Call) and unparse(v.func) == "pd.concat" and v.args and isinstance(v.args[0], (ast.List, ast.Tuple)) \
                                and kwarg(v, "axis") is not None and unparse(kwarg(v, "axis")) == "1" \
                                and all(isinstance(x, ast.Name) and (x.id not in tainted or x.id.startswith(USAGE)) for x in v.args[0].elts):
                            cls_ = "pass-through (usage series becomes the output's observed column)"
                        else:
                            tainted.add(t.id)
                            cls_ = f"local `{t.id}` (judged at its uses)"
                    elif isinstance(t, (ast.Tuple, ast.List)):
                        for x in t.elts:
                            if isinstance(x, ast.Name):
                                tainted.add(x.id)
                        cls_ = "locals (judged at their uses)"
                    elif is_self_attr(t) or isinstance(t, ast.Attribute):
                        if is_self_attr(t) and t.attr.startswith("_processed"):
                            cls_ = "cache-only (inspection copy)"
                        else:
                            escape = f"stored on `{unparse(t)}`"
                elif isinstance(st, ast.For):
                    for x in ast.walk(st.target):
                        if isinstance(x, ast.Name):
                            tainted.add(x.id)
                    cls_ = "loop variable (judged at its uses)"
                elif isinstance(st, ast.Return):
                    v = st.value
                    if isinstance(v, ast.Call) and unparse(v.func) == "pd.concat" and v.args and isinstance(v.args[0], (ast.List, ast.Tuple)) \
                            and kwarg(v, "axis") is not None and unparse(kwarg(v, "axis")) == "1" \
                            and all(isinstance(x, ast.Name) and (x.id not in tainted or x.id.startswith(USAGE)) for x in v.args[0].elts):
                        cls_ = "pass-through (usage series becomes the output's observed column)"
                    else:
                        escape = "returned"
                elif isinstance(st, ast.If):
                    region = list(st.body) + list(st.orelse)
                    # an early exit (`if <test>: return r`) makes the rest of the enclosing block the other branch
                    if not st.orelse and st.body and isinstance(st.body[-1], (ast.Return, ast.Raise)):
                        for parent in ast.walk(f.node):
                            for fld in ("body", "orelse", "finalbody"):
                                blk = getattr(parent, fld, None)
                                if isinstance(blk, list) and st in blk:
                                    region += blk[blk.index(st) + 1:]
                    ret_names = {unparse(x.value) for x in walk_no_nested(f.node) if isinstance(x, ast.Return) and x.value is not None}
                    same_result = len(ret_names) == 1 and all(isinstance(x.value, ast.Name) for x in walk_no_nested(f.node) if isinstance(x, ast.Return) and x.value is not None)
                    body_stmts = [x for b in region for x in ast.walk(b) if isinstance(x, ast.stmt)]
                    cols = set()
                    other = False
                    for x in body_stmts:
                        if isinstance(x, ast.Return) and same_result:
                            continue  # every exit hands out the same frame: which exit is taken does not select a result
                        if isinstance(x, ast.Assign) and isinstance(x.targets[0], ast.Subscript):
                            sl = x.targets[0].slice
                            cols.add(const_str(sl) if not isinstance(sl, ast.Tuple) else const_str(sl.elts[-1]))
                        elif isinstance(x, ast.Assign) and isinstance(x.targets[0], ast.Name) and isinstance(x.value, ast.Subscript) and unparse(x.value.value) == x.targets[0].id:
                            pass  # row filter
                        elif isinstance(x, (ast.Raise, ast.Pass, ast.Break, ast.Continue)):
                            pass
                        elif isinstance(x, (ast.Assign, ast.AugAssign, ast.Expr, ast.For, ast.If)):
                            if isinstance(x, (ast.For, ast.If)):
                                continue
                            if isinstance(x, ast.Assign) and isinstance(x.targets[0], ast.Name):
                                continue  # locals: judged where they escape
                            other = True
                        elif isinstance(x, ast.Return):
                            other = True
                    if not other and cols <= {"predicted_uncertainty", None} - {None} | ({c for c in cols if c and c.startswith(USAGE)}):
                        cls_ = "branch guarding row filters / uncertainty only"
                    elif excluded(st.body[0]) is not None:
                        cls_ = excluded(st.body[0])
                    else:
                        escape = "branch condition selects among computations"
                elif isinstance(st, ast.Expr) and isinstance(st.value, ast.Call):
                    c = st.value
                    if isinstance(c.func, ast.Attribute) and c.func.attr in ("append", "extend", "add", "insert") and isinstance(c.func.value, ast.Name):
                        tainted.add(c.func.value.id)
                        cls_ = f"collected in `{c.func.value.id}` (judged at its uses)"
                    elif isinstance(c.func, ast.Attribute) and c.func.attr in ("warn", "info", "debug", "warning"):
                        cls_ = "message only"
                    else:
                        escape = f"argument of {unparse(c.func)}"
                elif isinstance(st, ast.Raise):
                    cls_ = "message only"
                else:
                    escape = type(st).__name__
            if not final:
                continue
            if key in seen:
                continue
            if _pass == 0 and escape is None and cls_ is not None and "judged" in cls_:
                pass
            seen.add(key)
            r1.require(escape is None, key if escape is None else f"{f.key}|usage-escapes:{escape}", f.where(st),
                       f"{f.qualname}: `{unparse(st)[:90]}` — a value derived from the reporting period's usage ({rs[:2]}) is {escape}: predictions can depend on observed consumption",
                       sample={"family": fam, "site": f"{f.qualname}: {unparse(st)[:70]}", "class": cls_ or escape})


def _classify(chk, f: FuncInfo, cfg: CFG, rd: ReachingDefs, st: ast.stmt, reads: List[ast.AST]) -> Optional[str]:
    # A fit-only
    if id(st) in cfg.g and _fit_only(cfg, st):
        return "fit-only"
    # enclosing nested function only reachable when not fitted is already excluded by _fitted_reach
    # I premise-excluded: inside correct_missing_temporal_clusters under `not missing_combinations.empty`
    if _premise_excluded(f, st):
        return "premise-excluded (month/weekday cell unseen at fit)"
    # C pass-through: stored under an observed* name / into the usage column itself
    if isinstance(st, ast.Assign) and len(st.targets) == 1:
        t = st.targets[0]
        if isinstance(t, ast.Subscript):
            s = t.slice
            col = const_str(s) if not isinstance(s, ast.Tuple) else const_str(s.elts[-1])
            if col is not None and col.startswith(USAGE):
                return "pass-through (stored under an observed* column)"
            if col == "predicted_uncertainty":
                return "uncertainty-only"
        if isinstance(t, ast.Name) and t.id.startswith(USAGE):
            # the local must only flow to the output frame (concat / return), never into arithmetic with predictions
            uses = []
            for d in rd.gen.get(id(st), []):
                uses += rd.uses(d)
            ok = all(isinstance(u, (ast.Assign, ast.Return)) and (isinstance(getattr(u, "value", None), ast.Call) and unparse(u.value.func) == "pd.concat" or isinstance(u, ast.Return)) for u in uses)
            if ok:
                return "pass-through (aggregated usage handed to the output frame)"
        # F projection into the output frame
        if isinstance(st.value, ast.Subscript) and isinstance(st.value.slice, (ast.List, ast.Tuple)) and isinstance(t, ast.Name):
            return "pass-through (column projection)"
        # B row filter: F = F[mask(usage)] / F = F.dropna()
        if isinstance(t, ast.Name):
            v = st.value
            if isinstance(v, ast.Subscript) and unparse(v.value) == t.id and all(_inside(v.slice, r) for r in reads):
                return "row filter"
            if isinstance(v, ast.Call) and isinstance(v.func, ast.Attribute) and v.func.attr == "dropna" and unparse(v.func.value) == t.id:
                return "row filter"
        # H uncertainty-only locals in the CalTRACK wrapper
        if f.cls is not None and f.cls.name == "HourlyModel" and f.module.name.endswith("hourly_caltrack.wrapper"):
            g = cfg.guards(st) if id(st) in cfg.g else []
            if any(pol and unparse(t2) == "not df_res['observed'].isna().all()" for t2, pol in g):
                return "uncertainty-only"
    if isinstance(st, ast.If):
        # H: condition guarding uncertainty-only body
        body_stores = [s for s in ast.walk(st) if isinstance(s, ast.Assign) and isinstance(s.targets[0], ast.Subscript)]
        cols = set()
        for s in body_stores:
            sl = s.targets[0].slice
            cols.add(const_str(sl) if not isinstance(sl, ast.Tuple) else const_str(sl.elts[-1]))
        if cols and cols <= {"predicted_uncertainty"}:
            return "uncertainty-only (guards the uncertainty computation)"
        # condition guarding a pure row filter
        inner = [s for s in st.body if isinstance(s, ast.stmt)]
        if inner and all(isinstance(s, ast.Assign) and isinstance(s.targets[0], ast.Name) and isinstance(s.value, ast.Subscript) and unparse(s.value.value) == s.targets[0].id for s in inner) and not st.orelse:
            return "row filter (guard)"
    # G cache-only list
    if isinstance(st, ast.AugAssign) and isinstance(st.target, ast.Name):
        nm = st.target.id
        later = [s for s in walk_no_nested(f.node) if isinstance(s, ast.stmt) and s is not st and any(isinstance(x, ast.Name) and x.id == nm and isinstance(x.ctx, ast.Load) for x in ast.walk(s))]
        defs_alias = [s for s in walk_no_nested(f.node) if isinstance(s, ast.Assign) and any(isinstance(t, ast.Name) and t.id == nm for t in s.targets) and isinstance(s.value, ast.Attribute)]
        if not defs_alias and later and all(isinstance(s, ast.Assign) and is_self_attr(s.targets[0]) and s.targets[0].attr.startswith("_processed") or isinstance(s, (ast.If, ast.AugAssign)) for s in later):
            return "cache-only (inspection copy)"
    return None


def _inside(container: ast.AST, node: ast.AST) -> bool:
    return any(n is node for n in ast.walk(container))


def _cluster_table_covers_calendar(chk, r4):
    from engine.absint import AbsObj, ModuleEnv, Opaque
    from engine.pyinterp import Function, Interp, InterpRaised, Stub, StubCall, Unsupported
    hm = chk.repo.cls(*HOURLY_MODEL)
    acf = method(chk, hm, "_add_categorical_features")
    cand = [g for g in acf.module.all_funcs if g.parent_func is acf and g.name == "set_initial_temporal_clusters"]
    if len(cand) != 1:
        cand = [g for g in hm.methods.values() if "initial_temporal_clusters" in g.name]
    if len(cand) != 1:
        raise AnalysisError("HourlyModel: the function that builds the fitted temporal-cluster table (set_initial_temporal_clusters) cannot be identified")
    f = cand[0]
    grouped = []

    class Col(Stub):
        def __getattr__(self, name):
            if name.startswith("_"):
                raise AttributeError(name)
            return StubCall(lambda *a, **k: Col())

        def __invert__(self): return Col()
        def __and__(self, o): return Col()
        def __or__(self, o): return Col()
        def __eq__(self, o): return Col()
        def __ne__(self, o): return Col()
        def __lt__(self, o): return Col()
        def __gt__(self, o): return Col()
        __hash__ = None

    class FTok(Stub):
        def __init__(self, ops=()):
            self.ops = tuple(ops)

        @property
        def columns(self):
            return ["observed", "temperature", "interpolated_observed", "interpolated_temperature", "hour_of_day", "month", "day_of_week", "date"]

        def __getitem__(self, k):
            if isinstance(k, str):
                return Col()
            if isinstance(k, list) and all(isinstance(x, str) for x in k):
                return FTok(self.ops)
            return FTok(self.ops + ("rows selected by a mask",))

        @property
        def loc(self):
            return self

        def groupby(self, *a, **k):
            grouped.append(self.ops)
            return Opaque("groups")

        def pivot_table(self, *a, **k):
            grouped.append(self.ops)
            return Opaque("pivot")

        def __getattr__(self, name):
            if name.startswith("_") or name in ("values", "index", "empty", "shape", "iloc", "T"):
                raise AttributeError(name)

            def op(*a, **k):
                return FTok(self.ops if name in ("copy", "sort_index", "sort_values", "rename", "astype", "assign", "reset_index", "set_index") else self.ops + (name,))
            return op
    it = Interp(step_limit=20_000)
    me = AbsObj({"HourlyModel"}, _temporal_cluster_cols=["month", "day_of_week"], settings=Opaque("settings"))
    env = ModuleEnv(chk.repo, f.module, it, {"pd": Opaque("pd"), "np": Opaque("np"), "_cluster_temporal_features": StubCall(lambda *a, **k: Opaque("labels"))})
    from engine.pyinterp import Env
    local = Env(env)
    local.set("self", me)
    try:
        fn = Function(f.node, local, it)
        if f.node.args.args and f.node.args.args[0].arg == "self":
            fn(me, FTok())
        else:
            fn(FTok())
    except InterpRaised as e:
        r4.require(False, f"{f.key}|cluster-table-over-all-baseline-rows", f.where(), f"{f.name} raises {e.exc_name} on a well-formed baseline frame")
        return
    except Unsupported as e:
        raise AnalysisError(f"{f.key}: uses an operation outside the modelled subset: {e}")
    bad = [ops for ops in grouped if ops]
    r4.require(bool(grouped) and not bad, f"{f.key}|cluster-table-over-all-baseline-rows", f.where(),
               f"{f.name}: the load shapes behind the fitted cluster table must be grouped over every baseline row; here rows are dropped first ({bad[:1] or 'no grouping found'}): a (month, weekday) cell "
               "whose usage was entirely filled in gets no row, is 'unseen' at prediction time and is then labelled from the reporting period's usage", sample={"row_operations_before_grouping": [list(x) for x in grouped]})
