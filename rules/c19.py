"""C19 — billing aggregation of predictions conserves totals."""
from __future__ import annotations

import ast
from typing import Dict, List, Optional, Tuple

from engine.cfg import CFG, EXIT, RAISE
from engine.dataflow import ReachingDefs, backward_slice_exprs
from engine.index import AnalysisError, FuncInfo, calls_in, const_str, kwarg, unparse, walk_no_nested
from engine.peval import partial_eval
from rules.common import BILLING_MODEL, WEIGHTED_MODEL, method, raise_class, self_calls

SPEC = {
    "predicted": "sum", "observed": "sum", "heating_load": "sum", "cooling_load": "sum",
    "temperature": "mean", "predicted_unc": "rss",
    "season": "first", "model_split": "first", "model_type": "first",
}
REQUIRED = ["predicted", "observed", "heating_load", "cooling_load", "temperature", "predicted_unc"]


def _is_square(e: ast.AST, var: str) -> bool:
    if isinstance(e, ast.Call) and unparse(e.func) in ("np.square",) and len(e.args) == 1:
        return unparse(e.args[0]) == var
    if isinstance(e, ast.Call) and unparse(e.func) in ("np.power", "pow") and len(e.args) == 2:
        return unparse(e.args[0]) == var and unparse(e.args[1]) in ("2", "2.0")
    if isinstance(e, ast.BinOp) and isinstance(e.op, ast.Pow):
        return unparse(e.left) == var and unparse(e.right) in ("2", "2.0")
    if isinstance(e, ast.BinOp) and isinstance(e.op, ast.Mult):
        return unparse(e.left) == var and unparse(e.right) == var
    return False


def _is_sum_of(e: ast.AST, inner) -> bool:
    if isinstance(e, ast.Call):
        fn = unparse(e.func)
        if fn in ("np.sum", "sum", "np.nansum") and len(e.args) >= 1 and not (kwarg(e, "axis") is not None and unparse(kwarg(e, "axis")) not in ("0", "None")):
            return inner(e.args[0])
        if isinstance(e.func, ast.Attribute) and e.func.attr == "sum" and not e.args:
            return inner(e.func.value)
    return False


def is_root_sum_square(fn_expr: ast.AST) -> bool:
    """lambda x: sqrt(sum(square(x)))  in any of the equivalent spellings.
    np.linalg.norm is NOT one of them: np.sum / Series.sum skip the NaN rows of a period (days without a prediction),
    the norm propagates them, so a period with one gap day would lose its uncertainty (seeded change C19-norm)."""
    if not isinstance(fn_expr, ast.Lambda) or len(fn_expr.args.args) != 1:
        return False
    var = fn_expr.args.args[0].arg
    b = fn_expr.body
    inner = None
    if isinstance(b, ast.Call) and unparse(b.func) in ("np.sqrt", "math.sqrt", "sqrt") and len(b.args) == 1:
        inner = b.args[0]
    elif isinstance(b, ast.BinOp) and isinstance(b.op, ast.Pow) and unparse(b.right) in ("0.5", "1 / 2", "(1 / 2)"):
        inner = b.left
    if inner is None:
        return False
    return _is_sum_of(inner, lambda z: _is_square(z, var))


def _function_value(fi: FuncInfo, rd: ReachingDefs, st: ast.AST, e: ast.AST) -> Optional[ast.AST]:
    """Resolve a Name used as a function value to the lambda / expression it was bound to (single reaching def)."""
    if isinstance(e, ast.Name):
        ds = rd.reaching(st, e.id)
        vals = [rd.value_of(d) for d in ds]
        if len(vals) == 1 and vals[0] is not None:
            return vals[0]
        return None
    return e


def _agg_kind(fi, rd, st, call: ast.Call) -> str:
    """Classify `<resampler>.<agg>(...)`."""
    a = call.func.attr
    if a in ("sum", "mean", "first", "last", "max", "min", "median", "count", "std"):
        return a
    if a in ("apply", "agg", "aggregate") and call.args:
        f = call.args[0]
        s = const_str(f)
        if s in ("sum", "mean", "first"):
            return s
        if unparse(f) in ("np.sum", "sum"):
            return "sum"
        if unparse(f) in ("np.mean",):
            return "mean"
        fv = _function_value(fi, rd, st, f)
        if fv is not None and is_root_sum_square(fv):
            return "rss"
        return f"custom:{unparse(fv if fv is not None else f)[:60]}"
    return f"other:{a}"


def aggregation_table(chk, fi: FuncInfo):
    """(name bound to the self._predict result, {column: (aggregator kind, frequency expr, frame read, stmt)}) of a billing predict()."""
    cfg = CFG(fi.node)
    rd = ReachingDefs(fi.node, cfg)
    works = [st for st, _c in self_calls(fi, {"_predict"})]
    if not works:
        raise AnalysisError(f"{fi.key}: no self._predict call")
    work = works[0]
    src_name = work.targets[0].id if isinstance(work, ast.Assign) and isinstance(work.targets[0], ast.Name) else None
    table = {}
    for st in cfg.stmts():
        if not isinstance(st, ast.Assign) or not isinstance(st.value, ast.Call) or not isinstance(st.value.func, ast.Attribute):
            continue
        c = st.value
        inner = c.func.value
        if isinstance(inner, ast.Call) and isinstance(inner.func, ast.Attribute) and inner.func.attr == "resample":
            sel = inner.func.value
            if isinstance(sel, ast.Subscript) and const_str(sel.slice) is not None:
                freq = unparse(inner.args[0]) if inner.args else unparse(kwarg(inner, "rule"))
                table[const_str(sel.slice)] = (_agg_kind(fi, rd, st, c), freq, unparse(sel.value), st)
    return src_name, table


def run(chk):
    chk.explanation = (
        "The aggregation block of BillingModel.predict (and its sibling BillingWeightedModel.predict) is read as a table "
        "column -> (aggregator, frequency variable) and compared with the property's table; the root-sum-square lambda is "
        "matched structurally; the dispatch on `aggregation` is partially evaluated over a set of concrete argument values "
        "(literal comparisons only) to show None/'none' -> no aggregation, 'monthly' -> 'MS', 'bimonthly' -> '2MS', anything "
        "else -> ValueError before any aggregation; the aggregated frame is concatenated from exactly the aggregated series.")
    chk.not_decided += ["calendar arithmetic of DataFrame.resample across DST (pandas internals)", "that _predict's daily frame is right (C06/C07/C11)"]
    chk.trusted += ["Resampler.sum/mean/first/apply aggregate exactly the rows of each calendar period (label='left', closed='left' defaults for MS)"]
    r1 = chk.rule("R19.1", "aggregation table: predicted/observed/heating/cooling -> sum, temperature -> mean, predicted_unc -> sqrt(sum(x^2)), labels -> first; one frequency variable; every series concatenated axis=1", 12)
    r2 = chk.rule("R19.2", "dispatch: None/'none' -> no aggregation, 'monthly' -> 'MS', 'bimonthly' -> '2MS', anything else raises ValueError before aggregating", 10)
    r3 = chk.rule("R19.3", "the aggregation consumes the frame returned by self._predict and the aggregated frame is what is returned", 2)

    impls = []
    for modcls in (BILLING_MODEL, WEIGHTED_MODEL):
        c = chk.repo.cls(*modcls)
        p = method(chk, c, "predict")
        if "aggregation" not in p.params:
            raise AnalysisError(f"{p.key} has no `aggregation` parameter")
        if p.key not in [x.key for x in impls]:
            impls.append(p)

    tables: Dict[str, Dict[str, Tuple[str, str]]] = {}
    for fi in impls:
        cfg = CFG(fi.node)
        rd = ReachingDefs(fi.node, cfg)
        works = [st for st, _c in self_calls(fi, {"_predict"})]
        if not works:
            raise AnalysisError(f"{fi.key}: no self._predict call")
        work = works[0]
        src_name = work.targets[0].id if isinstance(work, ast.Assign) and isinstance(work.targets[0], ast.Name) else None
        r3.require(src_name is not None, f"{fi.key}|predict-result-bound", fi.where(work), f"{fi.key}: result of self._predict is not bound to a name")
        # ---- table
        table: Dict[str, Tuple[str, str, str, ast.stmt]] = {}
        series_names: Dict[str, str] = {}
        for st in cfg.stmts():
            if not isinstance(st, ast.Assign) or not isinstance(st.value, ast.Call) or not isinstance(st.value.func, ast.Attribute):
                continue
            c = st.value
            inner = c.func.value
            if isinstance(inner, ast.Call) and isinstance(inner.func, ast.Attribute) and inner.func.attr == "resample":
                sel = inner.func.value
                if isinstance(sel, ast.Subscript) and const_str(sel.slice) is not None:
                    col = const_str(sel.slice)
                    frame = unparse(sel.value)
                    freq = unparse(inner.args[0]) if inner.args else unparse(kwarg(inner, "rule"))
                    table[col] = (_agg_kind(fi, rd, st, c), freq, frame, st)
                    if isinstance(st.targets[0], ast.Name):
                        series_names[st.targets[0].id] = col
        if len(table) < 6:
            raise AnalysisError(f"{fi.key}: aggregation block not recognised ({len(table)} resample assignments)")
        tables[fi.key] = {k: (v[0], v[1]) for k, v in table.items()}
        freqs = {v[1] for v in table.values()}
        frames = {v[2] for v in table.values()}
        for col in REQUIRED:
            r1.require(col in table, f"{fi.key}|column:{col}|present", fi.where(), f"{fi.key}: column `{col}` is not aggregated (dropped from the aggregated frame)")
        for col, (kind, freq, frame, st) in sorted(table.items()):
            want = SPEC.get(col)
            if want is None:
                r1.inst(f"{fi.key}|column:{col}|extra")
                continue
            r1.require(kind == want, f"{fi.key}|column:{col}|aggregator", fi.where(st),
                       f"{fi.key}: `{col}` is aggregated with `{kind}`, the property requires `{want}`" + (" (root-sum-square of the daily uncertainties)" if want == "rss" else ""),
                       sample={"function": fi.key, "column": col, "aggregator": kind, "frequency": freq})
        r1.require(len(freqs) == 1, f"{fi.key}|one-frequency", fi.where(), f"{fi.key}: aggregated series use different frequencies {sorted(freqs)}; periods no longer line up")
        r1.require(frames == {src_name}, f"{fi.key}|one-frame", fi.where(), f"{fi.key}: aggregation reads {sorted(frames)}, expected only the _predict result `{src_name}`")
        # ---- concat of every aggregated series, axis=1, returned
        concat = None
        for st in cfg.stmts():
            if isinstance(st, ast.Assign) and isinstance(st.value, ast.Call) and unparse(st.value.func) == "pd.concat" and st.value.args \
                    and isinstance(st.value.args[0], (ast.List, ast.Tuple)):
                names = [unparse(x) for x in st.value.args[0].elts]
                if set(names) & set(series_names):
                    concat = (st, names)
        if concat is None:
            r1.require(False, f"{fi.key}|concat", fi.where(), f"{fi.key}: aggregated series are never concatenated into a result frame")
        else:
            st, names = concat
            cols = [series_names.get(n) for n in names]
            for col in REQUIRED:
                r1.require(col in cols, f"{fi.key}|concat:{col}", fi.where(st), f"{fi.key}: aggregated `{col}` is not part of the returned frame")
            r1.require(len(names) == len(set(names)), f"{fi.key}|concat-dup", fi.where(st), f"{fi.key}: a series is concatenated twice")
            ax = kwarg(st.value, "axis")
            r1.require(ax is not None and unparse(ax) in ("1", "'columns'"), f"{fi.key}|concat-axis", fi.where(st), f"{fi.key}: aggregated series must be concatenated column-wise (axis=1)")
            tgt = unparse(st.targets[0])
            rets = [s for s in cfg.stmts() if isinstance(s, ast.Return)]
            r3.require(all(unparse(r.value) == tgt for r in rets) and tgt == src_name, f"{fi.key}|returns-aggregated", fi.where(st),
                       f"{fi.key}: the aggregated frame `{tgt}` is not what every return hands out")
        # ---- dispatch by partial evaluation
        freq_name = next(iter(freqs)) if len(freqs) == 1 else None
        resample_stmts = [v[3] for v in table.values()]
        cases = [(None, None), ("none", None), ("monthly", "MS"), ("bimonthly", "2MS"),
                 ("weekly", "raise"), ("", "raise"), ("MS", "raise"), ("2MS", "raise"), ("quarterly", "raise"), ("yearly", "raise"),
                 ("month", "raise"), ("bi-monthly", "raise"), ("daily", "raise")]
        for val, want in cases:
            tr = partial_eval(cfg, {"aggregation": val}, start=id(work))
            agg_envs = [e for st in resample_stmts for e in tr.envs_at(st)]
            got_freqs = {e.get(freq_name, "<unknown>") for e in agg_envs} if freq_name else set()
            ends = {k for k, _s, _e in tr.ends}
            raises = [s for k, s, _e in tr.ends if k == RAISE]
            key = f"{fi.key}|dispatch:{val!r}"
            if want == "raise":
                ok = not agg_envs and ends == {RAISE}
                cls_ok = all(isinstance(s, ast.Raise) and unparse(s.exc.func if isinstance(s.exc, ast.Call) else s.exc) == "ValueError" for s in raises)
                r2.require(ok and cls_ok, key, fi.where(work),
                           f"{fi.key}: aggregation={val!r} must be rejected with ValueError before any aggregation; "
                           f"found ends={sorted(ends)} aggregated_with={sorted(map(str, got_freqs))}",
                           sample={"aggregation": val, "expected": "ValueError"})
            elif want is None:
                r2.require(not agg_envs and ends == {EXIT}, key, fi.where(work),
                           f"{fi.key}: aggregation={val!r} must return the daily frame unaggregated; found ends={sorted(ends)} aggregated_with={sorted(map(str, got_freqs))}",
                           sample={"aggregation": val, "expected": "no aggregation"})
            else:
                r2.require(bool(agg_envs) and got_freqs == {want} and ends == {EXIT}, key, fi.where(work),
                           f"{fi.key}: aggregation={val!r} must resample with {want!r}; found {sorted(map(str, got_freqs))} ends={sorted(ends)}",
                           sample={"aggregation": val, "expected": want})
    # ---- R19.4 optional columns are read only under a presence guard
    r4 = chk.rule("R19.4", "a column the data classes may leave out (conditional drop) is aggregated only under a `\"col\" in frame.columns` guard", 2)
    optional = set()
    for modname in ("opendsm.eemeter.models.daily.data", "opendsm.eemeter.models.billing.data"):
        m = chk.repo.module(modname)
        for g in m.all_funcs:
            gcfg = None
            for c in calls_in(g.node):
                if isinstance(c.func, ast.Attribute) and c.func.attr == "drop" and kwarg(c, "columns") is not None:
                    cols = kwarg(c, "columns")
                    names = [const_str(x) for x in (cols.elts if isinstance(cols, (ast.List, ast.Tuple)) else [cols])]
                    st = g.module.enclosing_stmt(c)
                    gcfg = gcfg or CFG(g.node)
                    if gcfg.guards(st) and all(names):
                        # only columns of the *output* frame matter: the function's result flows to the data frame
                        if g.name in ("_merge_meter_temp",):
                            optional |= set(names)
    if not optional:
        raise AnalysisError("R19.4: no conditionally dropped column found in the daily/billing data classes (anchor `_merge_meter_temp` moved?)")
    for fi in impls:
        cfg = CFG(fi.node)
        for st in cfg.stmts():
            if isinstance(st, (ast.If, ast.For, ast.While, ast.With, ast.Try)):
                continue
            for n in ast.walk(st):
                if isinstance(n, ast.Subscript) and isinstance(n.ctx, ast.Load) and const_str(n.slice) in optional:
                    col = const_str(n.slice)
                    frame = unparse(n.value)
                    guarded = any(pol and isinstance(t, ast.Compare) and len(t.ops) == 1 and isinstance(t.ops[0], ast.In)
                                  and const_str(t.left) == col and unparse(t.comparators[0]) in (f"{frame}.columns", frame)
                                  for t, pol in cfg.guards(st))
                    r4.require(guarded, f"{fi.key}|optional-column:{col}", fi.where(st),
                               f"{fi.key} reads `{frame}[\"{col}\"]` unconditionally, but the data classes leave `{col}` out when no usage was supplied "
                               f"(temperature-only reporting data): aggregation raises KeyError for datasets without observed",
                               sample={"function": fi.key, "column": col, "optional_because": "_merge_meter_temp drops it when all-NaN"})
    # sibling cross-check
    keys = list(tables)
    if len(keys) == 2:
        r1.require(tables[keys[0]] == tables[keys[1]], "siblings|BillingModel.predict~BillingWeightedModel.predict", impls[1].where(),
                   f"the two billing predict implementations aggregate differently: {tables[keys[0]]} vs {tables[keys[1]]}")
    # control for the rss matcher
    ok = is_root_sum_square(ast.parse("lambda x: np.sqrt(np.sum(np.square(x)))", mode="eval").body) and \
        is_root_sum_square(ast.parse("lambda v: (v ** 2).sum() ** 0.5", mode="eval").body) and \
        not is_root_sum_square(ast.parse("lambda x: np.sum(np.sqrt(np.square(x)))", mode="eval").body) and \
        not is_root_sum_square(ast.parse("lambda x: np.sqrt(np.mean(np.square(x)))", mode="eval").body) and \
        not is_root_sum_square(ast.parse("np.linalg.norm", mode="eval").body)
    if not ok:
        raise AnalysisError("R19.1 root-sum-square matcher control failed")
    r1.inst("control|rss-matcher")
