"""C19 — billing aggregation of predictions conserves totals."""
from __future__ import annotations

import ast
from typing import Dict, List, Optional, Tuple

from engine.cfg import CFG, EXIT, RAISE
from engine.dataflow import ReachingDefs, backward_slice_exprs
from engine.index import AnalysisError, FuncInfo, calls_in, const_str, kwarg, unparse, walk_no_nested
from engine.peval import partial_eval
from rules.common import BILLING_MODEL, WEIGHTED_MODEL, method, raise_class, self_calls

SPEC = {
    "predicted": "sum", "observed": "sum", "heating_load": "sum", "cooling_load": "sum",
    "temperature": "mean", "predicted_unc": "rss",
    "season": "first", "model_split": "first", "model_type": "first",
}
REQUIRED = ["predicted", "observed", "heating_load", "cooling_load", "temperature", "predicted_unc"]


def _is_square(e: ast.AST, var: str) -> bool:
    if isinstance(e, ast.Call) and unparse(e.func) in ("np.square",) and len(e.args) == 1:
        return unparse(e.args[0]) == var
    if isinstance(e, ast.Call) and unparse(e.func) in ("np.power", "pow") and len(e.args) == 2:
        return unparse(e.args[0]) == var and unparse(e.args[1]) in ("2", "2.0")
    if isinstance(e, ast.BinOp) and isinstance(e.op, ast.Pow):
        return unparse(e.left) == var and unparse(e.right) in ("2", "2.0")
    if isinstance(e, ast.BinOp) and isinstance(e.op, ast.Mult):
        return unparse(e.left) == var and unparse(e.right) == var
    return False


def _is_sum_of(e: ast.AST, inner) -> bool:
    if isinstance(e, ast.Call):
        fn = unparse(e.func)
        if fn in ("np.sum", "sum", "np.nansum") and len(e.args) >= 1 and not (kwarg(e, "axis") is not None and unparse(kwarg(e, "axis")) not in ("0", "None")):
            return inner(e.args[0])
        if isinstance(e.func, ast.Attribute) and e.func.attr == "sum" and not e.args:
            return inner(e.func.value)
    return False


def is_root_sum_square(fn_expr: ast.AST) -> bool:
    """lambda x: sqrt(sum(square(x)))  in any of the equivalent spellings.
    np.linalg.norm is NOT one of them: np.sum / Series.sum skip the NaN rows of a period (days without a prediction),
    the norm propagates them, so a period with one gap day would lose its uncertainty (seeded change C19-norm)."""
    if not isinstance(fn_expr, ast.Lambda) or len(fn_expr.args.args) != 1:
        return False
    var = fn_expr.args.args[0].arg
    b = fn_expr.body
    inner = None
    if isinstance(b, ast.Call) and unparse(b.func) in ("np.sqrt", "math.sqrt", "sqrt") and len(b.args) == 1:
        inner = b.args[0]
    elif isinstance(b, ast.BinOp) and isinstance(b.op, ast.Pow) and unparse(b.right) in ("0.5", "1 / 2", "(1 / 2)"):
        inner = b.left
    if inner is None:
        return False
    return _is_sum_of(inner, lambda z: _is_square(z, var))


def _function_value(fi: FuncInfo, rd: ReachingDefs, st: ast.AST, e: ast.AST) -> Optional[ast.AST]:
    """Resolve a Name used as a function value to the lambda / expression it was bound to (single reaching def)."""
    if isinstance(e, ast.Name):
        ds = rd.reaching(st, e.id)
        vals = [rd.value_of(d) for d in ds]
        if len(vals) == 1 and vals[0] is not None:
            return vals[0]
        return None
    return e


def _agg_kind(fi, rd, st, call: ast.Call) -> str:
    """Classify `<resampler>.<agg>(...)`."""
    a = call.func.attr
    if a in ("sum", "mean", "first", "last", "max", "min", "median", "count", "std"):
        return a
    if a in ("apply", "agg", "aggregate") and call.args:
        f = call.args[0]
        s = const_str(f)
        if s in ("sum", "mean", "first"):
            return s
        if unparse(f) in ("np.sum", "sum"):
            return "sum"
        if unparse(f) in ("np.mean",):
            return "mean"
        fv = _function_value(fi, rd, st, f)
        if fv is not None and is_root_sum_square(fv):
            return "rss"
        return f"custom:{unparse(fv if fv is not None else f)[:60]}"
    return f"other:{a}"


def aggregation_table(chk, fi: FuncInfo):
    """(name bound to the self._predict result, {column: (aggregator kind, frequency expr, frame read, stmt)}) of a billing predict()."""
    cfg = CFG(fi.node)
    rd = ReachingDefs(fi.node, cfg)
    works = [st for st, _c in self_calls(fi, {"_predict"})]
    if not works:
        raise AnalysisError(f"{fi.key}: no self._predict call")
    work = works[0]
    src_name = work.targets[0].id if isinstance(work, ast.Assign) and isinstance(work.targets[0], ast.Name) else None
    table = {}
    for st in cfg.stmts():
        if not isinstance(st, ast.Assign) or not isinstance(st.value, ast.Call) or not isinstance(st.value.func, ast.Attribute):
            continue
        c = st.value
        inner = c.func.value
        if isinstance(inner, ast.Call) and isinstance(inner.func, ast.Attribute) and inner.func.attr == "resample":
            sel = inner.func.value
            if isinstance(sel, ast.Subscript) and const_str(sel.slice) is not None:
                freq = unparse(inner.args[0]) if inner.args else unparse(kwarg(inner, "rule"))
                table[const_str(sel.slice)] = (_agg_kind(fi, rd, st, c), freq, unparse(sel.value), st)
    return src_name, table


def run(chk):
    from rules.billing_agg import AGG_VALUES, RSS, RULES, SPEC as ASPEC, billing_outcomes
    from engine.absint import NumpyTerms, Term
    chk.explanation = (
        "BillingModel.predict and its sibling BillingWeightedModel.predict are *interpreted from their AST* (the checker's own interpreter, "
        "engine/pyinterp + engine/absint; nothing of the repository is imported or run) for every spelling of `aggregation` the property "
        "names (None, 'none' in any case, 'monthly', 'bimonthly') and a set of values that must be rejected, with and without an `observed` "
        "column, on an abstract model / data object / frame.  The frame returned by self._predict is a token; column selection, resample, "
        "the reductions and pd.concat(axis=1) build a description (column, source frame, rule, reduction) of what is returned; the function "
        "handed to .apply/.agg is recognised by applying it to a symbol, so sqrt(sum(x^2)) is the same whether it is a lambda, a module "
        "function or (x**2).sum()**0.5.  The description is compared with the property's table.  Locals, helpers, constants and the shape "
        "of the if/elif chain do not matter.")
    chk.not_decided += ["calendar arithmetic of DataFrame.resample across DST (pandas internals)", "that _predict's daily frame is right (C06/C07/C11)"]
    chk.trusted += ["Resampler.sum/mean/first/apply aggregate exactly the rows of each calendar period (label='left', closed='left' defaults for MS)",
                    "np.sum / Series.sum of a Series skip NaN rows; np.linalg.norm propagates them (so it is not accepted as root-sum-square)",
                    "pd.concat drops None entries of the list it is given"]
    r1 = chk.rule("R19.1", "aggregation table: predicted/observed/heating/cooling -> sum, temperature -> mean, predicted_unc -> sqrt(sum(x^2)), labels -> first; one frequency; every series concatenated axis=1", 12)
    r2 = chk.rule("R19.2", "dispatch: None/'none' -> the daily frame unchanged, 'monthly' -> 'MS', 'bimonthly' -> '2MS', anything else raises ValueError", 10)
    r3 = chk.rule("R19.3", "the aggregation consumes the frame returned by self._predict (called once, on the data object's frame) and the aggregated frame is what is returned", 2)
    r4 = chk.rule("R19.4", "a column the data classes may leave out (conditional drop) does not make aggregation fail: temperature-only data aggregates without `observed`", 2)

    impls = []
    for modcls in (BILLING_MODEL, WEIGHTED_MODEL):
        c = chk.repo.cls(*modcls)
        p = method(chk, c, "predict")
        if "aggregation" not in p.params:
            raise AnalysisError(f"{p.key} has no `aggregation` parameter")
        if p.key not in [x[0].key for x in impls]:
            impls.append((p, c))
    # which columns may be absent: conditional drops in the data classes' merge step
    optional = set()
    for modname in ("opendsm.eemeter.models.daily.data", "opendsm.eemeter.models.billing.data"):
        m = chk.repo.module(modname)
        for g in m.all_funcs:
            gcfg = None
            for c in calls_in(g.node):
                if isinstance(c.func, ast.Attribute) and c.func.attr == "drop" and kwarg(c, "columns") is not None:
                    cols = kwarg(c, "columns")
                    names = [const_str(x) for x in (cols.elts if isinstance(cols, (ast.List, ast.Tuple)) else [cols])]
                    st = g.module.enclosing_stmt(c)
                    gcfg = gcfg or CFG(g.node)
                    if gcfg.guards(st) and all(names) and g.name in ("_merge_meter_temp",):
                        optional |= set(names)
    if optional != {"observed"}:
        raise AnalysisError(f"R19.4: the conditionally dropped columns of the daily/billing data classes are {sorted(optional)} (expected ['observed']; anchor `_merge_meter_temp` moved?)")

    summary = {}
    for fi, cls in impls:
        out = billing_outcomes(chk, fi, {"BillingModel", "DailyModel", cls.name})
        summary[fi.key] = out
        for (agg, wo), o in sorted(out.items(), key=lambda kv: (str(kv[0][0]), kv[0][1])):
            key = f"{fi.key}|dispatch:{agg!r}" + ("" if wo else "|no-observed")
            none_like = agg is None or (isinstance(agg, str) and agg.lower() == "none")
            if none_like:
                ok = o.get("returns") == "frame" and o["frame"] == {"frame": "predict", "ops": []} and o["predict_calls"] == 1
                r2.require(ok, key, fi.where(), f"{fi.key}: aggregation={agg!r} must return the frame of self._predict unchanged; found {o}", sample={"aggregation": agg, "expected": "no aggregation"})
                continue
            if agg not in RULES:
                r2.require(o.get("raises") == "ValueError", key, fi.where(), f"{fi.key}: aggregation={agg!r} must be rejected with ValueError; found {o}", sample={"aggregation": agg, "expected": "ValueError"})
                continue
            rule = RULES[agg]
            if o.get("raises"):
                (r4 if not wo and o["raises"] == "KeyError" else r2).require(False, key, fi.where(),
                    f"{fi.key}: aggregation={agg!r} on data {'with' if wo else 'without'} an `observed` column raises {o['raises']}"
                    + ("" if wo else " (the data classes leave `observed` out when no usage was supplied: temperature-only reporting data must still aggregate)"),
                    sample={"aggregation": agg, "with_observed": wo})
                continue
            if not wo:
                r4.inst(key)
            ok_shape = o.get("returns") == "concat" and o.get("axis") in (1, "columns")
            r1.require(ok_shape, f"{fi.key}|concat-axis|{agg}|{wo}", fi.where(), f"{fi.key}: aggregation={agg!r} must return the column-wise concat (axis=1) of the aggregated series; found {str(o)[:160]}")
            if not ok_shape:
                continue
            r2.require(not [x for x in o.get("ops", []) if x not in ("sort_index", "copy")], f"{fi.key}|dispatch:{agg!r}|periods-as-cut|{wo}", fi.where(),
                       f"{fi.key}: aggregation={agg!r}: the aggregated frame is passed through {o.get('ops')} before it is returned: the period labels / rows are no longer the calendar periods the rows were cut into")
            r3.require(o["predict_calls"] == 1, f"{fi.key}|predict-once|{agg}|{wo}", fi.where(), f"{fi.key}: self._predict must be called exactly once on the data object's frame (called {o['predict_calls']} times)")
            items = o["items"]
            cols = [i.get("column") for i in items]
            want_cols = [c_ for c_ in ASPEC if wo or c_ != "observed"]
            for col in want_cols:
                r1.require(cols.count(col) == 1, f"{fi.key}|column:{col}|present|{agg}|{wo}", fi.where(),
                           f"{fi.key}: aggregation={agg!r}: column `{col}` appears {cols.count(col)} times in the aggregated frame (must be exactly once)")
            for i in items:
                col = i.get("column")
                if col not in ASPEC:
                    r1.require(col is not None and i.get("reduction") is not None, f"{fi.key}|column:{col}|extra", fi.where(), f"{fi.key}: unrecognised item {i} in the aggregated frame")
                    continue
                want = ASPEC[col]
                r1.require(i["reduction"] == want, f"{fi.key}|column:{col}|aggregator", fi.where(),
                           f"{fi.key}: `{col}` is aggregated with `{i['reduction']}`, the property requires `{want}`" + (" (root-sum-square of the daily uncertainties; NaN days skipped)" if want == RSS else ""),
                           sample={"function": fi.key, "column": col, "aggregator": i["reduction"], "aggregation": agg})
                r2.require(i["rule"] == rule, f"{fi.key}|dispatch:{agg!r}|frequency:{col}", fi.where(), f"{fi.key}: aggregation={agg!r}: `{col}` is resampled with {i['rule']!r} (must be {rule!r}): periods no longer line up",
                           sample={"column": col, "rule": i["rule"], "expected": rule})
                r3.require(i["from"] == "predict" and not i["from_ops"], f"{fi.key}|column:{col}|source", fi.where(),
                           f"{fi.key}: aggregated `{col}` is read from the `{i['from']}` frame{' after ' + str(i['from_ops']) if i['from_ops'] else ''}; it must come from the frame returned by self._predict (the one whose usage was masked)",
                           sample={"column": col, "from": i["from"], "ops": i["from_ops"]})
    # sibling cross-check: same outcomes for every input
    if len(impls) == 2:
        a_, b_ = (summary[impls[0][0].key], summary[impls[1][0].key])
        diff = [k for k in a_ if a_[k] != b_.get(k)]
        r1.require(not diff, "siblings|BillingModel.predict~BillingWeightedModel.predict", impls[1][0].where(),
                   f"the two billing predict implementations behave differently for aggregation/observed = {diff[:3]}: {a_[diff[0]] if diff else ''} vs {b_[diff[0]] if diff else ''}")
    # controls for the symbolic recognition of the reduction
    np_ = NumpyTerms()
    x = Term("x")
    ctl = [np_.sqrt(np_.sum(np_.square(x))).key() == RSS, ((x ** 2).sum() ** 0.5).key() == RSS, np_.sqrt(np_.sum(x * x)).key() == RSS,
           np_.sum(np_.sqrt(np_.square(x))).key() != RSS, np_.sqrt(np_.mean(np_.square(x))).key() != RSS, np_.linalg.norm(x).key() != RSS]
    if not all(ctl):
        raise AnalysisError(f"R19.1 root-sum-square recognition control failed: {ctl}")
    r1.inst("control|rss-recognition")
