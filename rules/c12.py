"""C12 — every fitted daily/billing model is admissible and well formed (table clauses)."""
from __future__ import annotations

import ast
import itertools
import math
from typing import Any, Dict, List, Optional, Set, Tuple

from engine.cfg import CFG
from engine.dataflow import ReachingDefs
from engine.index import AnalysisError, FuncInfo, calls_in, const_str, kwarg, unparse, walk_no_nested
from engine.pyinterp import Env, Function, Interp, Stub, Unsupported
from rules import coef
from rules.coef import CHT, FM, HTC, OR, PA, SHAPES, TIDD
from rules.common import DAILY_MODEL, method

BM = "opendsm.eemeter.models.daily.utilities.base_model"


def _kind_of_coef(name: str) -> str:
    if name.endswith("_bp"):
        return "bp"
    if name.endswith("_beta"):
        return "beta"
    if name.endswith("_k"):
        return "k"
    if name == "intercept":
        return "intercept"
    return "?"


def _bound_kind(f: FuncInfo, rd: ReachingDefs, at: ast.AST, e: ast.AST) -> Tuple[str, List[str]]:
    """Kind of a bounds expression + the (unparsed) candidate definitions it can take."""
    exprs: List[ast.AST] = []
    if isinstance(e, ast.Name):
        for d in rd.reaching(at, e.id):
            v = rd.value_of(d)
            if v is not None:
                exprs.append(v)
            else:
                us = rd.unpack_source(d)
                if us is not None:
                    exprs.append(us[0])
    else:
        exprs = [e]
    kinds = set()
    texts = []
    for v in exprs:
        t = unparse(v)
        texts.append(t)
        if "np.quantile(obs" in t:
            kinds.add("intercept")
        elif isinstance(v, (ast.List, ast.Tuple)) and len(v.elts) == 2:
            a, b = (unparse(x) for x in v.elts)
            if "max_slope" in a + b:
                kinds.add("beta")
            elif a in ("0",) and b in ("1", "1000.0", "1e3", "1000"):
                kinds.add("k")
            elif "T_m" in a + b:
                kinds.add("bp")
            else:
                kinds.add(f"?[{a},{b}]")
        elif t in ("T_initial", "T_segment") or "T_initial if initial_fit else T_segment" in t or t.startswith("get_T_bnds"):
            kinds.add("bp")
        else:
            kinds.add("?" + t[:30])
    if len(kinds) == 1:
        return kinds.pop(), texts
    return "mixed:" + ",".join(sorted(kinds)), texts


class Vec(Stub):
    """A 1-d array of numbers / truth values picked out of a bounds table (`bounds[[rows], col]`): element-wise comparisons."""

    def __init__(self, xs):
        self.xs = list(xs)

    def _cmp(self, o, f):
        ys = o.xs if isinstance(o, Vec) else [o] * len(self.xs)
        return Vec([f(a, b) for a, b in zip(self.xs, ys)])

    def __lt__(self, o): return self._cmp(o, lambda a, b: a < b)
    def __le__(self, o): return self._cmp(o, lambda a, b: a <= b)
    def __gt__(self, o): return self._cmp(o, lambda a, b: a > b)
    def __ge__(self, o): return self._cmp(o, lambda a, b: a >= b)
    def __invert__(self): return Vec([not a for a in self.xs])
    def __iter__(self): return iter(self.xs)
    def _abs_len(self): return len(self.xs)
    def clip(self, lo=None, hi=None, **k): return Vec([min(max(a, lo) if lo is not None else a, hi) if hi is not None else (max(a, lo) if lo is not None else a) for a in self.xs])
    def copy(self): return Vec(self.xs)

    def __getitem__(self, k):
        if isinstance(k, int):
            return self.xs[k]
        raise Unsupported("vector[...] with a key that is not a position")


class Arr2(Stub):
    """A bounds table: rows [lo, hi].  Row reads hand out the row itself (stores through it are seen), row stores copy the values."""

    def __init__(self, rows):
        self.rows = [list(r) for r in rows]

    @staticmethod
    def _rowlist(k):
        return isinstance(k, tuple) and len(k) == 2 and isinstance(k[0], (list, Vec)) and all(isinstance(x, int) and not isinstance(x, bool) for x in k[0]) and isinstance(k[1], int)

    def __getitem__(self, k):
        if isinstance(k, int):
            return self.rows[k]
        if isinstance(k, tuple) and len(k) == 2 and all(isinstance(x, int) for x in k):
            return self.rows[k[0]][k[1]]
        if self._rowlist(k):                      # bounds[[rows], col]: that column of those rows
            return Vec([self.rows[i][k[1]] for i in k[0]])
        if isinstance(k, (list, Vec)) and all(isinstance(x, int) and not isinstance(x, bool) for x in k):
            return Arr2([self.rows[i] for i in k])          # bounds[[rows]]: a copy of those rows (NumPy fancy indexing copies)
        raise Unsupported("bounds[...] with a key other than a row number or (row, column)")

    def __setitem__(self, k, v):
        if isinstance(k, int):
            self.rows[k] = list(v)
        elif isinstance(k, tuple) and len(k) == 2 and all(isinstance(x, int) for x in k):
            self.rows[k[0]][k[1]] = v
        elif isinstance(k, (list, Vec)) and all(isinstance(x, int) and not isinstance(x, bool) for x in k):
            rows_ = v.rows if isinstance(v, Arr2) else [list(r_) for r_ in v]
            if len(rows_) != len(list(k)):
                raise Unsupported("bounds[[rows]] = ... with a value of another length")
            for i, r_ in zip(k, rows_):
                self.rows[i] = list(r_)
        elif self._rowlist(k):
            vals = list(v) if isinstance(v, (Vec, list)) else [v] * len(list(k[0]))
            if len(vals) != len(list(k[0])):
                raise Unsupported("bounds[[rows], col] = ... with a value of another length")
            for i, x in zip(k[0], vals):
                self.rows[i][k[1]] = x
        else:
            raise Unsupported("bounds[...] = ... with a key other than a row number or (row, column)")

    def _abs_len(self):
        return len(self.rows)

    def copy(self):
        return Arr2(self.rows)


def _widen(v: float) -> List[float]:
    # fix_identical_bnds: a degenerate pair [v, v] becomes v -/+ 10**OoM(v); OoM(0) is 1 in the repository's helper
    m = 10.0 if v == 0 else 10.0 ** math.floor(math.log10(abs(v)))
    return [v - m, v + m]


class _NPb(Stub):
    @staticmethod
    def sort(a, axis=-1):
        if not isinstance(a, Arr2) or axis not in (1, -1):
            raise Unsupported("np.sort other than row-wise on a bounds table")
        return Arr2([sorted(r) for r in a.rows])

    @staticmethod
    def array(x, **k):
        if isinstance(x, Arr2):
            return Arr2(x.rows)
        return Arr2(x) if isinstance(x, list) and x and isinstance(x[0], list) else x

    @staticmethod
    def where(cond, a, b):
        if not isinstance(cond, Vec):
            raise Unsupported("np.where with a condition that is not a vector of truth values")
        av = a.xs if isinstance(a, Vec) else [a] * len(cond.xs)
        bv = b.xs if isinstance(b, Vec) else [b] * len(cond.xs)
        return Vec([x if c else y for c, x, y in zip(cond.xs, av, bv)])

    @staticmethod
    def maximum(a, b):
        if isinstance(a, Vec) or isinstance(b, Vec):
            n = len((a if isinstance(a, Vec) else b).xs)
            av = a.xs if isinstance(a, Vec) else [a] * n
            bv = b.xs if isinstance(b, Vec) else [b] * n
            return Vec([max(x, y) for x, y in zip(av, bv)])
        return max(a, b)

    @staticmethod
    def clip(x, lo, hi=None):
        if isinstance(x, Vec):
            return x.clip(lo, hi)
        if isinstance(x, Arr2):
            return Arr2([Vec(r_).clip(lo, hi).xs for r_ in x.rows])
        raise Unsupported("np.clip of something that is neither a vector nor a bounds table")


def _fix_identical(b):
    if not isinstance(b, Arr2):
        raise Unsupported("fix_identical_bnds of something that is not a bounds table")
    return Arr2([_widen(r[0]) if r[0] == r[1] else r for r in b.rows])


REPRESENTATIVE_ROWS = {"degenerate-at-zero": [0.0, 0.0], "negative-lower": [-5.0, 3.0], "degenerate-positive": [2.0, 2.0], "unsorted": [4.0, 1.0],
                       "unsorted-negative": [3.0, -2.0], "regular": [0.0, 7.0]}


def _check_update_bnds(chk, r1):
    from engine.absint import ModuleEnv
    from engine.pyinterp import InterpRaised, StubCall
    cases = [(HTC, "_hdd_tidd_cdd_smooth_update_bnds", {True: "hdd_tidd_cdd_smooth", False: "hdd_tidd_cdd"}, ("beta", "k")),
             (CHT, "_c_hdd_tidd_update_bnds", {True: "c_hdd_tidd_smooth", False: "c_hdd_tidd"}, ("k",))]   # the combined slope's sign tells heating from cooling
    for mod, name, shapes, nonneg_kinds in cases:
        f = chk.repo.func(mod, name)
        for smooth, shape_key in shapes.items():
            shp = list(SHAPES[shape_key])
            fixed = [i for i, c in enumerate(shp) if _kind_of_coef(c) in ("bp", "intercept")]
            nonneg = [i for i, c in enumerate(shp) if _kind_of_coef(c) in nonneg_kinds]
            reference = [[40.0 + 3 * i, 60.0 + 3 * i] for i in range(len(shp))]
            for pos in nonneg or [None]:
                for rep, row in REPRESENTATIVE_ROWS.items():
                    for given in (True, False):
                        if not given and (pos != (nonneg or [None])[0] or rep != "regular"):
                            continue
                        start = [[0.0, 7.0] if _kind_of_coef(shp[i]) in ("beta", "k") else [100.0 + i, 101.0 + i] for i in range(len(shp))]
                        if pos is not None:
                            start[pos] = list(row)
                        bn = [list(r) for r in reference]
                        if not given:
                            for i in range(len(shp)):
                                if i not in fixed:
                                    bn[i] = list(start[i])
                        it = Interp(step_limit=20_000)
                        env = ModuleEnv(chk.repo, f.module, it, {"np": _NPb(), "numpy": _NPb(), "fix_identical_bnds": StubCall(_fix_identical)})
                        key = f"{f.key}|{shape_key}|{'row ' + str(pos) + ' ' + rep if pos is not None else 'regular'}|{'prior bounds given' if given else 'no prior bounds'}"
                        try:
                            out = Function(f.node, env, it)(Arr2(start) if given else None, Arr2(bn), smooth)
                        except InterpRaised as e:
                            r1.require(False, key, f.where(), f"{name} raises {e.exc_name}")
                            continue
                        except Unsupported as e:
                            raise AnalysisError(f"{f.key}: uses an operation outside the modelled subset: {e}")
                        if not isinstance(out, Arr2) or len(out.rows) != len(shp):
                            r1.require(False, key, f.where(), f"{name} does not return the bounds table")
                            continue
                        bad = []
                        for i in fixed:
                            if out.rows[i] != reference[i]:
                                bad.append(f"position {i} ({shp[i]}) must be reset to the model's own bounds {reference[i]}; returned {out.rows[i]}")
                        for i, r in enumerate(out.rows):
                            if not r[0] < r[1]:
                                bad.append(f"position {i} ({shp[i]}) comes back as the empty or degenerate range {r}")
                        for i in nonneg:
                            if out.rows[i][0] < 0:
                                bad.append(f"position {i} ({shp[i]}) comes back with the negative lower bound {out.rows[i][0]} (range {out.rows[i]}): the optimiser may return a negative "
                                           f"{'slope' if _kind_of_coef(shp[i]) == 'beta' else 'smoothing parameter'}, i.e. usage falling away from the balance point")
                        r1.require(not bad, key, f.where(), f"{name}(smooth={smooth}) on prior row {row if pos is not None else 'regular'}: " + "; ".join(bad[:2]),
                                   sample={"function": name, "shape": shape_key, "position": pos, "row": rep})


def run(chk):
    chk.explanation = (
        "Positional table agreement: in each base-model fit function the i-th entry of the bounds list has the kind (balance point / slope / "
        "smoothing / intercept) of the i-th coefficient id, with the admissible ranges (slopes >= 0 resp. signed by the prior, k in [0,1] / [0,1e3], "
        "intercept within the 1%-99% usage quantiles, balance points within the observed temperatures); the index constants of the bound-update "
        "helpers point at coefficients of the stated kind; objective/weight/TSS functions take the coefficients in coef_id order; every "
        "ModelCoefficients construction gives non-None values to exactly the fields its model type reads; reduce_model is interpreted over all "
        "zero/non-zero patterns and orderings (declared shape <=> non-zero slopes, sign convention); recorded temperature limits written == read; "
        "the order of coefficient transforms on the scoring path vs the read-back path is compared.")
    chk.not_decided += ["that NLopt honours the box", "finiteness of coefficients and non-negative finite uncertainty (runtime)", "that reduce_model never emits a numerically zero slope for particular floats"]
    r1 = chk.rule("R12.1", "bounds tables agree with coefficient order and kinds; update-bounds index constants point at coefficients of the stated kind", 20)
    r2 = chk.rule("R12.2", "objective arity/ordering: model / weight / TSS functions take the coefficients in coef_id order, followed by the fixed tails", 12)
    r3 = chk.rule("R12.3", "declared type <=> coefficients present at every ModelCoefficients construction; reduce_model: shape <=> non-zero slopes, heating <=> negative single slope (exhaustive abstract domain)", 2000)
    r4 = chk.rule("R12.4", "recorded temperature limits: keys written == keys read; sourced from the component's own T through get_T_bnds", 5)
    r5 = chk.rule("R12.5", "scored curve = stored curve: the order of coefficient transforms (swap / smooth / kernel) agrees between the scoring path and the read-back path", 2)

    # ------------------------------------------------------------------ R12.1
    # the three fit functions interpreted with the optimiser, the objective factory and the bounds helpers as recorders (rules/fit_tables.py)
    from rules.fit_tables import functions_of, outcomes as fit_outcomes, rows_of
    quads: List[Tuple[FuncInfo, str, Dict[str, str]]] = []
    seen_quads = set()
    for o in fit_outcomes(chk):
        f, key, rec = o["function"], o["key"], o["rec"]
        scen = f"{key}|{'initial' if o['initial'] else 'final'}|prior={o['prior']}"
        if "raises" in rec or "optimizer" not in rec or "objective" not in rec or rec.get("ran") != 1 or rec.get("returns") != "RESULT":
            r1.require(False, f"{f.key}|{scen}|runs-the-optimiser", f.where(), f"{f.name} ({scen}): must build the objective, run the optimiser once and return its result; interpreted: "
                       f"{ {k_: rec.get(k_) for k_ in ('raises', 'ran', 'returns')} }")
            continue
        ids = list(rec["objective"].get("coef_id") or [])
        shp = list(SHAPES[key])
        r1.require(ids == shp and list(rec["optimizer"].get("coef_id") or []) == shp, f"{f.key}|{key}|coef_id|{scen}", f.where(),
                   f"{f.name} ({scen}): coef_id {ids} (objective) / {rec['optimizer'].get('coef_id')} (optimiser) != agreed {shp}")
        b0 = rows_of(rec.get("bnds_0"))
        want = o["want_bounds"]
        if b0 is None or len(b0) != len(shp):
            r1.require(False, f"{f.key}|{key}|bounds-length|{scen}", f.where(), f"{f.name} ({scen}): {len(b0) if b0 is not None else 'no'} bounds for {len(shp)} coefficients")
        else:
            for i, (got_b, want_b, cn) in enumerate(zip(b0, want, shp)):
                okb = len(got_b) == 2 and all(isinstance(x, (int, float)) and abs(x - y) < 1e-9 for x, y in zip(got_b, want_b))
                what = {"bp": "the observed temperatures (min / max on the initial fit, the segment_minimum_count order statistics afterwards; a balance point pinned at a limit keeps that limit)",
                        "beta": "the slope range (non-negative for the two-slope model; for the one-slope model the sign of the prior slope, two-sided only on the initial fit), up to |max slope| scaled by the settings",
                        "k": "the smoothing range", "intercept": "the 1 % and 99 % quantiles of observed usage"}[_kind_of_coef(cn)]
                r1.require(okb, f"{f.key}|{key}|position:{i}:{cn}|{scen}", f.where(),
                           f"{f.name} ({scen}): the bounds of coefficient {i} `{cn}` are {got_b}; they must be {want_b} = {what}",
                           sample={"function": f.name, "model": key, "position": i, "coefficient": cn, "bounds": got_b, "expected": want_b})
        opt_b = rec["optimizer"].get("bnds")
        r1.require(opt_b is rec.get("bnds_out") and (rec.get("bnds_given") is None or rec.get("bnds_given") is rec.get("bnds_0")), f"{f.key}|{key}|bounds-through-update|{scen}", f.where(),
                   f"{f.name} ({scen}): the optimiser must get the table the bounds-update helper returns (called with the caller's bounds and the fresh table)")
        if o.get("final_bounds_row0") is not None:
            r1.require(rows_of(opt_b) is not None and rows_of(opt_b)[0] == o["final_bounds_row0"], f"{f.key}|{key}|pinned-balance-point|{scen}", f.where(),
                       f"{f.name} ({scen}): a balance point pinned at a temperature limit must keep the degenerate range {o['final_bounds_row0']} (not be widened); the optimiser gets {rows_of(opt_b)[0] if rows_of(opt_b) else None}")
        r1.require(rec["objective"].get("alpha") == o["want_alpha"] and rec["objective"].get("initial_fit") is o["initial"], f"{f.key}|{key}|alpha|{scen}", f.where(),
                   f"{f.name} ({scen}): the objective must be built with alpha_selection on the initial fit and alpha_final afterwards; got alpha={rec['objective'].get('alpha')!r}")
        r1.require(rec["optimizer"].get("x0") == "X0-ARRAY" and rec["optimizer"].get("obj_fcn") == "OBJECTIVE", f"{f.key}|{key}|start-vector|{scen}", f.where(),
                   f"{f.name} ({scen}): the optimiser must start from x0.to_np_array() with the objective just built")
        if (f.key, key) not in seen_quads:
            seen_quads.add((f.key, key))
            quads.append((f, key, {k_: (v_ if v_ is not None else "None") for k_, v_ in functions_of(o).items()}))
    # the bounds-preparation helpers are interpreted on small bound tables: one representative row on each side of every guard
    # (degenerate at zero, degenerate away from zero, negative lower bound, unsorted) at every slope / smoothing position
    _check_update_bnds(chk, r1)
    chk.trusted.append("fix_identical_bnds widens a degenerate pair [v, v] to v -/+ 10**OoM(v) with OoM(0) = 1 (opendsm/common/utils.py:OoM_numba) and leaves other rows alone; "
                       "np.sort(axis=1) orders each [lo, hi] pair")

    # ------------------------------------------------------------------ R12.2
    TAIL_MODEL = ["T_fit_bnds", "T"]
    TAIL_WEIGHT = ["T", "residual", "sigma", "quantile", "alpha", "min_weight"]
    TAIL_TSS = ["T", "obs"]
    for f, key, env in quads:
        shp = list(SHAPES[key])
        for role, tail in (("model_fcn", TAIL_MODEL), ("weight_fcn", TAIL_WEIGHT), ("TSS_fcn", TAIL_TSS)):
            nm = env.get(role)
            if nm is None:
                r2.require(False, f"{f.key}|{key}|{role}|bound", f.where(), f"{f.name} ({key}): {role} is not assigned")
                continue
            if nm == "None":
                r2.inst(f"{f.key}|{key}|{role}|None")
                continue
            g = f.module.functions.get(nm)
            if g is None:
                r = chk.res.resolve_name(f.module, ast.parse(nm, mode="eval").body)
                g = r if isinstance(r, FuncInfo) else None
            if g is None:
                r2.require(False, f"{f.key}|{key}|{role}|resolved", f.where(), f"{f.name} ({key}): cannot resolve {role} = {nm}")
                continue
            ps = g.params
            if g.node.args.vararg is not None and not ps:
                # *args wrapper: must forward to the kernel unchanged
                ok = any(isinstance(c.func, ast.Name) and c.func.id == "full_model" and len(c.args) == 1 and isinstance(c.args[0], ast.Starred) for c in calls_in(g.node))
                r2.require(ok and key == "hdd_tidd_cdd_smooth", f"{f.key}|{key}|{role}|star-args", g.where(), f"{nm} takes *args and must forward them to full_model unchanged (kernel order)")
                continue
            lead = ps[:len(shp)]
            rest = ps[len(shp):len(shp) + len(tail)]
            r2.require(lead == shp and rest == tail, f"{f.key}|{key}|{role}={nm}", g.where(),
                       f"{nm} is used as the {role} of `{key}` with coefficients {shp}, but its parameters are {ps[:len(shp) + len(tail)]}",
                       sample={"model": key, "role": role, "function": nm, "parameters": ps[:len(shp) + len(tail)]})

    # ------------------------------------------------------------------ R12.3 (a) ModelCoefficients constructions
    tn = coef.to_np_array_table(chk)
    n_ctor = 0
    for modname in (PA, HTC, CHT, TIDD, OR):
        m = chk.repo.module(modname)
        for f in m.all_funcs:
            cfg = None
            for c in calls_in(f.node):
                if unparse(c.func) in ("ModelCoefficients", "cls") and kwarg(c, "model_type") is not None:
                    n_ctor += 1
                    mt = kwarg(c, "model_type")
                    types: List[str] = []
                    type_blocks: Dict[str, List[ast.stmt]] = {}
                    if "ModelType." in unparse(mt):
                        types = [unparse(mt).split("ModelType.")[-1]]
                    elif isinstance(mt, ast.Name):
                        rd = ReachingDefs(f.node)
                        st = f.module.enclosing_stmt(c)
                        for d in rd.reaching(st, mt.id):
                            v = rd.value_of(d)
                            if v is not None and "ModelType." in unparse(v):
                                ty0 = unparse(v).split("ModelType.")[-1]
                                types.append(ty0)
                                ds = rd.def_stmt(d)
                                par = f.module.parent(ds)
                                for fld in ("body", "orelse"):
                                    blk = getattr(par, fld, None)
                                    if isinstance(blk, list) and any(x is ds for x in blk):
                                        type_blocks[ty0] = blk
                    if not types:
                        r3.require(False, f"{f.key}|ctor-type-unknown:{unparse(mt)[:30]}", f.where(c), f"{f.qualname}: cannot establish the model_type of a ModelCoefficients construction")
                        continue
                    given0 = {k.arg for k in c.keywords if k.arg != "model_type" and not (isinstance(k.value, ast.Constant) and k.value.value is None)}
                    for ty in types:
                        given = set(given0)
                        # fields passed through a name that the block selecting `ty` binds to None
                        for k in c.keywords:
                            if isinstance(k.value, ast.Name) and ty in type_blocks:
                                for sib in type_blocks[ty]:
                                    if isinstance(sib, ast.Assign) and isinstance(sib.value, ast.Constant) and sib.value.value is None and any(unparse(t) == k.value.id for t in sib.targets):
                                        given.discard(k.arg)
                        need = set(tn.get(ty, []))
                        # fields whose value is a name bound to None on the branch selecting `ty` are checked path-sensitively below; here: superset/subset by keyword presence
                        missing = need - given
                        r3.require(not missing, f"{f.key}|ctor:{ty}|fields", f.where(c), f"{f.qualname}: ModelCoefficients(model_type={ty}) does not receive {sorted(missing)}, which to_np_array reads for that type",
                                   sample={"function": f.qualname, "model_type": ty, "given": sorted(given), "needed": sorted(need)})
    if n_ctor < 6:
        raise AnalysisError(f"only {n_ctor} ModelCoefficients constructions found")
    # from_np_arrays: per branch, the None-pattern matches the type (path-sensitive by branch text)
    fna = chk.repo.func(PA, "ModelCoefficients.from_np_arrays")
    for n in ast.walk(fna.node):
        if isinstance(n, ast.If) and isinstance(n.test, ast.Compare) and unparse(n.test.left) == "coefficients[1]" and unparse(n.test.comparators[0]) == "0" and isinstance(n.test.ops[0], (ast.Lt, ast.Gt, ast.GtE, ast.LtE)):
            neg_first = isinstance(n.test.ops[0], (ast.Lt, ast.LtE))
            for body, side in ((n.body, "hdd" if neg_first else "cdd"), (n.orelse, "cdd" if neg_first else "hdd")):
                ty = [unparse(s.value).split("ModelType.")[-1] for s in body if isinstance(s, ast.Assign) and unparse(s.targets[0]) == "model_type"]
                nones = set()
                vals = set()
                for s in body:
                    if isinstance(s, ast.Assign) and isinstance(s.value, ast.Constant) and s.value.value is None:
                        nones |= {unparse(t) for t in s.targets}
                    elif isinstance(s, ast.Assign) and unparse(s.targets[0]) != "model_type":
                        vals |= {unparse(t) for t in s.targets}
                ok = len(ty) == 1 and ty[0].startswith("HDD" if side == "hdd" else "TIDD_CDD") and all(v.startswith(side) for v in vals) and all(not v.startswith(side) for v in nones) \
                    and vals == set(x for x in tn.get(ty[0], []) if x != "intercept")
                r3.require(ok, f"{fna.key}|sign-branch:{side}:{ty}", fna.where(n), f"from_np_arrays: a negative single slope must give the heating type with exactly the hdd_* fields (and vice versa); found type {ty}, set {sorted(vals)}, None {sorted(nones)}",
                           sample={"side": side, "type": ty, "fields": sorted(vals)})
    # (b) reduce_model interpreted over zero patterns x orderings
    rm = chk.repo.try_func(OR, "reduce_model")
    gk = chk.repo.try_func(OR, "get_k")
    gsc = chk.repo.func(BM, "get_smooth_coeffs")
    if rm is None or gk is None:
        raise AnalysisError("reduce_model / get_k vanished")

    class NPs(Stub):
        @staticmethod
        def array(x):
            return list(x)
        @staticmethod
        def exp(x):
            return math.exp(x)
    n_states = 0
    # abstract domain: every total pre-order of {hdd_bp, cdd_bp, T_min_seg, T_max_seg} with T_min_seg < T_max_seg and hdd_bp <= cdd_bp
    # (fix_full_model_x orders the balance points before reduce_model is called), slopes in {0, non-zero}, smoothing fractions in
    # {0, below the 0.01 cut-off of get_smooth_coeffs, ordinary}, every model key.  reduce_model / get_k / get_smooth_coeffs branch on
    # nothing else, so one representative per class is exhaustive.
    from rules.c11 import weak_orders
    placements = []
    for order in weak_orders(["hdd_bp", "cdd_bp", "T_min_seg", "T_max_seg"]):
        if order["T_min_seg"] >= order["T_max_seg"] or order["hdd_bp"] > order["cdd_bp"]:
            continue
        v = {k: 20.0 + 15.0 * r for k, r in order.items()}
        placements.append((v["hdd_bp"], v["cdd_bp"], v["T_min_seg"], v["T_max_seg"]))
    for hb, cb, hk, ck in itertools.product([0.0, 1.5], [0.0, 2.5], [0.0, 0.005, 0.25], [0.0, 0.005, 0.35]):
        for model_key in ("hdd_tidd_cdd_smooth", "hdd_tidd_cdd", "c_hdd_tidd_smooth", "c_hdd_tidd", "tidd"):
            for hbp, cbp, T_min_seg, T_max_seg in placements:
                T_min, T_max = T_min_seg - 5.0, T_max_seg + 5.0
                it = Interp(step_limit=20000)
                env = Env()
                env.set("np", NPs())
                env.set("lambertw", None)
                env.set("get_smooth_coeffs", Function(gsc.node, env, it))
                env.set("get_k", Function(gk.node, env, it))
                fn = Function(rm.node, env, it)
                env.set("reduce_model", fn)
                try:
                    res = fn(hbp, hb, hk, cbp, cb, ck, 10.0, T_min, T_max, T_min_seg, T_max_seg, model_key)
                except Unsupported as e:
                    r3.require(False, f"{rm.key}|interpretable", rm.where(), f"cannot establish reduce_model: {e}")
                    res = None
                    break
                n_states += 1
                ok = isinstance(res, tuple) and len(res) == 2
                why = ""
                if ok:
                    cid, x = res
                    cid = tuple(cid)
                    if cid not in set(SHAPES.values()):
                        ok, why = False, f"unknown coefficient-id sequence {cid}"
                    elif len(x) != len(cid):
                        ok, why = False, f"{len(x)} values for {len(cid)} ids"
                    else:
                        named = dict(zip(cid, x))
                        two_slopes = hb != 0 and cb != 0
                        if two_slopes != (cid in (SHAPES["hdd_tidd_cdd_smooth"], SHAPES["hdd_tidd_cdd"])):
                            ok, why = False, f"two non-zero slopes {two_slopes} but shape {cid}"
                        elif hb == 0 and cb == 0 and cid != SHAPES["tidd"]:
                            ok, why = False, f"no slope but shape {cid}"
                        elif "c_hdd_beta" in named:
                            heating = hb != 0
                            if named["c_hdd_beta"] == 0:
                                ok, why = False, "declared single-slope model with a zero slope"
                            elif (named["c_hdd_beta"] < 0) != heating:
                                ok, why = False, f"sign convention broken: heating={heating} but c_hdd_beta={named['c_hdd_beta']}"
                            elif abs(named["c_hdd_beta"]) != (hb if heating else cb):
                                ok, why = False, "slope magnitude changed"
                        for nm in ("hdd_beta", "cdd_beta"):
                            if ok and nm in named and named[nm] == 0:
                                ok, why = False, f"declared {nm} is zero"
                        if ok and named["intercept"] != 10.0:
                            ok, why = False, "intercept not carried through"
                        if ok and cid == SHAPES["hdd_tidd_cdd"] and (hk != 0 or ck != 0) and model_key == "hdd_tidd_cdd_smooth":
                            ok, why = False, "smoothing dropped although non-zero"
                else:
                    why = f"returned {res!r}"
                r3.require(ok, f"{rm.key}|state:hb={hb},cb={cb},hk={hk},ck={ck},{model_key},bp=({hbp},{cbp})", rm.where(),
                           f"reduce_model(hdd_beta={hb}, cdd_beta={cb}, hdd_k={hk}, cdd_k={ck}, model_key={model_key}, bps=({hbp},{cbp})): {why}",
                           sample={"slopes": (hb, cb), "k": (hk, ck), "model_key": model_key, "result": [list(res[0]), list(res[1])] if ok else None})
            else:
                continue
            break

    # ------------------------------------------------------------------ R12.4
    dm = chk.repo.cls(*DAILY_MODEL)
    cp = method(chk, dm, "_create_params_from_fit_model")
    ps = method(chk, dm, "_predict_submodel")
    # what the writer stores under each limit name, read off the interpreted writer (rules/daily_roundtrip.py)
    from rules.daily_roundtrip import written_limits
    try:
        wl = written_limits(chk, dm, cp, method(chk, dm, "from_dict"))
    except Unsupported as e:
        raise AnalysisError(f"{cp.key}: outside the interpreted subset: {e}")
    written = {}
    for sub_key, lim in wl.items():
        for k_, v_ in lim.items():
            src = v_[len(sub_key) + 1:] if v_.startswith(sub_key + ".") else v_
            written[k_] = "submodel." + src if v_.startswith(sub_key + ".") else v_
    from rules.evaluators import evaluator_outcomes
    read = set()
    for mk_, o_ in evaluator_outcomes(chk, ps, "stored").items():
        for call in o_.get("get_full_model_x", []):
            read |= {a_ for a_ in call[2:]}
        for call in o_.get("full_model", []):
            read |= {t_ for t_ in ("T_min", "T_max") if t_ in call[7]}
    r4.require(set(written) == read == {"T_min", "T_max", "T_min_seg", "T_max_seg"}, f"{cp.key}|limits-keys", cp.where(), f"temperature limits written {sorted(written)} vs read {sorted(read)}")
    for k, v in written.items():
        r4.require(v == f"submodel.{k}", f"{cp.key}|limit:{k}", cp.where(), f"recorded limit `{k}` must be the component's own {k}; found `{v}`", sample={"key": k, "source": v})
    oi = chk.repo.func(OR, "OptimizedResult.__init__")
    t = unparse(oi.node)
    r4.require("[self.T_min, self.T_max], [self.T_min_seg, self.T_max_seg] = get_T_bnds(T, settings)" in t.replace("(", "").replace(")", "").replace("get_T_bndsT, settings", "get_T_bnds(T, settings)") or
               ("get_T_bnds(T, settings)" in t and "self.T_min" in t and "self.T_max_seg" in t), f"{oi.key}|limits-from-own-T", oi.where(), "a component's temperature limits must come from get_T_bnds of its own T")
    gt = chk.repo.func(BM, "get_T_bnds")
    tt = unparse(gt.node)
    r4.require("T_min = np.min(T)" in tt and "T_max = np.max(T)" in tt and "np.partition(T, n_min_seg)[n_min_seg]" in tt and "np.partition(T, -n_min_seg)[-n_min_seg]" in tt and "return ([T_min, T_max], [T_min_seg, T_max_seg])" in tt,
               f"{gt.key}|definition", gt.where(), "get_T_bnds must return ([min, max], [n-th smallest, n-th largest]) of T")

    # ------------------------------------------------------------------ R12.5
    def pipeline(f: FuncInfo) -> List[str]:
        seq = []
        for c in sorted(calls_in(f.node), key=lambda c: (c.lineno, c.col_offset)):
            fn = unparse(c.func)
            if fn in ("get_full_model_x", "fix_full_model_x"):
                seq.append("swap/fix")
            elif fn == "get_smooth_coeffs":
                seq.append("smooth")
            elif fn in ("full_model", "_hdd_tidd_cdd_smooth"):
                seq.append("kernel(swap inside)")
        return seq
    sc = chk.repo.func(HTC, "evaluate_hdd_tidd_cdd_smooth")
    rb = chk.repo.func(OR, "OptimizedResult.eval")
    a, b = pipeline(sc), pipeline(rb)
    r5.require(bool(a) and bool(b), "pipelines|extracted", sc.where(), f"could not extract the transform pipelines ({a} / {b})")
    # the scoring path must apply the same pre-kernel transforms in the same order as the read-back path
    strip = lambda seq: [x for x in seq if x != "kernel(swap inside)"]
    r5.require(strip(a) == strip(b), "pipeline|scoring(evaluate_hdd_tidd_cdd_smooth)~read-back(OptimizedResult.eval)", sc.where(),
               f"the optimiser scores the curve {a} (smoothing applied to the raw, possibly crossed, balance points; ordering only inside the kernel) but the stored coefficients are evaluated as {b} "
               f"(ordering first, then smoothing): for a vector with hdd_bp > cdd_bp the stored curve is not the curve that was scored", sample={"scoring": a, "read_back": b})

    # ------------------------------------------------------------------ R12.6 (shared with C11/R11.4 and C01/R01.9)
    # The read-back wrappers (fix_full_model_x / get_full_model_x) and the scorer's kernel (full_model) must apply the *same*
    # reordering: balance points, slopes and smoothing swapped together, same sign convention and clamps.
    r6 = chk.rule("R12.6", "the kept coefficients are turned into a curve by wrappers that reorder exactly like the scoring kernel (all three pairs swapped together, same clamps)", 6)
    from rules.c11 import check_kernel_wrappers
    check_kernel_wrappers(chk, r6)
