"""Recording columns and frames shared by the rules that interpret frame-building code (C09, C10): pandas operations on a column build
terms over the columns the frame started with; stores are applied in program order."""
from __future__ import annotations

from typing import Any, Dict

from engine.absint import Term
from engine.pyinterp import Function, InterpRaised, Stub, Unsupported


class CT(Term):
    """A recording column / series / scalar of the sufficiency frame: pandas operations build terms."""
    __hash__ = Term.__hash__

    def __init__(self, op, *args, oracle=None):
        super().__init__(op, *args)
        self._oracle = oracle

    def _mk(self, op, *args):
        orc = self._oracle
        for a in args:
            orc = orc or getattr(a, "_oracle", None)
        return CT(op, *args, oracle=orc)

    def _sorted(self, op, o):
        a, b = sorted([self, o], key=lambda t: t.key() if isinstance(t, Term) else repr(t))
        return self._mk(op, a, b)

    def __eq__(self, o): return self._mk("eq", self, o)
    def __ne__(self, o): return self._mk("not", self._mk("eq", self, o))
    def __lt__(self, o): return self._mk("lt", self, o)
    def __le__(self, o): return self._mk("le", self, o)
    def __gt__(self, o): return self._mk("gt", self, o)
    def __ge__(self, o): return self._mk("ge", self, o)
    def __and__(self, o): return self._sorted("and", o)
    __rand__ = __and__
    def __or__(self, o): return self._sorted("or", o)
    __ror__ = __or__
    def __invert__(self): return self.args[0] if self.op == "not" else self._mk("not", self)
    def __mul__(self, o): return self._sorted("mul", o)
    __rmul__ = __mul__
    def __add__(self, o): return self._sorted("add", o)
    __radd__ = __add__
    def __sub__(self, o): return self._mk("sub", self, o)
    def __rsub__(self, o):
        if o in (1, 1.0) and self.op == "astype" and self.args[1] == "float":  # 1 - flag is the flag of the negation
            return self._mk("astype", ~self.args[0], "float")
        return self._mk("sub", o, self)
    def __truediv__(self, o): return self._mk("div", self, o)
    def __rtruediv__(self, o): return self._mk("div", o, self)

    def __getitem__(self, k):
        if isinstance(k, CT):
            return self._mk("take", self, k)
        raise Unsupported("column[...] with a key that is not a recording mask")

    def notnull(self): return self._mk("notna", self)
    notna = notnull
    def isnull(self): return self._mk("not", self._mk("notna", self))
    isna = isnull

    def mask(self, cond, other=None):
        if other is not None and not (isinstance(other, float) and other != other):
            raise Unsupported("mask() with a replacement value on a recording column")
        return self._mk("blank", self, cond)

    def where(self, cond, other=None):
        if other is not None and not (isinstance(other, float) and other != other):
            raise Unsupported("where() with a replacement value on a recording column")
        return self._mk("blank", self, ~cond if isinstance(cond, CT) else cond)

    def dropna(self): return self._mk("dropna", self)
    def count(self): return self._mk("count", self)

    @property
    def size(self): return self._mk("size", self)

    @property
    def shape(self): return _Shape(self)

    def _abs_len(self): return self._mk("size", self)

    def replace(self, a, b=None, **k):
        if k or isinstance(a, (dict, list, CT)):
            raise Unsupported("replace() other than replace(value, value) on a recording column")
        if isinstance(b, float) and b != b:
            return self._mk("blank", self, self._mk("eq", self, a))
        return self._mk("replace", self, a, b)

    @property
    def empty(self): return self._mk("empty", self)

    def sum(self, *a, **k):
        if a or k:
            raise Unsupported("sum() with arguments on a recording column")
        return self._mk("sum", self)

    def mean(self, *a, **k):
        if a or k:
            raise Unsupported("mean() with arguments on a recording column")
        return self._mk("mean", self)

    def min(self): return self._mk("min", self)
    def max(self): return self._mk("max", self)
    def any(self): return self._mk("any", self)
    def all(self): return self._mk("all", self)
    def astype(self, t):
        name = getattr(t, "__name__", t)
        name = {"float64": "float", "int64": "int"}.get(name, name)
        return self if name in ("int", "float") and self.op in ("sum",) else self._mk("astype", self, name)

    def _abs_cast(self, name):
        # int() / float() of a total of whole day counts is that total
        return self

    def groupby(self, by, **k):
        if k:
            raise Unsupported("groupby() with keyword arguments on a recording column")
        return self._mk("groupby", self, by)

    def apply(self, f):
        from engine.absint import symbolic_apply
        if self.op != "groupby":
            raise Unsupported("apply() on a recording column that is not grouped")
        r = f(CT("x")) if isinstance(f, Function) else None
        if not isinstance(r, Term):
            raise Unsupported("apply() with a function that does not reduce the group to a term")
        return self._mk("apply", self, r)

    def transform(self, f):
        raise Unsupported("transform() on a recording column")

    @property
    def month(self): return self._mk("month", self)

    def copy(self, deep=True): return self

    def __getattr__(self, name):
        # any other pandas method: recorded by name with its arguments (the result is a term the judges will not recognise)
        if name.startswith("_") or name in ("key", "groups"):
            raise AttributeError(name)
        me = self

        class _Rec(Stub):
            def _abs_call(self_, *a, **k):
                return me._mk(name, me, *[_arg(x) for x in a], *[f"{kk}={_arg(v)!r}" for kk, v in sorted(k.items())])
        return _Rec()

    def __bool__(self):
        if self._oracle is None:
            raise Unsupported(f"truth value of the recording term {self.key()[:80]}")
        return self._oracle.choose(self.key())


class _Shape(Stub):
    """series.shape: only its first entry (the number of rows) is meaningful."""

    def __init__(self, of: CT):
        self._of = of

    def __getitem__(self, i):
        if i == 0:
            return self._of._mk("size", self._of)
        raise Unsupported("shape[...] other than shape[0] of a recording column")


def _arg(x):
    if isinstance(x, Term):
        return x
    if isinstance(x, float) and x != x:
        return "nan"
    if isinstance(x, (int, float, str, bool, type(None))):
        return x
    what = getattr(x, "_what", None)   # an opaque settings value: named after where it was read from
    if isinstance(what, str):
        return CT(what)
    return type(x).__name__


class CFrame(Stub):
    """A recording frame: columns are symbols; row-dropping frame operations (dropna, mask selection) are part of the columns' names, so a
    column read after them is a different term from the plain column."""

    def __init__(self, columns, oracle=None, via: str = ""):
        self._columns, self._oracle, self._via = list(columns), oracle, via

    def _col(self, c):
        if c not in self._columns:
            raise InterpRaised("KeyError", str(c))
        return CT(f"col:{c}{self._via}", oracle=self._oracle)

    def __getitem__(self, c):
        if isinstance(c, str):
            return self._col(c)
        if isinstance(c, list) and all(isinstance(x, str) for x in c):
            return CFrame(c, self._oracle, self._via)
        if isinstance(c, CT):
            return CFrame(self._columns, self._oracle, self._via + f"@rows[{c.key()}]")
        raise Unsupported("frame[...] with a key that is neither a column, a column list nor a recording mask")

    def dropna(self, **k):
        args = ", ".join(f"{a}={v!r}" for a, v in sorted(k.items()))
        return CFrame(self._columns, self._oracle, self._via + f"@dropna({args})")

    def copy(self, deep=True):
        return self

    @property
    def empty(self):
        return CT("empty", CT(f"frame{self._via}"), oracle=self._oracle)

    def _abs_len(self):
        return CT("len", CT(f"frame{self._via}"), oracle=self._oracle)

    def __getattr__(self, name):
        if name.startswith("_"):
            raise AttributeError(name)
        if name in self.__dict__.get("_columns", ()):
            return self._col(name)
        raise AttributeError(name)

    @property
    def columns(self):
        return list(self._columns)

    @property
    def index(self):
        return CT(f"index{self._via}", oracle=self._oracle)


class SFrame(Stub):
    """A frame whose columns are terms over the columns it started with; stores and .loc[mask, col] = nan are applied in order;
    `rows` lists the row-selecting operations applied so far."""
    _settable = True

    def __init__(self, cols: Dict[str, Any], oracle=None, events=None, index=None, rows=None):
        self._cols, self._oracle, self._events = dict(cols), oracle, events if events is not None else []
        self._rows = list(rows or [])
        self.index = index if index is not None else CT("index", oracle=oracle)

    @classmethod
    def start(cls, columns, oracle=None, index=None):
        return cls({c: CT(f"col:{c}", oracle=oracle) for c in columns}, oracle, index=index)

    def _new(self, cols=None, rows=None):
        return SFrame(self._cols if cols is None else cols, self._oracle, self._events, self.index, self._rows if rows is None else rows)

    def __getitem__(self, c):
        if isinstance(c, str):
            if c not in self._cols:
                raise InterpRaised("KeyError", c)
            return self._cols[c]
        if isinstance(c, list) and all(isinstance(x, str) for x in c):
            return self._new(cols={k: self[k] for k in c})
        if isinstance(c, CT):
            return self._new(rows=self._rows + [f"select({c.key()})"])
        raise Unsupported("frame[...] with a key that is neither a column, a list of columns nor a recording mask")

    def __setitem__(self, c, v):
        if not isinstance(c, str):
            raise Unsupported("frame[...] = ... with a non-column key on the state frame")
        self._cols[c] = v

    def __getattr__(self, name):
        if name.startswith("_"):
            raise AttributeError(name)
        if name in self.__dict__.get("_cols", {}):
            return self._cols[name]
        raise AttributeError(name)

    @property
    def columns(self):
        return list(self._cols)

    @property
    def loc(self):
        return _SLoc(self)

    def copy(self, deep=True):
        return self._new()

    def drop(self, columns=None, **k):
        if columns is None or k:
            raise Unsupported("drop() other than drop(columns=[...]) on the state frame")
        return self._new(cols={c: v for c, v in self._cols.items() if c not in ([columns] if isinstance(columns, str) else list(columns))})

    def replace(self, a, b=None, **k):
        if k or isinstance(a, (dict, list)):
            raise Unsupported("replace() other than replace(value, value) on the state frame")
        return self._new(cols={c: (v.replace(a, b) if isinstance(v, CT) else v) for c, v in self._cols.items()})

    def rowop(self, what: str):
        return self._new(rows=self._rows + [what])


def _lit(v):
    return "nan" if isinstance(v, float) and v != v else v


class _SLoc(Stub):
    def __init__(self, fr):
        self._fr = fr

    def __setitem__(self, k, v):
        if not (isinstance(k, tuple) and len(k) == 2 and isinstance(k[0], CT) and isinstance(k[1], str)):
            raise Unsupported("frame.loc[...] = ... other than loc[mask, column] on the state frame")
        if not (isinstance(v, float) and v != v):
            raise Unsupported("frame.loc[mask, column] = <a value other than NaN> on the state frame")
        self._fr._cols[k[1]] = self._fr[k[1]]._mk("blank", self._fr[k[1]], k[0])
