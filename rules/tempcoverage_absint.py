"""The sub-daily, non-hourly temperature route of `_compute_temperature_features` (daily and billing data classes) under the one-row
abstraction (engine/rowabs.py): as_freq hands back a day of mean temperature T and coverage c; what the method returns for that day
and which warnings it files are read off for every c on each side of one half (C09 R09.3: a day with half or fewer of its readings is
missing, and is reported).  Named masks, `.any()` instead of `len(frame[mask]) > 0`, constants, `.loc` - none of it matters."""
from __future__ import annotations

import math
from typing import Any, Dict, List

from engine.absint import AbsObj, ClassRef, ModuleEnv, Opaque
from engine.index import AnalysisError
from engine.pyinterp import Function, Interp, InterpRaised, Stub, StubCall, Unsupported
from rules.common import bind_like
from engine.rowabs import ABSENT, Idx, Mask, NPRow, PDRow, RowFrame, Ser

COVERAGES = [0.0, 0.25, 0.5, 0.5000001, 0.75, 1.0]
T_MEAN = 61.5
W_MISSING = "eemeter.sufficiency_criteria.missing_high_frequency_temperature_data"


class _Freq(Stub):
    """index.freq of a half-hourly feed: not 'h', not 'D', not longer than an hour, not a month offset."""

    def __eq__(self, o):
        return o in ("30min", "30T")

    def __ne__(self, o):
        return not self.__eq__(o)

    def __gt__(self, o):
        return False          # 30 minutes is not longer than any Timedelta the code compares with (one hour, one day)

    def __ge__(self, o):
        return False

    def __lt__(self, o):
        return True

    def __le__(self, o):
        return True

    __hash__ = None

    def _abs_isinstance(self, t):
        # a half-hourly frequency is a fixed-length offset (Tick / Minute), not a calendar one (MonthEnd, MonthBegin, Day in pandas 3)
        ts = t if isinstance(t, tuple) else (t,)
        return any(isinstance(x, ClassRef) and x.name in ("Tick", "Minute", "DateOffset", "BaseOffset") for x in ts)


class _TIdx(Idx):
    _settable = True

    def __init__(self):
        super().__init__(True)
        self.__dict__["freq"] = None
        self.__dict__["inferred_freq"] = _Freq()
        self.__dict__["tz"] = Opaque("tz")

    def __setattr__(self, k, v):
        self.__dict__[k] = v


class _TSeries(Ser):
    """The temperature column of the input frame (a reading of the generic day); its index carries the feed's frequency."""

    def __init__(self, v):
        super().__init__(v)
        self.__dict__["_idx"] = _TIdx()

    @property
    def index(self):
        return self.__dict__["_idx"]


class _In(Stub):
    def __init__(self):
        self.t = _TSeries(T_MEAN)

    def __getitem__(self, k):
        if k == "temperature":
            return self.t
        raise Unsupported(f"input column {k}")


class _Offsets(Stub):
    Tick = ClassRef("Tick")
    Minute = ClassRef("Minute")
    Hour = ClassRef("Hour")
    Day = ClassRef("Day")
    DateOffset = ClassRef("DateOffset")
    BaseOffset = ClassRef("BaseOffset")
    MonthEnd = ClassRef("MonthEnd")
    MonthBegin = ClassRef("MonthBegin")


class _TSeriesNS(Stub):
    offsets = _Offsets()


class _PD(PDRow):
    tseries = _TSeriesNS()
    offsets = _Offsets()

    @staticmethod
    def Timedelta(*a, **k):
        return Opaque("Timedelta")


def outcomes(chk, fi) -> List[Dict[str, Any]]:
    out = []
    af = chk.repo.func("opendsm.eemeter.common.data_processor_utilities", "as_freq")
    for c in COVERAGES:
        seen: Dict[str, Any] = {}
        holder: Dict[str, Any] = {}

        def as_freq(*a, **k):
            vals = bind_like(af, a, k)
            seen["calls"] = seen.get("calls", 0) + 1
            seen["as_freq"] = {"freq": vals.get("freq"), "series_type": vals.get("series_type", "cumulative"), "include_coverage": vals.get("include_coverage", False),
                               "atomic_freq": vals.get("atomic_freq", "1 Min"), "data_is_temperature_column": vals.get("data_series") is holder.get("t"), "calls": seen["calls"]}
            return RowFrame({"value": T_MEAN, "coverage": c})
        warned: List[Any] = []
        me = AbsObj({"_DailyData", "_BillingData"}, warnings=warned, disqualification=[])
        it = Interp(step_limit=50_000)
        env = ModuleEnv(chk.repo, fi.module, it, {"as_freq": StubCall(as_freq), "np": NPRow(), "numpy": NPRow(), "pd": _PD(), "pandas": _PD(),
                                                  "EEMeterWarning": StubCall(lambda **k: k.get("qualified_name")), "MonthEnd": ClassRef("MonthEnd"), "MonthBegin": ClassRef("MonthBegin")})
        try:
            inp = _In()
            holder["t"] = inp.t
            res = Function(fi.node, env, it)(me, inp, Idx(True))
        except InterpRaised as e:
            out.append({"coverage": c, "raises": e.exc_name})
            continue
        except Unsupported as e:
            raise AnalysisError(f"{fi.key}: the sub-daily temperature route uses an operation outside the one-row abstraction: {e}")
        if not (isinstance(res, tuple) and len(res) == 2 and isinstance(res[0], Ser)):
            out.append({"coverage": c, "returns": repr(res)[:80]})
            continue
        v = res[0].v
        out.append({"coverage": c, "present": v is not ABSENT, "value": None if (v is ABSENT or (isinstance(v, float) and math.isnan(v))) else v,
                    "warned": list(warned), "as_freq": seen.get("as_freq")})
    return out
