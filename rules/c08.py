"""C08 — usage is conserved when meter data is resampled to days (threshold / aggregation-kind clauses)."""
from __future__ import annotations

import ast
from typing import Dict, List, Optional, Set, Tuple

from engine.cfg import CFG
from engine.dataflow import ReachingDefs
from engine.index import AnalysisError, FuncInfo, calls_in, const_str, kwarg, unparse, walk_no_nested
from rules.common import BILLING_DATA, DAILY_DATA
from rules.kinds import DPU, as_freq_branches, frame_kind, mask_terms, rescale_sites


def run(chk):
    chk.explanation = (
        "Threshold tables (operator + constant, normalised through operand order and chained comparisons): off-cycle rules of "
        "clean_billing_data (monthly keep 25 <= d <= 35, bi-monthly 25 <= d <= 70, warning on the complement), the 50 % coverage rule of "
        "downsample_and_clean_daily_data (keep > 0.5, warn on <= 0.5, complementary), the granularity cut points of "
        "compute_minimum_granularity.  Aggregation-kind typing: as_freq's cumulative branch aggregates the spread series with sum and counts "
        "coverage with count, the instantaneous branch aggregates with mean; `value / coverage` is required for, and only applied to, frames "
        "whose value is a sum.  Interval spreading uses each reading's own forward interval.")
    chk.not_decided += ["the conservation sums themselves (cumulative spreading through the 1-minute series, DST days, the open final interval): pandas resampling arithmetic"]
    chk.trusted += ["Resampler.sum / mean / count aggregate the atomic samples of each target period"]
    r1 = chk.rule("R08.1", "threshold table: off-cycle 25/35/70-day rules, 50 % coverage rule, granularity cut points (operator and constant)", 14)
    r2 = chk.rule("R08.2", "aggregation-kind typing: cumulative -> sum (+count coverage), instantaneous -> mean; value/coverage only on sums and always on kept sums; kept/blanked masks complementary", 6)
    r3 = chk.rule("R08.3", "spreading uses each reading's own interval; billing usage is spread with the cumulative branch and the open final row is dropped", 5)

    # ------------------------------------------------------------------ R08.1 clean_billing_data
    cb = chk.repo.func(DPU, "clean_billing_data")
    cfg = CFG(cb.node)
    spec = {"billing_monthly": (25.0, 35.0), "billing_bimonthly": (25.0, 70.0)}
    found: Dict[str, Dict[str, object]] = {}
    for s in cfg.stmts():
        gl = [const_str(t.comparators[0]) for t, pol in cfg.guards(s) if pol and isinstance(t, ast.Compare) and unparse(t.left) == "source_interval" and isinstance(t.ops[0], ast.Eq)]
        if not gl:
            continue
        iv = gl[0]
        if isinstance(s, ast.Assign) and unparse(s.targets[0]) == "data" and isinstance(s.value, ast.Call) and isinstance(s.value.func, ast.Attribute) and s.value.func.attr == "reindex":
            sub = s.value.func.value
            if isinstance(sub, ast.Subscript):
                found.setdefault(iv, {})["keep"] = (mask_terms(sub.slice), s)
        if isinstance(s, ast.If) and "len(data[" in unparse(s.test):
            sub = [n for n in ast.walk(s.test) if isinstance(n, ast.Subscript) and unparse(n.value) == "data"]
            if sub:
                found.setdefault(iv, {})["warn"] = (mask_terms(sub[0].slice), s)
    for iv, (lo, hi) in spec.items():
        k = found.get(iv, {}).get("keep")
        w = found.get(iv, {}).get("warn")
        want_keep = ("and", {("filter_", "<=", hi), ("filter_", ">=", lo)})
        want_warn = ("or", {("filter_", ">", hi), ("filter_", "<", lo)})
        r1.require(k is not None and k[0] == want_keep, f"{cb.key}|{iv}|keep", cb.where(k[1]) if k else cb.where(),
                   f"clean_billing_data ({iv}): periods kept must be {lo:g} <= days <= {hi:g}; found {k[0] if k else None}", sample={"interval": iv, "keep": sorted(k[0][1]) if k and k[0] else None})
        r1.require(w is not None and w[0] == want_warn, f"{cb.key}|{iv}|warn", cb.where(w[1]) if w else cb.where(),
                   f"clean_billing_data ({iv}): the off-cycle warning must fire on the complement (days > {hi:g} or days < {lo:g}); found {w[0] if w else None}")
    t = unparse(cb.node)
    r1.require("diff = list((data.index[1:] - data.index[:-1]).days)" in t and "filter_ = pd.Series(diff + [np.nan], index=data.index)" in t, f"{cb.key}|period-length", cb.where(),
               "period length must be the forward difference of the read dates in days, aligned on the period's start")
    # downsample 50 % rule
    ds = chk.repo.func(DPU, "downsample_and_clean_daily_data")
    t = unparse(ds.node)
    masks = []
    for n in ast.walk(ds.node):
        if isinstance(n, ast.Subscript) and unparse(n.value) in ("dataset", "dataset.loc"):
            sl = n.slice.elts[0] if isinstance(n.slice, ast.Tuple) else n.slice
            m = mask_terms(sl)
            if m is not None:
                masks.append((m, n))
    kinds = {tuple(sorted(m[1])) for m, n in masks}
    r1.require(kinds == {(("dataset.coverage", "<=", 0.5),), (("dataset.coverage", ">", 0.5),)}, f"{ds.key}|coverage-masks", ds.where(),
               f"downsample_and_clean_daily_data must use exactly the complementary masks coverage > 0.5 (keep) and coverage <= 0.5 (warn); found {sorted(kinds)}", sample={"masks": sorted(map(str, kinds))})
    rets = [s for s in walk_no_nested(ds.node) if isinstance(s, ast.Return)]
    r1.require(len(rets) == 1 and unparse(rets[0].value) == "dataset[dataset.coverage > 0.5].reindex(dataset.index)[['value']]", f"{ds.key}|returns-kept-reindexed", ds.where(),
               "days covered for half or less must come back missing: return dataset[coverage > 0.5].reindex(dataset.index)[['value']]")
    r1.require("dataset = as_freq(dataset, 'D', include_coverage=True)" in t, f"{ds.key}|daily-cumulative", ds.where(), "sub-daily usage must be aggregated with as_freq(..., 'D', include_coverage=True) (cumulative)")
    # granularity cut points
    cg = chk.repo.func(DPU, "compute_minimum_granularity")
    gd = [n for n in ast.walk(cg.node) if isinstance(n, ast.Dict) and len(n.keys) == 4]
    table = {}
    if gd:
        for k, v in zip(gd[0].keys, gd[0].values):
            m = mask_terms(k)
            table[const_str(v)] = m
    want = {"hourly": ("atom", {("median_difference", "<", 1.0)}), "daily": ("atom", {("median_difference", "==", 1.0)}),
            "billing_monthly": ("and", {("median_difference", ">", 1.0), ("median_difference", "<=", 35.0)}),
            "billing_bimonthly": ("and", {("median_difference", ">", 35.0), ("median_difference", "<=", 70.0)})}
    for g, m in want.items():
        r1.require(table.get(g) == m, f"{cg.key}|median:{g}", cg.where(), f"compute_minimum_granularity: `{g}` must be selected by {sorted(m[1])}; found {table.get(g)}", sample={"granularity": g, "rule": sorted(m[1])})
    ccfg = CFG(cg.node)
    chain = {}
    for s in ccfg.stmts():
        if isinstance(s, ast.Assign) and unparse(s.targets[0]) == "min_granularity" and const_str(s.value):
            conds = [(unparse(tt), pol) for tt, pol in ccfg.guards(s) if "index.freq" in unparse(tt) and "is None" not in unparse(tt)]
            chain.setdefault(const_str(s.value), []).append(conds)
    def has(g, txt, pol=True):
        return any((txt, pol) in c for c in chain.get(g, []))
    r1.require(has("hourly", "index.freq <= pd.Timedelta(hours=1)"), f"{cg.key}|freq:hourly", cg.where(), "inferred frequency <= 1 hour must be `hourly`")
    r1.require(has("daily", "index.freq <= pd.Timedelta(days=1)") and has("daily", "index.freq <= pd.Timedelta(hours=1)", False), f"{cg.key}|freq:daily", cg.where(), "inferred frequency in (1 hour, 1 day] must be `daily`")
    r1.require(has("billing_monthly", "index.freq <= pd.Timedelta(days=30)") and has("billing_monthly", "index.freq <= pd.Timedelta(days=1)", False), f"{cg.key}|freq:monthly", cg.where(), "inferred frequency in (1 day, 30 days] must be `billing_monthly`")
    r1.require(has("billing_bimonthly", "index.freq <= pd.Timedelta(days=30)", False), f"{cg.key}|freq:bimonthly", cg.where(), "longer inferred frequencies must be `billing_bimonthly`")
    r1.require(has("billing_monthly", "index.freq.n == 1") and has("billing_bimonthly", "index.freq.n == 1", False), f"{cg.key}|freq:month-offsets", cg.where(), "MonthBegin/MonthEnd with n == 1 is monthly, otherwise bi-monthly")

    # ------------------------------------------------------------------ R08.2
    br = as_freq_branches(chk)
    af = chk.repo.func(DPU, "as_freq")
    r2.require(br.get("cumulative") == {"value": "sum", "coverage": "count"}, f"{af.key}|cumulative-branch", af.where(),
               f"as_freq(series_type='cumulative') must aggregate the spread series with sum and count its coverage; found {br.get('cumulative')}", sample={"branch": "cumulative", "aggregators": br.get("cumulative")})
    r2.require(br.get("instantaneous") == {"value": "mean", "coverage": "count"}, f"{af.key}|instantaneous-branch", af.where(),
               f"as_freq(series_type='instantaneous') must aggregate with mean; found {br.get('instantaneous')}", sample={"branch": "instantaneous", "aggregators": br.get("instantaneous")})
    d = af.param_defaults().get("series_type")
    r2.require(d is not None and const_str(d) == "cumulative", f"{af.key}|default-cumulative", af.where(), "as_freq's default series_type must be cumulative (meter data)")
    t = unparse(af.node)
    r2.require("resampled['coverage'] = n_coverage / n_total" in t, f"{af.key}|coverage-definition", af.where(), "coverage must be the number of atomic samples present divided by the number in the period")
    r2.require("resampled = resampled[resampled_with_nans.notnull()].reindex(resampled.index)" in t, f"{af.key}|all-missing-stays-missing", af.where(), "a target period with no data must stay missing (sum of nothing is not 0 usage)")
    sites = rescale_sites(chk, ds)
    r2.require(len(sites) == 1, f"{ds.key}|rescale-present", ds.where(), "a day covered for more than half must be scaled by 1/coverage: dataset.value / dataset.coverage on the kept rows")
    for s, base in sites:
        kinds_ = frame_kind(chk, ds, s, base, br)
        r2.require(kinds_ == {"sum"}, f"{ds.key}|rescale-on-sum", ds.where(s), f"value/coverage in downsample_and_clean_daily_data is applied to a frame of kind {sorted(kinds_)} (must be a sum)")
        tgt = s.targets[0]
        ok = isinstance(tgt, ast.Subscript) and unparse(tgt).replace('"', "'") == "dataset.loc[dataset.coverage > 0.5, 'value']" and "dataset[dataset.coverage > 0.5].value / dataset[dataset.coverage > 0.5].coverage" in unparse(s.value)
        r2.require(ok, f"{ds.key}|rescale-on-kept-rows", ds.where(s), "the 1/coverage scaling must be applied to exactly the kept rows (coverage > 0.5), value column only")
    # no other function divides usage by coverage
    n_other = 0
    for f in chk.repo.all_functions():
        if f.key == ds.key or f.module.name.endswith("sufficiency_criteria"):
            continue
        for s, base in rescale_sites(chk, f):
            kinds_ = frame_kind(chk, f, s, base, br)
            n_other += 1
            r2.require(kinds_ == {"sum"}, f"{f.key}|rescale-on-{'+'.join(sorted(kinds_)) or 'unknown'}", f.where(s),
                       f"{f.qualname}: `value / coverage` is applied to a frame whose value is {sorted(kinds_)}; only sums may be rescaled by coverage", sample={"function": f.qualname, "kind": sorted(kinds_)})
    r2.inst(f"package|other-rescale-sites={n_other}")

    # ------------------------------------------------------------------ R08.3
    t = unparse(af.node)
    r3.require("timedeltas = (series.index[1:] - series.index[:-1]).append(pd.TimedeltaIndex([pd.NaT]))" in t, f"{af.key}|own-forward-interval", af.where(),
               "each reading's interval must be the forward difference to the next timestamp (the last interval is open)")
    r3.require("spread_factor = target_freq.total_seconds() / timedeltas.total_seconds()" in t and "series_spread = series * spread_factor" in t, f"{af.key}|spread-factor", af.where(),
               "a reading must be spread as value * (atomic interval / own interval)")
    r3.require("atomic_series = series_spread.asfreq(atomic_freq, method='ffill')" in t, f"{af.key}|constant-rate", af.where(), "the spread rate must be carried forward over the reading's interval (ffill)")
    r3.require("series = remove_duplicates(data_series)" in t, f"{af.key}|dedup", af.where(), "as_freq must de-duplicate its input first")
    bm = chk.repo.func(BILLING_DATA, "_BillingData._compute_meter_value_df")
    t = unparse(bm.node)
    r3.require("meter_value_df = as_freq(meter_value_df['value'], 'D').to_frame('value')" in t and "meter_value_df = meter_value_df[:-1]" in t, f"{bm.key}|spread-to-days", bm.where(),
               "billing usage must be spread to days with the cumulative branch and the open-ended final row dropped")
    r3.require("meter_series[end_date + pd.Timedelta(days=1)] = np.nan" in t, f"{bm.key}|final-nan-convention", bm.where(), "the final period must be closed by a NaN row one day after the last covered day")
