"""C08 — usage is conserved when meter data is resampled to days (threshold / aggregation-kind clauses)."""
from __future__ import annotations

import ast
from typing import Dict, List, Optional, Set, Tuple

from engine.cfg import CFG
from engine.dataflow import ReachingDefs
from engine.index import AnalysisError, FuncInfo, calls_in, const_str, kwarg, unparse, walk_no_nested
from rules.common import BILLING_DATA, DAILY_DATA
from engine.pattern import PatCtx, make_resolver
from rules.kinds import DPU, as_freq_branches, frame_kind, mask_terms, rescale_sites


def run(chk):
    chk.explanation = (
        "Threshold tables (operator + constant, normalised through operand order and chained comparisons): off-cycle rules of "
        "clean_billing_data (monthly keep 25 <= d <= 35, bi-monthly 25 <= d <= 70, warning on the complement), the 50 % coverage rule of "
        "downsample_and_clean_daily_data (keep > 0.5, warn on <= 0.5, complementary), the granularity cut points of "
        "compute_minimum_granularity.  Aggregation-kind typing: as_freq's cumulative branch aggregates the spread series with sum and counts "
        "coverage with count, the instantaneous branch aggregates with mean; `value / coverage` is required for, and only applied to, frames "
        "whose value is a sum.  Interval spreading uses each reading's own forward interval.")
    chk.not_decided += ["the conservation sums themselves (cumulative spreading through the 1-minute series, DST days, the open final interval): pandas resampling arithmetic"]
    chk.trusted += ["Resampler.sum / mean / count aggregate the atomic samples of each target period"]
    r1 = chk.rule("R08.1", "threshold table: off-cycle 25/35/70-day rules, 50 % coverage rule, granularity cut points (operator and constant)", 14)
    r2 = chk.rule("R08.2", "aggregation-kind typing: cumulative -> sum (+count coverage), instantaneous -> mean; value/coverage only on sums and always on kept sums; kept/blanked masks complementary", 6)
    r3 = chk.rule("R08.3", "spreading uses each reading's own interval; billing usage is spread with the cumulative branch and the open final row is dropped", 5)
    r4 = chk.rule("R08.4", "gaps reach the coverage rule: the usage series the daily data class hands to the down-sampling helper still carries its missing readings, so a thinly covered day can be rescaled or blanked", 1)
    # _DailyData._compute_meter_value_df interpreted on recording values (rules/daycompletion.py): the first argument of the cleaning /
    # down-sampling call is read off the term.  A reading that is NaN and dropped beforehand is not a gap to as_freq any more: the
    # previous reading is spread over it, the day counts as fully covered and its total is neither divided by the coverage nor blanked.
    from engine.absint import Sym, sym_walk, canon
    from rules import daycompletion
    from rules.common import DAILY_DATA
    mvf = chk.repo.func(DAILY_DATA, "_DailyData._compute_meter_value_df")
    n_calls = 0
    for o in daycompletion.outcomes(chk):
        if "raises" in o:
            continue
        for sx in sym_walk(o["result"]):
            if isinstance(sx, Sym) and sx._op == "call" and isinstance(sx._args[0], Sym) and sx._args[0].key() == "clean_billing_daily_data" and sx._args[1]:
                n_calls += 1
                arg = canon(sx._args[1][0])
                lossy = [m for m in (".dropna(", ".fillna(", ".ffill(", ".bfill(", ".interpolate(", ".notna()", ".notnull()", "isna()", "isnull()") if m in arg]
                for op_ in lossy or [None]:
                    nm_ = op_.strip(".()") if op_ else "-"
                    r4.require(op_ is None, f"{mvf.key}|usage-gaps-lost-before-coverage:{nm_}", mvf.where(),
                               f"_compute_meter_value_df hands `{arg[:120]}` to clean_billing_daily_data: missing readings are removed or filled ({nm_}) before the coverage of each day is counted, so "
                               "a sub-daily meter's day with 25 % of its readings comes back as the plain sum of those readings (not missing) and a day with 75 % is not divided by its coverage",
                               sample={"argument": arg[:120]})
    if n_calls < 1:
        raise AnalysisError(f"{mvf.key}: no call of clean_billing_daily_data found in the interpreted result (anchor changed)")

    # ------------------------------------------------------------------ R08.1 clean_billing_data
    # interpreted under the one-row abstraction (rules/billingclean_absint.py): an interior billing period of d days, for d on each side of
    # every published limit and both granularities: the period's usage is kept iff lo <= d <= hi, otherwise it stays a row holding NaN and
    # the off-cycle warning fires
    cb = chk.repo.func(DPU, "clean_billing_data")
    from rules.billingclean_absint import VALUE as BVALUE, outcomes as billing_clean_outcomes
    spec = {"billing_monthly": (25, 35), "billing_bimonthly": (25, 70)}
    OFFW = "eemeter.sufficiency_criteria.offcycle_reads_in_billing_monthly_data"
    bad_keep: Dict[str, List[str]] = {}
    bad_warn: Dict[str, List[str]] = {}
    spring_bad: Dict[str, List[int]] = {}
    n_bc = 0
    for o in billing_clean_outcomes(chk):
        n_bc += 1
        iv, d = o["interval"], o["days"]
        lo, hi = spec[iv]
        want = lo <= d <= hi
        if "raises" in o or "returns" in o:
            bad_keep.setdefault(iv, []).append(f"a period of {d} days: {o.get('raises') or o.get('returns')}")
            continue
        if o.get("span") == "spring":
            # the same read calendar across the spring clock change: d calendar days last one hour less
            if want != bool(o["kept"]):
                spring_bad.setdefault(iv, []).append(d)
            continue
        if want and not o["kept"]:
            bad_keep.setdefault(iv, []).append(f"a period of {d} days is {'dropped' if not o['present'] else 'blanked'} (it is within {lo}..{hi} days)")
        if not want and (o["kept"] or not o["present"] or o["value"] is not None):
            bad_keep.setdefault(iv, []).append(f"a period of {d} days (off-cycle) " + ("keeps its usage" if o["kept"] else ("is removed from the frame instead of being blanked" if not o["present"] else f"holds {o['value']}")))
        if (OFFW in o["warned"]) != (not want) or [w for w in o["warned"] if w != OFFW]:
            bad_warn.setdefault(iv, []).append(f"a period of {d} days: warnings {o['warned']}")
    for iv, (lo, hi) in spec.items():
        r1.require(iv not in bad_keep, f"{cb.key}|{iv}|keep", cb.where(), f"clean_billing_data ({iv}): periods kept must be {lo} <= days <= {hi}; interpreted: {bad_keep.get(iv, [])[:3]}",
                   sample={"interval": iv, "keep": [lo, hi]})
        r1.require(iv not in bad_warn, f"{cb.key}|{iv}|warn", cb.where(), f"clean_billing_data ({iv}): the off-cycle warning must fire exactly on the complement (days > {hi} or days < {lo}); interpreted: {bad_warn.get(iv, [])[:3]}")
    for iv, ds_ in sorted(spring_bad.items()):
        lo, hi = spec[iv]
        r1.require(False, f"{cb.key}|{iv}|keep|across-spring-forward:{','.join(map(str, sorted(ds_)))}", cb.where(),
                   f"clean_billing_data ({iv}): read dates are local midnights, so a period of d calendar days that contains the spring-forward day lasts one hour less; measured by the whole-day "
                   f"component of the elapsed time it counts as d - 1 days: periods of {sorted(ds_)} days are judged the wrong way round ({lo} <= days <= {hi} is valid) - a {lo}-day bill is dropped as "
                   f"off-cycle and its usage lost, a {hi + 1}-day one is kept; the same read calendar in UTC is judged correctly",
                   sample={"interval": iv, "misjudged_period_lengths": sorted(ds_)})
    r1.inst(f"{cb.key}|period-length[{n_bc}]", {"interpreted_periods": n_bc})
    # downsample 50 % rule
    ds = chk.repo.func(DPU, "downsample_and_clean_daily_data")
    # interpreted under the one-row abstraction (rules/downsample_absint.py): a day of coverage c and rolled-up value v
    from rules.downsample_absint import VALUE, outcomes as downsample_outcomes
    W50 = "eemeter.sufficiency_criteria.missing_high_frequency_meter_data"
    for o in downsample_outcomes(chk):
        c = o["coverage"]
        key = f"{ds.key}|day-of-coverage:{c:g}"
        if "present" not in o:
            r1.require(False, key, ds.where(), f"downsample_and_clean_daily_data on a day of coverage {c:g}: {o}")
            continue
        want = VALUE / c if c > 0.5 else None
        got = o["value"]
        same = (want is None and got is None) or (want is not None and got is not None and abs(got - want) < 1e-9)
        r1.require(o["present"] and same and o["columns"] == ["value"], key + "|returns-kept-reindexed", ds.where(),
                   f"downsample_and_clean_daily_data: a day with {c:.0%} of its readings present must come back as a row holding "
                   f"{'the sum of the readings present divided by the coverage (' + format(want, 'g') + ' for a sum of ' + format(VALUE, 'g') + ')' if want is not None else 'NaN (half or fewer of the readings present)'}; "
                   f"found {'a row holding ' + str(got) if o['present'] else 'no row for that day'} (columns {o['columns']})", sample={"coverage": c, "outcome": {k_: v_ for k_, v_ in o.items() if k_ != 'as_freq'}})
        r1.require((W50 in o["warned"]) == (c <= 0.5), key + "|warns", ds.where(),
                   f"downsample_and_clean_daily_data: the missing-high-frequency-data warning must fire iff a day has half or fewer of its readings; coverage {c:g}: warned {o['warned']}")
        af = o.get("as_freq")
        r1.require(af is not None and af[0] == "D" and dict(af[2]).get("include_coverage") is True and dict(af[2]).get("series_type", "cumulative") == "cumulative" and not af[1],
                   f"{ds.key}|daily-cumulative|{c:g}", ds.where(), f"sub-daily usage must be aggregated with as_freq(..., 'D', include_coverage=True) (cumulative); found {af}")
    # granularity cut points: compute_minimum_granularity interpreted on abstract indexes (one representative per side of every cut point)
    import datetime as _dt
    from engine.absint import AbsObj, ClassRef, ModuleEnv
    from engine.pyinterp import Function, Interp, InterpRaised, Stub, StubCall, Unsupported
    cg = chk.repo.func(DPU, "compute_minimum_granularity")

    class _PD(Stub):
        @staticmethod
        def Timedelta(*a, **k):
            if a:
                raise Unsupported("pd.Timedelta with a positional argument")
            return _dt.timedelta(**k)

    class _Index(AbsObj):
        def __init__(self, n, inferred):
            super().__init__({"DatetimeIndex"}, inferred_freq=inferred, freq="unset")
            self._n = n

        def __len__(self):
            return self._n

    def _gran(index, median=None):
        it = Interp(step_limit=20_000)

        class _DC(Stub):
            def median(self_):
                return median
        env = ModuleEnv(chk.repo, cg.module, it, {"pd": _PD(), "MonthEnd": ClassRef("MonthEnd"), "MonthBegin": ClassRef("MonthBegin"), "day_counts": StubCall(lambda ix: _DC())})
        try:
            return Function(cg.node, env, it)(index, "DEFAULT")
        except InterpRaised as e:
            return f"raises {e.exc_name}"
        except Unsupported as e:
            raise AnalysisError(f"{cg.key}: uses an operation outside the modelled subset: {e}")
    nan = float("nan")
    med_cases = [(0.04, "hourly"), (0.5, "hourly"), (0.99, "hourly"), (1, "daily"), (1.0, "daily"), (1.01, "billing_monthly"), (28, "billing_monthly"), (35, "billing_monthly"),
                 (35.5, "billing_bimonthly"), (36, "billing_bimonthly"), (70, "billing_bimonthly"), (70.5, "DEFAULT"), (100, "DEFAULT"), (nan, "DEFAULT")]
    for m, want in med_cases:
        got = _gran(_Index(100, None), m)
        grp = {"hourly": "median:hourly", "daily": "median:daily", "billing_monthly": "median:billing_monthly", "billing_bimonthly": "median:billing_bimonthly", "DEFAULT": "median:default"}[want]
        r1.require(got == want, f"{cg.key}|{grp}|{m}", cg.where(), f"compute_minimum_granularity: a median spacing of {m} days (no inferable frequency) must give `{want}`; found `{got}`", sample={"median_days": m, "granularity": got})
    td = _dt.timedelta
    freq_cases = [(td(minutes=15), "hourly"), (td(hours=1), "hourly"), (td(hours=1, seconds=1), "daily"), (td(days=1), "daily"), (td(days=1, seconds=1), "billing_monthly"), (td(days=7), "billing_monthly"),
                  (td(days=30), "billing_monthly"), (td(days=30, seconds=1), "billing_bimonthly"), (td(days=61), "billing_bimonthly")]
    for f_, want in freq_cases:
        got = _gran(_Index(100, f_))
        grp = {"hourly": "freq:hourly", "daily": "freq:daily", "billing_monthly": "freq:monthly", "billing_bimonthly": "freq:bimonthly"}[want]
        r1.require(got == want, f"{cg.key}|{grp}|{f_}", cg.where(), f"compute_minimum_granularity: an inferred frequency of {f_} must give `{want}`; found `{got}`", sample={"frequency": str(f_), "granularity": got})
    for cname in ("MonthEnd", "MonthBegin"):
        for n_, want in ((1, "billing_monthly"), (2, "billing_bimonthly"), (3, "billing_bimonthly")):
            got = _gran(_Index(100, AbsObj({cname}, n=n_)))
            r1.require(got == want, f"{cg.key}|freq:month-offsets|{cname}:{n_}", cg.where(), f"compute_minimum_granularity: {cname}(n={n_}) must give `{want}`; found `{got}`")
    for n_ in (0, 1):
        got = _gran(_Index(n_, None), 1)
        r1.require(got == "DEFAULT", f"{cg.key}|too-short|{n_}", cg.where(), f"an index of {n_} stamp(s) has no spacing: the default granularity must be returned; found `{got}`")

    # ------------------------------------------------------------------ R08.2
    br = as_freq_branches(chk)
    af = chk.repo.func(DPU, "as_freq")
    from rules.asfreq_absint import check as check_as_freq
    check_as_freq(chk, r2, r3)
    sites = rescale_sites(chk, ds)
    # (that a well-covered day comes back as value / coverage, on exactly those rows, is decided by the one-row interpretation above)
    for s, base in sites:
        kinds_ = frame_kind(chk, ds, s, base, br)
        r2.require(kinds_ == {"sum"}, f"{ds.key}|rescale-on-sum", ds.where(s), f"value/coverage in downsample_and_clean_daily_data is applied to a frame of kind {sorted(kinds_)} (must be a sum)")
    r2.inst(f"{ds.key}|rescale-sites={len(sites)}")
    # no other function divides usage by coverage
    n_other = 0
    for f in chk.repo.all_functions():
        if f.key == ds.key or f.module.name.endswith("sufficiency_criteria"):
            continue
        for s, base in rescale_sites(chk, f):
            kinds_ = frame_kind(chk, f, s, base, br)
            n_other += 1
            r2.require(kinds_ == {"sum"}, f"{f.key}|rescale-on-{'+'.join(sorted(kinds_)) or 'unknown'}", f.where(s),
                       f"{f.qualname}: `value / coverage` is applied to a frame whose value is {sorted(kinds_)}; only sums may be rescaled by coverage", sample={"function": f.qualname, "kind": sorted(kinds_)})
    r2.inst(f"package|other-rescale-sites={n_other}")

    # ------------------------------------------------------------------ R08.3
    bm = chk.repo.func(BILLING_DATA, "_BillingData._compute_meter_value_df")
    # interpreted on recording values for every granularity and branch (rules/billingspread.py): what is returned derives from
    # as_freq(<cleaned bills>['value'], 'D') (cumulative branch, default atoms) with the open final row dropped, and before the bills are
    # cleaned a NaN reading closes the last period one day after the last covered day
    from rules.billingspread import judge as _billing_spread
    bbad, bn = _billing_spread(chk, bm)
    bmsg = dict(bbad)
    if bn < 3:
        raise AnalysisError(f"{bm.key}: only {bn} interpreted path(s) with usage (anchor changed)")
    r3.require("spread-to-days" not in bmsg, f"{bm.key}|spread-to-days", bm.where(),
               "billing usage must be spread to days with the cumulative branch (as_freq(<value>, 'D'), default atoms) and the open-ended final row dropped ([:-1]) in what is returned: " + bmsg.get("spread-to-days", ""))
    r3.require("final-nan-convention" not in bmsg, f"{bm.key}|final-nan-convention", bm.where(),
               "the final period must be closed by a NaN row one day after the last covered day: " + bmsg.get("final-nan-convention", ""))
    r3.inst(f"{bm.key}|paths[{bn}]", {"interpreted_paths_with_usage": bn})
