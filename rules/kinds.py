"""Aggregation-kind facts shared by C08 and C09: as_freq's branches, comparison normalisation of mask expressions,
and the `value / coverage` rescaling sites."""
from __future__ import annotations

import ast
from typing import Dict, List, Optional, Set, Tuple

from engine.cfg import CFG
from engine.consteval import try_literal
from engine.dataflow import ReachingDefs
from engine.index import AnalysisError, FuncInfo, calls_in, const_str, kwarg, unparse, walk_no_nested

DPU = "opendsm.eemeter.common.data_processor_utilities"
FLIP = {"<": ">", "<=": ">=", ">": "<", ">=": "<=", "==": "==", "!=": "!="}
SYM = {ast.Lt: "<", ast.LtE: "<=", ast.Gt: ">", ast.GtE: ">=", ast.Eq: "==", ast.NotEq: "!="}


NEG = {"<": ">=", "<=": ">", ">": "<=", ">=": "<", "==": "!=", "!=": "=="}


def mask_terms(e: ast.AST, resolve=None, at=None, _depth: int = 0) -> Optional[Tuple[str, Set[Tuple[str, str, float]]]]:
    """(a OP c) & (b OP d) ...  ->  ('and'|'or'|'atom', {(lhs, op, const)})  with the quantity on the left.
    `~m` is pushed inwards (De Morgan); a Name is looked up through `resolve(name, at)` (engine.pattern.make_resolver), so a mask
    that was given a local name is judged by its definition."""
    if isinstance(e, ast.Name) and resolve is not None and _depth < 4:
        r = resolve(e, at)
        if r is None:
            return None
        return mask_terms(r[0], resolve, r[1], _depth + 1)
    if isinstance(e, ast.UnaryOp) and isinstance(e.op, ast.Invert):
        m = mask_terms(e.operand, resolve, at, _depth)
        if m is None:
            return None
        kind = {"and": "or", "or": "and", "atom": "atom"}[m[0]]
        return kind, {(l, NEG[o], c) for l, o, c in m[1]}
    if isinstance(e, ast.BinOp) and isinstance(e.op, (ast.BitAnd, ast.BitOr)):
        l, r = mask_terms(e.left, resolve, at, _depth), mask_terms(e.right, resolve, at, _depth)
        if l is None or r is None:
            return None
        kind = "and" if isinstance(e.op, ast.BitAnd) else "or"
        if l[0] not in ("atom", kind) or r[0] not in ("atom", kind):
            return None
        return kind, l[1] | r[1]
    if isinstance(e, ast.Compare):
        if len(e.ops) == 1 and type(e.ops[0]) in SYM:
            a, b = e.left, e.comparators[0]
            va, vb = try_literal(a, default=None), try_literal(b, default=None)
            if isinstance(vb, (int, float)) and not isinstance(vb, bool):
                return "atom", {(_lhs(a, resolve, at), SYM[type(e.ops[0])], float(vb))}
            if isinstance(va, (int, float)) and not isinstance(va, bool):
                return "atom", {(_lhs(b, resolve, at), FLIP[SYM[type(e.ops[0])]], float(va))}
        if len(e.ops) == 2 and all(type(o) in SYM for o in e.ops):  # c1 < x <= c2
            lo, x, hi = e.left, e.comparators[0], e.comparators[1]
            vl, vh = try_literal(lo, default=None), try_literal(hi, default=None)
            if isinstance(vl, (int, float)) and isinstance(vh, (int, float)):
                return "and", {(_lhs(x, resolve, at), FLIP[SYM[type(e.ops[0])]], float(vl)), (_lhs(x, resolve, at), SYM[type(e.ops[1])], float(vh))}
    return None


def _lhs(e: ast.AST, resolve, at) -> str:
    """Text of the compared quantity; `df['c']` and `df.c` are the same column; a local naming a column expression is expanded."""
    if isinstance(e, ast.Name) and resolve is not None:
        r = resolve(e, at)
        if r is not None and isinstance(r[0], (ast.Attribute, ast.Subscript)):
            e = r[0]
    if isinstance(e, ast.Subscript) and const_str(e.slice) and const_str(e.slice).isidentifier():
        return f"{unparse(e.value)}.{const_str(e.slice)}"
    return unparse(e)


def as_freq_branches(chk) -> Dict[str, Dict[str, str]]:
    """series_type literal -> {'value': aggregator of the value, 'coverage': aggregator of the coverage counter}; read off the symbolic
    interpretation of as_freq (rules/asfreq_absint.py), cached per check."""
    cache = getattr(chk, "_as_freq_branches", None)
    if cache is None:
        from rules.asfreq_absint import branches
        cache = branches(chk)
        chk._as_freq_branches = cache
    return cache


def rescale_sites(chk, f: FuncInfo) -> List[Tuple[ast.stmt, str]]:
    """Statements in f that divide a frame's `value` by its `coverage`; returns (stmt, frame name)."""
    out = []
    for s in walk_no_nested(f.node):
        if isinstance(s, ast.Assign):
            for n in ast.walk(s.value):
                if isinstance(n, ast.BinOp) and isinstance(n.op, ast.Div) and unparse(n.left).endswith(".value") and unparse(n.right).endswith(".coverage"):
                    base = unparse(n.left).split("[")[0].split(".")[0]
                    out.append((s, base))
    return out


def frame_kind(chk, f: FuncInfo, stmt: ast.stmt, name: str, branches) -> Set[str]:
    """Kinds ('sum' / 'mean') of the `value` column of frame `name` at stmt, from the as_freq call that produced it."""
    rd = ReachingDefs(f.node)
    kinds: Set[str] = set()
    seen = set()
    work = [(stmt, name)]
    while work:
        st, nm = work.pop()
        for d in rd.reaching(st, nm):
            if (d.stmt_id, nm) in seen:
                continue
            seen.add((d.stmt_id, nm))
            v = rd.value_of(d)
            if v is None:
                if d.kind == "param":
                    kinds.add("param:" + nm)
                continue
            calls = [c for c in ast.walk(v) if isinstance(c, ast.Call) and unparse(c.func) == "as_freq"]
            if calls:
                for c in calls:
                    st_kw = kwarg(c, "series_type")
                    lit = const_str(st_kw) if st_kw is not None else "cumulative"
                    agg = branches.get(lit, {}).get("value")
                    kinds.add({"sum": "sum", "mean": "mean"}.get(agg, f"?{lit}:{agg}"))
            else:
                for n in ast.walk(v):
                    if isinstance(n, ast.Name) and n.id != nm:
                        work.append((rd.def_stmt(d), n.id))
                    elif isinstance(n, ast.Name) and n.id == nm:
                        work.append((rd.def_stmt(d), n.id))
    return kinds
