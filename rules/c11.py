"""C11 — the daily model curve: regime table of the kernel over all orderings, closed forms, load decomposition."""
from __future__ import annotations

import ast
import itertools
import math
from typing import Any, Dict, List, Optional, Tuple

import sympy as sp

from engine.exprnorm import Converter, Unsupported as ExUnsupported, equal, fun, sym
from engine.index import AnalysisError, FuncInfo, calls_in, const_str, unparse, walk_no_nested
from engine.pyinterp import Env, Function, Interp, Stub, Unsupported, _Return
from rules.common import DAILY_MODEL, method

FM = "opendsm.eemeter.models.daily.base_models.full_model"
BM = "opendsm.eemeter.models.daily.utilities.base_model"
HB, CB, HK, CK = 2.0, 3.0, 5.0, 7.0  # tag values identifying which coefficient a regime selected


class NP(Stub):
    inf = math.inf

    @staticmethod
    def ones_like(T):
        return Vec([1.0] * len(T))

    @staticmethod
    def empty_like(T):
        return [None] * len(T)

    @staticmethod
    def exp(x):
        return math.exp(x)

    @staticmethod
    def clip(x, lo, hi):
        return max(lo, min(hi, x))

    @staticmethod
    def array(x):
        return list(x)


class Vec(Stub):
    def __init__(self, v):
        self.v = list(v)

    def __mul__(self, k):
        return [a * k for a in self.v]


def check_kernel_wrappers(chk, r4):
    """fix_full_model_x / get_full_model_x keep the 7-vector in kernel order, swap the three coefficient pairs together, apply the
    single-slope sign convention and clamp against the *fit range* (T_min, T_max) — shared by C11/R11.4 and C01/R01.9 (the stored
    coefficients are turned into the evaluated curve by exactly these wrappers)."""
    fm = chk.repo.func(FM, "full_model")
    fx = chk.repo.func(FM, "fix_full_model_x")
    t = unparse(fx.node)
    r4.require("hdd_bp, hdd_beta, hdd_k, cdd_bp, cdd_beta, cdd_k, intercept = x" in t.replace("(", "").replace(")", ""), f"{fx.key}|unpack-order", fx.where(), "fix_full_model_x must unpack the 7-vector in kernel order")
    r4.require("return [hdd_bp, hdd_beta, hdd_k, cdd_bp, cdd_beta, cdd_k, intercept]" in t, f"{fx.key}|return-order", fx.where(), "fix_full_model_x must return the 7-vector in kernel order")
    for f in (fx, fm):
        sw = [s for s in ast.walk(f.node) if isinstance(s, ast.If) and unparse(s.test) == "cdd_bp < hdd_bp"]
        ok = len(sw) == 1 and sorted(unparse(x) for x in sw[0].body) == sorted(["hdd_bp, cdd_bp = (cdd_bp, hdd_bp)", "hdd_beta, cdd_beta = (cdd_beta, hdd_beta)", "hdd_k, cdd_k = (cdd_k, hdd_k)"])
        r4.require(ok, f"{f.key}|swap-all-three-pairs", f.where(), f"{f.name}: when cdd_bp < hdd_bp the balance points, slopes and smoothing parameters must be swapped together")
    gx = chk.repo.func(FM, "get_full_model_x")
    r4.require("x = [hdd_bp, hdd_beta, hdd_k, cdd_bp, cdd_beta, cdd_k, intercept]" in unparse(gx.node) and "return fix_full_model_x(x, T_min, T_max)" in unparse(gx.node), f"{gx.key}|assembles-kernel-order", gx.where(),
               "get_full_model_x must assemble the 7-vector in kernel order and pass it through fix_full_model_x")
    # c_hdd sign convention: negative slope => heating with |slope|
    t = unparse(gx.node)
    r4.require(t.count("if c_hdd_beta < 0:") == 2 and t.count("hdd_beta = -c_hdd_beta") == 2 and t.count("cdd_beta = c_hdd_beta") == 2, f"{gx.key}|c_hdd-sign-convention", gx.where(),
               "single-slope models: a negative slope is a heating slope of magnitude -slope, otherwise a cooling slope")



def weak_orders(symbols: List[str]):
    """All total pre-orders (orderings with ties) of the symbols, as dict symbol -> rank."""
    n = len(symbols)
    seen = set()
    for ranks in itertools.product(range(n), repeat=n):
        used = sorted(set(ranks))
        if used != list(range(len(used))):
            continue
        if ranks in seen:
            continue
        seen.add(ranks)
        yield dict(zip(symbols, ranks))


def run(chk):
    chk.explanation = (
        "The full_model kernel touches its inputs only through comparisons and sign flips, so its regime choice is a function of a finite "
        "set of orderings.  The regime-selection statement of the kernel is interpreted (checker's interpreter) under every total pre-order of "
        "{T_i, hdd_bp, cdd_bp, T_min, T_max} with T_min <= T_max and every zero/non-zero vector of (hdd_beta, cdd_beta, hdd_k, cdd_k) — an "
        "exhaustive enumeration of the abstract domain — and the selected (T_bp, beta, k) is compared with the property's regime table. "
        "The three evaluation branches are normalised to closed forms (sympy as term normaliser) and shown to meet at the balance point; "
        "get_smooth_coeffs keeps the balance points ordered; the load decomposition uses the very vector handed to the kernel.")
    chk.trusted += ["only comparisons decide the regime, so one representative valuation per pre-order is exhaustive for that pre-order"]
    chk.not_decided += ["non-negativity and monotonicity of the *smoothed* curve as real-analysis facts (needs exp(-u) >= 1 - u)", "all floating-point statements",
                        "the sign premises beta >= 0, k >= 0 are supplied by the optimiser bounds (C12)"]
    r1 = chk.rule("R11.1", "regime table by exhaustive order-domain evaluation: below the lower balance point -> heating (T_bp=hdd_bp, beta=-hdd_beta, k=+hdd_k); above the upper -> cooling (cdd_bp, +cdd_beta, -cdd_k); between (inclusive) -> flat", 3000)
    r2 = chk.rule("R11.2", "closed forms: unsmoothed = beta*(T - T_bp) + intercept; smoothed adds |beta*k|*(exp((T - T_bp)/k) - 1); both equal intercept at T = T_bp", 4)
    r3 = chk.rule("R11.3", "decomposition: load_only = model - x[6]; heating where T <= x[0], cooling where T >= x[3]; x is the vector passed to the kernel (after smoothing)", 6)
    r4 = chk.rule("R11.4", "wrappers and fix_full_model_x keep the 7-vector in kernel order; fix swaps the three coefficient pairs together", 5)
    r5 = chk.rule("R11.5", "get_smooth_coeffs: k = fraction * gap, balance points move inward by k, fractions renormalised when they sum to more than 1 (gap stays >= 0)", 4)

    fm = chk.repo.func(FM, "full_model")
    params = fm.params
    if params[:7] != ["hdd_bp", "hdd_beta", "hdd_k", "cdd_bp", "cdd_beta", "cdd_k", "intercept"]:
        r4.require(False, f"{fm.key}|parameter-order", fm.where(), f"full_model parameter order changed: {params[:7]}")
        return
    loop = [s for s in fm.node.body if isinstance(s, ast.For)]
    if len(loop) != 1 or len(loop[0].body) < 2 or not isinstance(loop[0].body[0], ast.If) or not isinstance(loop[0].body[1], ast.If):
        raise AnalysisError("full_model: loop with [regime selection, evaluation] not found")
    loop = loop[0]
    pre = fm.node.body[:fm.node.body.index(loop)]
    select, evaluate = loop.body[0], loop.body[1]
    ti_name = loop.target.elts[1].id if isinstance(loop.target, ast.Tuple) else "Ti"

    symbols = ["Ti", "hdd_bp", "cdd_bp", "T_min", "T_max"]
    n_states = 0
    findings: Dict[str, List[Any]] = {}
    for order in weak_orders(symbols):
        if order["T_min"] > order["T_max"]:
            continue
        val = {s: 10.0 * (r + 1) for s, r in order.items()}
        for zb in itertools.product([False, True], repeat=4):
            hb = 0.0 if zb[0] else HB
            cb = 0.0 if zb[1] else CB
            hk = 0.0 if zb[2] else HK
            ck = 0.0 if zb[3] else CK
            n_states += 1
            it = Interp(step_limit=5000)
            env = Env()
            env.set("np", NP())
            for k, v in (("hdd_bp", val["hdd_bp"]), ("hdd_beta", hb), ("hdd_k", hk), ("cdd_bp", val["cdd_bp"]), ("cdd_beta", cb), ("cdd_k", ck), ("intercept", 100.0),
                         ("T_fit_bnds", [val["T_min"], val["T_max"]]), ("T", [val["Ti"]])):
                env.set(k, v)
            got: Tuple[Any, ...]
            try:
                try:
                    for s in pre:
                        it.exec_stmt(s, env)
                    env.set(ti_name, val["Ti"])
                    env.set("n", 0)
                    it.exec_stmt(select, env)
                    beta = env.get("beta")
                    if beta == 0:
                        got = ("flat",)
                    else:
                        got = (env.get("T_bp"), beta, env.get("k"))
                except _Return:
                    got = ("flat",)
            except Unsupported as e:
                r1.require(False, f"{fm.key}|interpretable", fm.where(), f"cannot establish the regime table: {e}")
                return
            except KeyError as e:
                r1.require(False, f"{fm.key}|defined:{e}", fm.where(select), f"regime selection leaves {e} undefined for ordering {order} zero-flags {zb}")
                continue
            # ---- the property's regime table
            h = (val["hdd_bp"], hb, hk)
            c = (val["cdd_bp"], cb, ck)
            if c[0] < h[0]:
                h, c = c, h
            Ti = val["Ti"]
            if hb == 0 and cb == 0:
                want = ("flat",)
            elif Ti < h[0]:
                want = ("flat",) if h[1] == 0 else (h[0], -h[1], h[2])
            elif Ti > c[0]:
                want = ("flat",) if c[1] == 0 else (c[0], c[1], -c[2])
            else:
                want = ("flat",)
            key = None
            if got != want:
                degenerate = h[0] == c[0]
                if degenerate and ((c[0] >= val["T_max"] and got == ((h[0], -h[1], h[2]) if h[1] else ("flat",))) or (h[0] <= val["T_min"] and got == ((c[0], c[1], -c[2]) if c[1] else ("flat",)))):
                    kind = "degenerate-line-through-balance-point"
                else:
                    kind = "regime"
                findings.setdefault(kind, []).append({"order": {k: v for k, v in sorted(order.items(), key=lambda kv: kv[1])}, "zero": zb, "selected": got, "table": want})
            r1.inst(f"state|{sorted(order.items())}|{zb}", {"ordering": " <= ".join(k for k, _ in sorted(order.items(), key=lambda kv: kv[1])), "zero_flags(hb,cb,hk,ck)": zb, "regime": got})
    for kind, rows in findings.items():
        if kind == "degenerate-line-through-balance-point":
            r1.violate(f"{fm.key}|degenerate-balance-points-at-the-fit-range-edge", fm.where(select),
                       f"when hdd_bp == cdd_bp lies at/after T_max (resp. at/before T_min) the kernel applies the heating (resp. cooling) line to *every* temperature, also beyond the balance point: "
                       f"the curve keeps falling as it gets hotter above the balance point (negative 'cooling load'); {len(rows)} abstract states, e.g. {rows[0]}", {"states": rows[:6]})
        else:
            r1.violate(f"{fm.key}|regime-table", fm.where(select), f"the kernel's regime choice deviates from the property's table in {len(rows)} abstract states, e.g. {rows[0]}", {"states": rows[:8]})

    # ------------------------------------------------------------------ R11.2 closed forms
    branches = []
    node = evaluate
    while isinstance(node, ast.If):
        branches.append((unparse(node.test), node.body))
        node = node.orelse[0] if len(node.orelse) == 1 and isinstance(node.orelse[0], ast.If) else (node.orelse or None)
        if isinstance(node, list):
            branches.append(("else", node))
            break
    tests = [b[0] for b in branches]
    r2.require(tests[:2] == ["beta == 0", "k == 0"] and len(branches) == 3, f"{fm.key}|evaluation-branches", fm.where(evaluate), f"evaluation must branch on beta == 0, then k == 0, else smoothed; found {tests}")
    Ti, Tbp, beta, k, c0 = sp.Symbol("Ti", real=True), sp.Symbol("T_bp", real=True), sp.Symbol("beta", real=True), sp.Symbol("k", real=True, nonzero=True), sp.Symbol("intercept", real=True)
    if len(branches) == 3:
        def form(body):
            c = Converter(call_hook=lambda call, cv: cv.conv(call.args[0]) if unparse(call.func) == "np.clip" else (sp.exp(cv.conv(call.args[0])) if unparse(call.func) == "np.exp" else (sp.Abs(cv.conv(call.args[0])) if unparse(call.func) == "abs" else None)))
            val = None
            c.env.update({"Ti": Ti, "T_bp": Tbp, "beta": beta, "k": k, "intercept": c0})
            for s in body:
                if isinstance(s, ast.Assign) and isinstance(s.targets[0], ast.Name):
                    c.env[s.targets[0].id] = c.conv(s.value)
                elif isinstance(s, ast.Assign) and isinstance(s.targets[0], ast.Subscript):
                    val = c.conv(s.value)
            return val
        try:
            def norm(e):
                return e.subs({sym("Ti"): Ti, sym("T_bp"): Tbp, sym("beta"): beta, sym("k"): k, sym("intercept"): c0})
            f0, f1, f2 = (norm(form(b[1])) for b in branches)
            r2.require(sp.simplify(f0 - c0) == 0, f"{fm.key}|flat-form", fm.where(evaluate), f"flat branch must be `intercept`; found {f0}")
            r2.require(sp.simplify(f1 - (beta * (Ti - Tbp) + c0)) == 0, f"{fm.key}|linear-form", fm.where(evaluate), f"unsmoothed branch must be beta*(Ti - T_bp) + intercept; found {f1}")
            want2 = sp.Abs(beta * k) * (sp.exp((Ti - Tbp) / k) - 1) + beta * (Ti - Tbp) + c0
            r2.require(sp.simplify(f2 - want2) == 0, f"{fm.key}|smoothed-form", fm.where(evaluate), f"smoothed branch must be |beta*k|*(exp((Ti-T_bp)/k)-1) + beta*(Ti-T_bp) + intercept; found {f2}")
            r2.require(sp.simplify(f1.subs(Ti, Tbp) - c0) == 0 and sp.simplify(f2.subs(Ti, Tbp) - c0) == 0, f"{fm.key}|continuity-at-balance-point", fm.where(evaluate),
                       "both sloped forms must equal the intercept at Ti = T_bp (continuity with the flat segment)", sample={"linear_at_bp": str(f1.subs(Ti, Tbp)), "smoothed_at_bp": str(sp.simplify(f2.subs(Ti, Tbp)))})
        except (ExUnsupported, Exception) as e:
            r2.require(False, f"{fm.key}|closed-forms", fm.where(evaluate), f"cannot establish the closed forms: {e}")

    # ------------------------------------------------------------------ R11.3 decomposition
    dm = chk.repo.cls(*DAILY_MODEL)
    for f in (method(chk, dm, "_predict_submodel"), chk.repo.func("opendsm.eemeter.models.daily.optimize_results", "OptimizedResult.eval")):
        t = unparse(f.node)
        ok_x = "model = full_model(*x, T_fit_bnds," in t
        r3.require(ok_x, f"{f.key}|kernel-gets-x", f.where(), f"{f.qualname}: the kernel must be called with the vector x (full_model(*x, T_fit_bnds, T))")
        r3.require("hdd_bp, cdd_bp, intercept = (x[0], x[3], x[6])" in t, f"{f.key}|bps-from-x", f.where(), f"{f.qualname}: hdd_bp, cdd_bp, intercept must be x[0], x[3], x[6] of the vector passed to the kernel")
        r3.require("load_only = model - intercept" in t and "hdd_load = np.zeros_like(model)" in t and "cdd_load = np.zeros_like(model)" in t, f"{f.key}|load_only", f.where(), f"{f.qualname}: loads must start at zero and load_only = model - intercept")
        r3.require("hdd_idx = np.argwhere(T <= hdd_bp).flatten()" in t and "cdd_idx = np.argwhere(T >= cdd_bp).flatten()" in t, f"{f.key}|masks", f.where(), f"{f.qualname}: heating mask T <= hdd_bp, cooling mask T >= cdd_bp")
        r3.require("hdd_load[hdd_idx] = load_only[hdd_idx]" in t and "cdd_load[cdd_idx] = load_only[cdd_idx]" in t, f"{f.key}|loads-are-slices-of-load_only", f.where(), f"{f.qualname}: both loads must be slices of the same load_only array")
        # the assignment of x after smoothing precedes the reads of x[0], x[3], x[6]
        lines = {unparse(s)[:40]: s.lineno for s in f.node.body if isinstance(s, (ast.Assign, ast.If))}
        smooth_if = [s for s in f.node.body if isinstance(s, ast.If) and "hdd_tidd_cdd_smooth" in unparse(s.test)]
        bps = [s for s in f.node.body if isinstance(s, ast.Assign) and unparse(s.value) == "(x[0], x[3], x[6])"]
        kern = [s for s in f.node.body if isinstance(s, ast.Assign) and isinstance(s.value, ast.Call) and unparse(s.value.func) == "full_model"]
        r3.require(len(smooth_if) == 1 and len(bps) == 1 and len(kern) == 1 and smooth_if[0].lineno < bps[0].lineno < kern[0].lineno, f"{f.key}|order", f.where(),
                   f"{f.qualname}: smoothing must rewrite x before the balance points are read and the kernel is called")

    # ------------------------------------------------------------------ R11.4
    check_kernel_wrappers(chk, r4)

    # ------------------------------------------------------------------ R11.5 get_smooth_coeffs
    gs = chk.repo.func(BM, "get_smooth_coeffs")
    try:
        c = Converter()
        hbp, ph, cbp, pc = sp.symbols("hdd_bp pct_hdd_k cdd_bp pct_cdd_k", real=True)
        c.env.update({"hdd_bp": hbp, "pct_hdd_k": ph, "cdd_bp": cbp, "pct_cdd_k": pc})
        body = [s for s in gs.node.body if not (isinstance(s, ast.Expr) and isinstance(s.value, ast.Constant))]
        # literal pct_match = 1 folds the lambertw branch away
        pm = [s for s in body if isinstance(s, ast.Assign) and unparse(s.targets[0]) == "pct_match"]
        r5.require(len(pm) == 1 and unparse(pm[0].value) == "1", f"{gs.key}|pct_match-literal-1", gs.where(), "pct_match must be the literal 1 (otherwise the lambertw branch changes the smoothing)")
        straight = []
        for s in body:
            if isinstance(s, ast.If):
                continue
            if isinstance(s, ast.Assign) and unparse(s.targets[0]) in ("pct_match",):
                continue
            straight.append(s)
        for s in straight:
            if isinstance(s, ast.Assign) and len(s.targets) == 1 and isinstance(s.targets[0], ast.Name) and unparse(s.targets[0]) in ("hdd_w",) or (isinstance(s, ast.Assign) and len(s.targets) == 2):
                c.env["hdd_w"] = sp.Integer(0)
                c.env["cdd_w"] = sp.Integer(0)
                continue
            if isinstance(s, ast.Assign) and isinstance(s.targets[0], ast.Name):
                c.env[s.targets[0].id] = c.conv(s.value)
            elif isinstance(s, ast.Return):
                ret = c.conv(s.value.args[0]) if isinstance(s.value, ast.Call) else c.conv(s.value)
        nh, nk_h, nc, nk_c = ret
        gap = cbp - hbp
        r5.require(sp.simplify(nk_h - ph * gap) == 0 and sp.simplify(nk_c - pc * gap) == 0, f"{gs.key}|k=fraction*gap", gs.where(), f"smoothing parameters must be the fractions of the balance-point gap; found {nk_h}, {nk_c}", sample={"hdd_k": str(nk_h), "cdd_k": str(nk_c)})
        r5.require(sp.simplify((nc - nh) - gap * (1 - ph - pc)) == 0, f"{gs.key}|gap-shrinks-by-fractions", gs.where(), f"shifted balance points must satisfy cdd_bp' - hdd_bp' = gap*(1 - pct_hdd_k - pct_cdd_k); found {sp.simplify(nc - nh)}",
                   sample={"new_gap": str(sp.simplify(nc - nh))})
        ren = [s for s in body if isinstance(s, ast.If) and unparse(s.test) == "pct_k_sum > 1"]
        ok = len(ren) == 1 and sorted(unparse(x) for x in ren[0].body) == ["pct_cdd_k /= pct_k_sum", "pct_hdd_k /= pct_k_sum"] and any(isinstance(s, ast.Assign) and unparse(s) == "pct_k_sum = pct_hdd_k + pct_cdd_k" for s in body)
        r5.require(ok, f"{gs.key}|renormalise-when-sum>1", gs.where(), "fractions summing to more than 1 must be renormalised (otherwise the shifted balance points cross)")
    except (ExUnsupported, Exception) as e:
        r5.require(False, f"{gs.key}|closed-form", gs.where(), f"cannot establish get_smooth_coeffs: {e}")
