"""C11 — the daily model curve: regime table of the kernel over all orderings, closed forms, load decomposition."""
from __future__ import annotations

import ast
import itertools
import math
from typing import Any, Dict, List, Optional, Tuple

import sympy as sp

from engine.exprnorm import Converter, Unsupported as ExUnsupported, equal, fun, sym
from engine.index import AnalysisError, FuncInfo, calls_in, const_str, unparse, walk_no_nested
from engine.pyinterp import Env, Function, Interp, Stub, Unsupported, _Return
from rules.common import DAILY_MODEL, method

FM = "opendsm.eemeter.models.daily.base_models.full_model"
BM = "opendsm.eemeter.models.daily.utilities.base_model"
HB, CB, HK, CK = 2.0, 3.0, 5.0, 7.0  # tag values identifying which coefficient a regime selected


class NP(Stub):
    inf = math.inf

    @staticmethod
    def ones_like(T):
        return Vec([1.0] * len(T))

    @staticmethod
    def empty_like(T):
        return [None] * len(T)

    @staticmethod
    def exp(x):
        return math.exp(x)

    @staticmethod
    def clip(x, lo, hi):
        return max(lo, min(hi, x))

    @staticmethod
    def array(x):
        return list(x)


class Vec(Stub):
    def __init__(self, v):
        self.v = list(v)

    def __mul__(self, k):
        return [a * k for a in self.v]


class SymNum(Stub):
    def __init__(self, val, expr):
        self.val, self.expr = val, expr

    @staticmethod
    def lift(x):
        if isinstance(x, SymNum):
            return x
        if isinstance(x, bool) or not isinstance(x, (int, float)):
            raise Unsupported(f"kernel arithmetic with {type(x).__name__}")
        return SymNum(x, sp.nsimplify(x))

    def _b(self, o, f):
        o = SymNum.lift(o)
        try:
            v = f(self.val, o.val)
        except (ZeroDivisionError, OverflowError):
            v = float("nan")
        return SymNum(v, f(self.expr, o.expr))

    def __add__(self, o): return self._b(o, lambda a, b: a + b)
    def __radd__(self, o): return SymNum.lift(o)._b(self, lambda a, b: a + b)
    def __sub__(self, o): return self._b(o, lambda a, b: a - b)
    def __rsub__(self, o): return SymNum.lift(o)._b(self, lambda a, b: a - b)
    def __mul__(self, o): return self._b(o, lambda a, b: a * b)
    def __rmul__(self, o): return SymNum.lift(o)._b(self, lambda a, b: a * b)
    def __truediv__(self, o): return self._b(o, lambda a, b: a / b)
    def __rtruediv__(self, o): return SymNum.lift(o)._b(self, lambda a, b: a / b)
    def __neg__(self): return SymNum(-self.val, -self.expr)
    def __pos__(self): return self
    def __abs__(self): return SymNum(abs(self.val), sp.Abs(self.expr))
    def __lt__(self, o): return self.val < SymNum.lift(o).val
    def __le__(self, o): return self.val <= SymNum.lift(o).val
    def __gt__(self, o): return self.val > SymNum.lift(o).val
    def __ge__(self, o): return self.val >= SymNum.lift(o).val
    def __eq__(self, o): return self.val == SymNum.lift(o).val
    def __ne__(self, o): return self.val != SymNum.lift(o).val
    __hash__ = None
    def __bool__(self): return self.val != 0

class SVec(Stub):
    def __init__(self, v): self.v = list(v)
    def __len__(self): return len(self.v)
    def __iter__(self): return iter(self.v)
    def __getitem__(self, i): return self.v[i]
    def __setitem__(self, i, x): self.v[i] = x
    def __mul__(self, k): return SVec([SymNum.lift(a) * k for a in self.v])
    __rmul__ = __mul__
    def __add__(self, k): return SVec([SymNum.lift(a) + k for a in self.v])
    __radd__ = __add__
    def astype(self, *a, **k): return self

class NPs(Stub):
    inf = math.inf
    float64 = None
    @staticmethod
    def ones_like(T): return SVec([SymNum(1, sp.Integer(1))] * len(T))
    @staticmethod
    def zeros_like(T): return SVec([SymNum(0, sp.Integer(0))] * len(T))
    @staticmethod
    def empty_like(T): return SVec([None] * len(T))
    @staticmethod
    def full_like(T, x): return SVec([SymNum.lift(x)] * len(T))
    @staticmethod
    def exp(x):
        x = SymNum.lift(x)
        try:
            v = math.exp(max(-700.0, min(700.0, float(x.val))))
        except (OverflowError, ValueError):
            v = float("nan")
        return SymNum(v, sp.exp(x.expr))
    @staticmethod
    def clip(x, lo, hi): return x  # the clamp only guards exp() against overflow: identity on the closed form
    @staticmethod
    def abs(x): return abs(SymNum.lift(x))
    absolute = abs
    @staticmethod
    def array(x): return SVec(x) if not isinstance(x, SVec) else x



def check_kernel_wrappers(chk, r4):
    """get_full_model_x / fix_full_model_x turn stored coefficients into the 7-vector the kernel evaluates — shared by C11/R11.4,
    C01/R01.9 and C12/R12.6.  Both functions are interpreted from their AST on dual numbers (representative value + symbolic
    expression) for every model key, every ordering of the balance point(s) against the limits, every sign of the slopes and
    every zero pattern of the smoothing parameters, and compared with the property-level reference written below:
    kernel order; single-slope models: negative slope = heating slope of that magnitude; an unsmoothed single balance point is
    clamped into the segment limits; reversed balance points swap *all three* pairs; a slope whose balance point sits at the end
    of the **fit range** (T_min, T_max) is dropped; a zero slope has zero smoothing."""
    from engine.absint import ModuleEnv
    gx = chk.repo.func(FM, "get_full_model_x")
    fx = chk.repo.func(FM, "fix_full_model_x")
    if gx.params != ["model_key", "x", "T_min", "T_max", "T_min_seg", "T_max_seg"]:
        raise AnalysisError(f"get_full_model_x signature changed: {gx.params}")
    Z = SymNum(0.0, sp.Integer(0))

    def ref_fix(v, lo, hi):
        hbp, hb, hk, cbp, cb, ck, c0 = v
        if cbp.val < hbp.val:
            hbp, cbp, hb, cb, hk, ck = cbp, hbp, cb, hb, ck, hk
        if hbp.val != cbp.val:
            if cbp.val >= hi.val:
                cb = Z
            elif hbp.val <= lo.val:
                hb = Z
        if hb.val == 0:
            hk = Z
        if cb.val == 0:
            ck = Z
        return [hbp, hb, hk, cbp, cb, ck, c0]

    def ref_get(key, x, A, B, a, b):
        if key == "hdd_tidd_cdd_smooth":
            v = list(x)
        elif key == "hdd_tidd_cdd":
            v = [x[0], x[1], Z, x[2], x[3], Z, x[4]]
        elif key in ("c_hdd_tidd_smooth", "c_hdd_tidd"):
            bp, slope = x[0], x[1]
            k = x[2] if key == "c_hdd_tidd_smooth" else Z
            c0 = x[-1]
            if key == "c_hdd_tidd":
                bp = a if bp.val < a.val else (b if bp.val > b.val else bp)
            v = [bp, -slope, k, bp, Z, Z, c0] if slope.val < 0 else [bp, Z, Z, bp, slope, k, c0]
        else:
            v = [Z, Z, Z, Z, Z, Z, x[0]]
        return ref_fix(v, A, B)

    def run(fi, *args):
        it = Interp(step_limit=20000)
        env = ModuleEnv(chk.repo, fi.module, it, {"np": NPs(), "numpy": NPs()})
        return list(Function(fi.node, env, it)(*args))

    def same_vec(got, want):
        if len(got) != 7:
            return False
        for g, w in zip(got, want):
            g, w = SymNum.lift(g), SymNum.lift(w)
            if g.val != w.val or sp.simplify(g.expr - w.expr) != 0:
                return False
        return True
    S = lambda n, v: SymNum(v, sp.Symbol(n, real=True))
    bad: Dict[str, List[str]] = {}
    n = 0
    try:
        # ---- two balance points (7- and 5-vectors) against the fit range
        for order in weak_orders(["hdd_bp", "cdd_bp", "T_min", "T_max"]):
            if order["T_min"] > order["T_max"]:
                continue
            val = {k_: 20.0 * (r + 1) for k_, r in order.items()}
            A, B = S("T_min", val["T_min"]), S("T_max", val["T_max"])
            # segment limits strictly inside the fit range and *beyond the neighbouring rank*: a balance point one rank inside the fit
            # range lies outside the segment limits, so dropping a slope against the wrong pair of limits shows up
            a, b = S("T_min_seg", val["T_min"] + 25.0), S("T_max_seg", val["T_max"] - 25.0)
            for hs, cs, hkz, ckz in itertools.product((-2.0, 0.0, 2.0), (-3.0, 0.0, 3.0), (0.0, 5.0), (0.0, 7.0)):
                hb = Z if hs == 0 else S("hdd_beta", hs)
                cb = Z if cs == 0 else S("cdd_beta", cs)
                hk = Z if hkz == 0 else S("hdd_k", hkz)
                ck = Z if ckz == 0 else S("cdd_k", ckz)
                x7 = [S("hdd_bp", val["hdd_bp"]), hb, hk, S("cdd_bp", val["cdd_bp"]), cb, ck, S("intercept", 100.0)]
                for key, x in (("hdd_tidd_cdd_smooth", x7), ("hdd_tidd_cdd", [x7[0], x7[1], x7[3], x7[4], x7[6]])):
                    if key == "hdd_tidd_cdd" and (hkz or ckz):
                        continue
                    n += 1
                    got = run(gx, key, SVec(x), A, B, a, b)
                    want = ref_get(key, x, A, B, a, b)
                    if not same_vec(got, want):
                        swapped = val["cdd_bp"] < val["hdd_bp"]
                        why = "swap-all-three-pairs" if swapped else "end-of-fit-range-or-zero-smoothing"
                        bad.setdefault(f"{gx.key}|{why}", []).append(f"{key} order={order} slopes=({hs},{cs}) k=({hkz},{ckz}): got {[str(SymNum.lift(g).expr) for g in got]} want {[str(w.expr) for w in want]}")
                n += 1
                got = run(fx, SVec(x7), A, B)
                if not same_vec(got, ref_fix(x7, A, B)):
                    bad.setdefault(f"{fx.key}|swap-all-three-pairs" if val["cdd_bp"] < val["hdd_bp"] else f"{fx.key}|end-of-range-or-zero-smoothing", []).append(
                        f"order={order} slopes=({hs},{cs}) k=({hkz},{ckz}): got {[str(SymNum.lift(g).expr) for g in got]}")
        # ---- one balance point against the segment limits
        for order in weak_orders(["c_hdd_bp", "T_min_seg", "T_max_seg"]):
            if order["T_min_seg"] > order["T_max_seg"]:
                continue
            val = {k_: 10.0 * (r + 2) for k_, r in order.items()}
            A, B = S("T_min", 5.0), S("T_max", 95.0)
            a, b = S("T_min_seg", val["T_min_seg"]), S("T_max_seg", val["T_max_seg"])
            for sl, kz in itertools.product((-2.0, 0.0, 2.0), (0.0, 5.0)):
                slope = Z if sl == 0 else S("c_hdd_beta", sl)
                k = Z if kz == 0 else S("c_hdd_k", kz)
                for key, x in (("c_hdd_tidd_smooth", [S("c_hdd_bp", val["c_hdd_bp"]), slope, k, S("intercept", 100.0)]), ("c_hdd_tidd", [S("c_hdd_bp", val["c_hdd_bp"]), slope, S("intercept", 100.0)])):
                    if key == "c_hdd_tidd" and kz:
                        continue
                    n += 1
                    got = run(gx, key, SVec(x), A, B, a, b)
                    want = ref_get(key, x, A, B, a, b)
                    if not same_vec(got, want):
                        bad.setdefault(f"{gx.key}|c_hdd-sign-convention-and-clamp", []).append(f"{key} order={order} slope={sl} k={kz}: got {[str(SymNum.lift(g).expr) for g in got]} want {[str(w.expr) for w in want]}")
        n += 1
        got = run(gx, "tidd", SVec([S("intercept", 100.0)]), S("T_min", 5.0), S("T_max", 95.0), S("T_min_seg", 10.0), S("T_max_seg", 90.0))
        if not same_vec(got, ref_get("tidd", [S("intercept", 100.0)], None, None, None, None) if False else [Z, Z, Z, Z, Z, Z, S("intercept", 100.0)]):
            bad.setdefault(f"{gx.key}|tidd", []).append(f"got {[str(SymNum.lift(g).expr) for g in got]}")
    except Unsupported as e:
        raise AnalysisError(f"kernel wrappers use an operation outside the modelled subset: {e}")
    except (KeyError, IndexError, TypeError, ValueError) as e:
        r4.require(False, f"{gx.key}|defined", gx.where(), f"the wrappers fail on an abstract state ({type(e).__name__}: {e})")
        return
    if n < 1500:
        raise AnalysisError(f"kernel wrappers: only {n} abstract states interpreted")
    texts = {"swap-all-three-pairs": "when cdd_bp < hdd_bp the balance points, slopes and smoothing parameters must be swapped together",
             "end-of-fit-range-or-zero-smoothing": "a slope whose balance point lies at the end of the *fit range* (T_min, T_max) is dropped, and a zero slope has zero smoothing; the 7-vector stays in kernel order",
             "end-of-range-or-zero-smoothing": "a slope whose balance point lies at the end of the given range is dropped, and a zero slope has zero smoothing",
             "c_hdd-sign-convention-and-clamp": "single-slope models: a negative slope is a heating slope of magnitude -slope, otherwise a cooling slope; an unsmoothed balance point is clamped into [T_min_seg, T_max_seg]",
             "tidd": "a temperature-independent model has all slopes, smoothing parameters and balance points zero"}
    for key, rows in sorted(bad.items()):
        r4.require(False, key, (gx if key.startswith(gx.key) else fx).where(), f"{key.split(':')[-1].split('|')[0]}: {texts[key.split('|')[1]]}; {len(rows)} abstract state(s) deviate, e.g. {rows[0][:300]}",
                   sample={"states": rows[:4]})
    for k_ in ("swap-all-three-pairs", "end-of-fit-range-or-zero-smoothing", "c_hdd-sign-convention-and-clamp", "tidd"):
        r4.inst(f"{gx.key}|{k_}")
    r4.inst(f"{fx.key}|swap-all-three-pairs")
    r4.inst(f"{fx.key}|end-of-range-or-zero-smoothing")
    r4.inst(f"wrappers|abstract-states={n}")
    # the scoring kernel reorders in the same way (its own swap is covered by R11.1's exhaustive regime table)


def weak_orders(symbols: List[str]):
    """All total pre-orders (orderings with ties) of the symbols, as dict symbol -> rank."""
    n = len(symbols)
    seen = set()
    for ranks in itertools.product(range(n), repeat=n):
        used = sorted(set(ranks))
        if used != list(range(len(used))):
            continue
        if ranks in seen:
            continue
        seen.add(ranks)
        yield dict(zip(symbols, ranks))


def run(chk):
    chk.explanation = (
        "The full_model kernel touches its inputs only through comparisons and sign flips, so its regime choice is a function of a finite "
        "set of orderings.  The regime-selection statement of the kernel is interpreted (checker's interpreter) under every total pre-order of "
        "{T_i, hdd_bp, cdd_bp, T_min, T_max} with T_min <= T_max and every zero/non-zero vector of (hdd_beta, cdd_beta, hdd_k, cdd_k) — an "
        "exhaustive enumeration of the abstract domain — and the selected (T_bp, beta, k) is compared with the property's regime table. "
        "The three evaluation branches are normalised to closed forms (sympy as term normaliser) and shown to meet at the balance point; "
        "get_smooth_coeffs keeps the balance points ordered; the load decomposition uses the very vector handed to the kernel.")
    chk.trusted += ["only comparisons decide the regime, so one representative valuation per pre-order is exhaustive for that pre-order"]
    chk.not_decided += ["non-negativity and monotonicity of the *smoothed* curve as real-analysis facts (needs exp(-u) >= 1 - u)", "all floating-point statements",
                        "the sign premises beta >= 0, k >= 0 are supplied by the optimiser bounds (C12)"]
    r1 = chk.rule("R11.1", "regime table by exhaustive order-domain evaluation: below the lower balance point -> heating (T_bp=hdd_bp, beta=-hdd_beta, k=+hdd_k); above the upper -> cooling (cdd_bp, +cdd_beta, -cdd_k); between (inclusive) -> flat", 3000)
    r2 = chk.rule("R11.2", "closed forms: unsmoothed = beta*(T - T_bp) + intercept; smoothed adds |beta*k|*(exp((T - T_bp)/k) - 1); both equal intercept at T = T_bp", 4)
    r3 = chk.rule("R11.3", "decomposition: load_only = model - x[6]; heating where T <= x[0], cooling where T >= x[3]; x is the vector passed to the kernel (after smoothing)", 6)
    r4 = chk.rule("R11.4", "wrappers and fix_full_model_x keep the 7-vector in kernel order; fix swaps the three coefficient pairs together", 5)
    r6 = chk.rule("R11.6", "no regime choice rests on the last bit: where the smoothing fractions use up the whole gap, the two shifted balance points handed to the kernel are one value, not two separately rounded ones", 2)
    r5 = chk.rule("R11.5", "get_smooth_coeffs: k = fraction * gap, balance points move inward by k, fractions renormalised when they sum to more than 1 (gap stays >= 0)", 4)

    fm = chk.repo.func(FM, "full_model")
    params = fm.params
    if params[:7] != ["hdd_bp", "hdd_beta", "hdd_k", "cdd_bp", "cdd_beta", "cdd_k", "intercept"]:
        r4.require(False, f"{fm.key}|parameter-order", fm.where(), f"full_model parameter order changed: {params[:7]}")
        return
    # The whole kernel is interpreted from its AST on *dual* numbers: a representative value (decides every comparison of the
    # abstract state) and a symbolic expression over the parameter names (what is computed).  For every abstract state the
    # expression returned for the one temperature T_i is compared with the closed form of the property's regime table.
    from engine.absint import ModuleEnv

    SY = {n: sp.Symbol(n, real=True) for n in ("T_i", "hdd_bp", "cdd_bp", "T_min", "T_max", "hdd_beta", "cdd_beta", "hdd_k", "cdd_k", "intercept")}

    def closed_form(bp, beta, k):
        lin = beta * (SY["T_i"] - bp) + SY["intercept"]
        if k == 0:
            return lin
        return sp.Abs(beta * k) * (sp.exp((SY["T_i"] - bp) / k) - 1) + lin

    _eq_cache: Dict[Tuple[str, str], bool] = {}

    def same(a, b) -> bool:
        key = (str(a), str(b))
        if key not in _eq_cache:
            d = sp.simplify(a - b)
            _eq_cache[key] = d == 0
        return _eq_cache[key]

    symbols = ["Ti", "hdd_bp", "cdd_bp", "T_min", "T_max"]
    n_states = 0
    findings: Dict[str, List[Any]] = {}
    forms_seen = set()
    for order in weak_orders(symbols):
        if order["T_min"] > order["T_max"]:
            continue
        val = {s_: 10.0 * (r + 1) for s_, r in order.items()}
        for zb in itertools.product([False, True], repeat=4):
            hb = SymNum(0.0, sp.Integer(0)) if zb[0] else SymNum(HB, SY["hdd_beta"])
            cb = SymNum(0.0, sp.Integer(0)) if zb[1] else SymNum(CB, SY["cdd_beta"])
            hk = SymNum(0.0, sp.Integer(0)) if zb[2] else SymNum(HK, SY["hdd_k"])
            ck = SymNum(0.0, sp.Integer(0)) if zb[3] else SymNum(CK, SY["cdd_k"])
            n_states += 1
            it = Interp(step_limit=20000)
            env = ModuleEnv(chk.repo, fm.module, it, {"np": NPs(), "numpy": NPs(), "LN_MIN_POS_SYSTEM_VALUE": -700.0, "LN_MAX_POS_SYSTEM_VALUE": 700.0})
            args = [SymNum(val["hdd_bp"], SY["hdd_bp"]), hb, hk, SymNum(val["cdd_bp"], SY["cdd_bp"]), cb, ck, SymNum(100.0, SY["intercept"]),
                    SVec([SymNum(val["T_min"], SY["T_min"]), SymNum(val["T_max"], SY["T_max"])]), SVec([SymNum(val["Ti"], SY["T_i"])])]
            try:
                res = Function(fm.node, env, it)(*args)
                out = list(res)[0] if not isinstance(res, SymNum) else res
                got = SymNum.lift(out).expr if out is not None else None
            except Unsupported as e:
                r1.require(False, f"{fm.key}|interpretable", fm.where(), f"cannot establish the regime table: {e}")
                return
            except (KeyError, IndexError, TypeError) as e:
                r1.require(False, f"{fm.key}|defined", fm.where(), f"the kernel fails ({type(e).__name__}: {e}) for ordering {order} zero-flags {zb}")
                continue
            if got is None:
                r1.require(False, f"{fm.key}|defined", fm.where(), f"the kernel leaves the output undefined for ordering {order} zero-flags {zb}")
                continue
            # ---- the property's regime table (written independently of the kernel)
            h = (val["hdd_bp"], hb, hk, SY["hdd_bp"])
            c = (val["cdd_bp"], cb, ck, SY["cdd_bp"])
            if c[0] < h[0]:
                h, c = c, h
            Ti = val["Ti"]
            heat = closed_form(h[3], -h[1].expr, h[2].expr) if h[1].val != 0 else SY["intercept"]
            cool = closed_form(c[3], c[1].expr, -c[2].expr) if c[1].val != 0 else SY["intercept"]
            if hb.val == 0 and cb.val == 0:
                want, regime = SY["intercept"], "flat"
            elif Ti < h[0]:
                want, regime = heat, "heating"
            elif Ti > c[0]:
                want, regime = cool, "cooling"
            else:
                want, regime = SY["intercept"], "flat"
            forms_seen.add(str(got))
            if not same(got, want):
                degenerate = h[0] == c[0]
                if degenerate and ((c[0] >= val["T_max"] and same(got, heat)) or (h[0] <= val["T_min"] and same(got, cool))):
                    kind = "degenerate-line-through-balance-point"
                elif any(same(got, alt) for alt in (heat, cool, SY["intercept"])):
                    kind = "regime"
                else:
                    kind = "closed-form"
                findings.setdefault(kind, []).append({"order": {k_: v_ for k_, v_ in sorted(order.items(), key=lambda kv: kv[1])}, "zero": zb, "computed": str(got), "table": str(want), "regime": regime})
            r1.inst(f"state|{sorted(order.items())}|{zb}", {"ordering": " <= ".join(k_ for k_, _ in sorted(order.items(), key=lambda kv: kv[1])), "zero_flags(hb,cb,hk,ck)": zb, "regime": regime, "computed": str(got)[:80]})
    for kind, rows in findings.items():
        if kind == "degenerate-line-through-balance-point":
            r1.violate(f"{fm.key}|degenerate-balance-points-at-the-fit-range-edge", fm.where(),
                       f"when hdd_bp == cdd_bp lies at/after T_max (resp. at/before T_min) the kernel applies the heating (resp. cooling) line to *every* temperature, also beyond the balance point: "
                       f"the curve keeps falling as it gets hotter above the balance point (negative 'cooling load'); {len(rows)} abstract states, e.g. {rows[0]}", {"states": rows[:6]})
        elif kind == "regime":
            r1.violate(f"{fm.key}|regime-table", fm.where(), f"the kernel's regime choice deviates from the property's table in {len(rows)} abstract states, e.g. {rows[0]}", {"states": rows[:8]})
        else:
            r2.violate(f"{fm.key}|closed-form", fm.where(), f"the value the kernel computes is none of the property's closed forms (intercept / beta*(T - T_bp) + intercept / smoothed) in {len(rows)} abstract states, e.g. {rows[0]}",
                       {"states": rows[:8]})
    # ------------------------------------------------------------------ R11.2 closed forms: continuity at the balance point
    Tbp, beta_s, k_s = sp.Symbol("T_bp", real=True), sp.Symbol("beta", real=True), sp.Symbol("k", real=True, nonzero=True)
    for nm, f_ in (("linear", beta_s * (SY["T_i"] - Tbp) + SY["intercept"]), ("smoothed", sp.Abs(beta_s * k_s) * (sp.exp((SY["T_i"] - Tbp) / k_s) - 1) + beta_s * (SY["T_i"] - Tbp) + SY["intercept"])):
        r2.require(sp.simplify(f_.subs(SY["T_i"], Tbp) - SY["intercept"]) == 0, f"{fm.key}|continuity-at-balance-point:{nm}", fm.where(), f"the {nm} form must equal the intercept at T = T_bp")
    r2.inst(f"{fm.key}|closed-forms-compared-in-every-state")
    r2.inst(f"{fm.key}|distinct-computed-forms={len(forms_seen)}")
    if len(forms_seen) < 5:
        raise AnalysisError(f"full_model: only {len(forms_seen)} distinct computed forms over the abstract domain (expected flat / linear / smoothed for heating and cooling)")

    # ------------------------------------------------------------------ R11.3 decomposition (interpreted: rules/evaluators.py)
    from rules.evaluators import KEYS, evaluator_outcomes, judge as judge_eval
    dm = chk.repo.cls(*DAILY_MODEL)
    for f, kind in ((method(chk, dm, "_predict_submodel"), "stored"), (chk.repo.func("opendsm.eemeter.models.daily.optimize_results", "OptimizedResult.eval"), "fitted")):
        outs = evaluator_outcomes(chk, f, kind)
        seen = set()
        for mk, o in outs.items():
            for ob, msg in judge_eval(o, mk):
                key = f"{f.key}|{ob}"
                if (key, msg[:60]) in seen:
                    continue
                seen.add((key, msg[:60]))
                r3.require(False, key, f.where(), f"{f.qualname} (model_key={mk}): {msg}", sample={"function": f.qualname, "model_key": mk})
        for ob in ("kernel-gets-x", "loads", "order", "limits", "f_unc", "shape"):
            r3.inst(f"{f.key}|{ob}")

    # ------------------------------------------------------------------ R11.4
    check_kernel_wrappers(chk, r4)

    # ------------------------------------------------------------------ R11.5 get_smooth_coeffs (interpreted on dual numbers)
    from engine.absint import ModuleEnv
    gs = chk.repo.func(BM, "get_smooth_coeffs")
    if gs.params[:4] != ["hdd_bp", "pct_hdd_k", "cdd_bp", "pct_cdd_k"]:
        raise AnalysisError(f"get_smooth_coeffs signature changed: {gs.params}")
    hbp_s, ph_s, cbp_s, pc_s = sp.symbols("hdd_bp pct_hdd_k cdd_bp pct_cdd_k", real=True)

    class _LW(Stub):
        def _abs_call(self, x):
            r_ = SymNum(0.2, sp.Function("lambertw")(SymNum.lift(x).expr))
            r_.real = r_
            return r_
    gap = cbp_s - hbp_s
    scen = {"both-fractions-below-1%": (0.001, 0.002, [hbp_s, sp.Integer(0), cbp_s, sp.Integer(0)]),
            "fractions-sum<=1": (0.2, 0.3, [hbp_s + ph_s * gap, ph_s * gap, cbp_s - pc_s * gap, pc_s * gap]),
            "fractions-sum=1": (0.4, 0.6, [hbp_s + ph_s * gap, ph_s * gap, cbp_s - pc_s * gap, pc_s * gap]),
            "fractions-sum>1": (0.8, 0.6, [hbp_s + ph_s / (ph_s + pc_s) * gap, ph_s / (ph_s + pc_s) * gap, cbp_s - pc_s / (ph_s + pc_s) * gap, pc_s / (ph_s + pc_s) * gap]),
            "one-fraction-below-1%": (0.001, 0.5, [hbp_s + ph_s * gap, ph_s * gap, cbp_s - pc_s * gap, pc_s * gap])}
    for nm, (phv, pcv, want) in scen.items():
        try:
            it = Interp(step_limit=20000)
            env = ModuleEnv(chk.repo, gs.module, it, {"np": NPs(), "numpy": NPs(), "lambertw": _LW()})
            res = list(Function(gs.node, env, it)(SymNum(50.0, hbp_s), SymNum(phv, ph_s), SymNum(70.0, cbp_s), SymNum(pcv, pc_s)))
            got = [SymNum.lift(x).expr for x in res]
        except Unsupported as e:
            raise AnalysisError(f"get_smooth_coeffs uses an operation outside the modelled subset: {e}")
        # the scenario with fractions summing to exactly 1 is judged modulo that constraint (pct_cdd_k = 1 - pct_hdd_k)
        con = (lambda e: sp.sympify(e).subs(pc_s, 1 - ph_s)) if nm == "fractions-sum=1" else (lambda e: e)
        ok = len(got) == 4 and all(sp.simplify(con(g) - con(w)) == 0 for g, w in zip(got, want))
        key = {"both-fractions-below-1%": "unsmoothed-below-1%", "fractions-sum>1": "renormalised-when-sum>1"}.get(nm, "k=fraction*gap")
        r5.require(ok, f"{gs.key}|{key}|{nm}", gs.where(),
                   f"get_smooth_coeffs ({nm}): expected [hdd_bp + k_h, k_h, cdd_bp - k_c, k_c] with k = fraction * (cdd_bp - hdd_bp)"
                   f"{' after dividing both fractions by their sum' if nm == 'fractions-sum>1' else ''}{' = [hdd_bp, 0, cdd_bp, 0]' if nm.startswith('both') else ''}; found {[str(sp.simplify(g)) for g in got]}",
                   sample={"scenario": nm, "result": [str(sp.simplify(g)) for g in got]})
        if ok and len(got) == 4:
            new_gap = sp.simplify(con(got[2]) - con(got[0]))
            r5.require(sp.simplify(new_gap - sp.simplify(con(want[2]) - con(want[0]))) == 0, f"{gs.key}|gap-shrinks-by-fractions|{nm}", gs.where(), f"shifted balance points: new gap {new_gap}")
        # R11.6 exact tie: when the fractions use up the whole gap the two shifted balance points are one point.  The kernel orders its
        # balance points with a strict comparison and swaps the heating and cooling coefficients when they come out reversed (R11.1), so
        # two separately rounded computations of that one point must not be handed on: they have to be the same value (same object /
        # structurally the same expression), otherwise which regime table applies is decided by the last bit.
        if nm in ("fractions-sum=1", "fractions-sum>1") and len(res) == 4:
            a_, b_ = res[0], res[2]
            same = a_ is b_ or (SymNum.lift(a_).expr == SymNum.lift(b_).expr)
            r6.require(same, f"{gs.key}|tie-is-one-value|{nm}", gs.where(),
                       f"get_smooth_coeffs ({nm}): the shifted balance points are algebraically equal (gap {sp.simplify(SymNum.lift(b_).expr - SymNum.lift(a_).expr) if nm.endswith('>1') else '(cdd_bp - hdd_bp)*(1 - pct_hdd_k - pct_cdd_k) = 0'}) "
                       f"but are computed separately as `{SymNum.lift(a_).expr}` and `{SymNum.lift(b_).expr}`; in floating point the second can land one ulp below the first, full_model's "
                       "`cdd_bp < hdd_bp` swap then fires and the heating side is evaluated with the cooling slope and smoothing",
                       sample={"scenario": nm, "hdd_bp'": str(SymNum.lift(a_).expr), "cdd_bp'": str(SymNum.lift(b_).expr)})
