"""C06 — the clock-normalisation step of the hourly model, decided exhaustively over every shape a local day can take.

The three helpers that turn days of 23 / 25 clock hours into 24 model slots and back

    _get_dst_indices(df)                       which (day, hour) slots are synthesised / merged
    correct_dst(agg)  (in _get_feature_matrices)  per-day feature lists -> exactly 24 slots
    _transform_dst(prediction, dst_indices)    24 slots per day -> one value per real timestamp

are *interpreted from their AST* (engine/pyinterp, the checker's own semantics; nothing of the repository is imported or run)
over an abstract hourly frame:

  * the frame is a sequence of local days; each day is one of the shapes of spec/dst_day_shapes.json (every distinct sequence of
    wall-clock stamps a local date takes on an hourly grid in any IANA zone 2000-2037, generated from the tz database by
    tools/gen_dst_shapes.py) or the ordinary 24-stamp day;
  * values are *provenance vectors* (which input rows / model slots a number was computed from, with rational weights), so the
    verdict is about which slot feeds which timestamp, not about numbers;
  * the pandas operations the helpers use are modelled by a small stand-in (AFrame, AIndex, ASeries ...) that implements
    exactly the documented behaviour of the operations listed in PANDAS_FACTS; any other operation makes the analysis stop
    with ANALYSIS-ERROR (never a silent pass, never a guessed verdict).

Obligations per (day shape, position of that day in the span):
  O1  no helper raises;
  O2  after correct_dst every day has exactly 24 slots (otherwise the feature matrix is ragged and predict raises);
  O3  _transform_dst returns exactly one value per timestamp of the frame (otherwise the column assignment raises);
  O4  no shift: the value at a timestamp whose wall-clock hour occurs once on its day derives from the model slot of that very
      (day, hour) and nothing else; the two timestamps of a repeated hour derive from that hour's slot (and at most the next one);
  O5  every value has a non-empty provenance (finite prediction);
  O6  on the real clock: after correct_dst, slot s of a day is fed by the row whose wall-clock hour is s when that hour occurs once
      (a synthesised slot by its neighbours, a merged slot by both rows of the repeated hour) — otherwise the model sees hour s+1's
      weather in slot s and every later prediction of that day is shifted by an hour.
"""
from __future__ import annotations

import ast
import json
import os
from fractions import Fraction
from typing import Dict, List, Optional, Tuple

from engine.index import AnalysisError, unparse
from engine.absint import ModuleEnv
from engine.pyinterp import Env, Function, Interp, InterpRaised, Stub, StubCall, Unsupported
from rules.common import HOURLY_MODEL, method

HERE = os.path.dirname(os.path.dirname(os.path.abspath(__file__)))
HM = "opendsm.eemeter.models.hourly.model"

PANDAS_FACTS = [
    "df.groupby(df.index.date).size() is a Series indexed by the distinct local dates in ascending order whose values are the row counts",
    "series[series == k] keeps the entries equal to k; series.index.get_loc(label) is the position of the label; iterating an Index yields its labels",
    "df.loc['<YYYY-MM-DD>'] on a tz-aware DatetimeIndex selects the rows of that local date but first localises the date's 00:00:00 and "
    "23:59:59.999999999 in the index's zone and raises (KeyError / ValueError) when either does not exist or is ambiguous (pandas partial-string indexing)",
    "df[mask] / df.loc[mask] with a boolean mask keeps the rows where the mask is true; df.index.date == d is such a mask",
    "DatetimeIndex.hour / .minute are the wall-clock fields in index order; tz_localize(None) keeps the wall clock; Index.duplicated() marks every "
    "occurrence after the first of an equal value; index[mask] filters, index[i] is the i-th element",
    "np.concatenate(list of 1-d sequences) is their concatenation in order",
]


# ------------------------------------------------------------------------------------------------ provenance values
class PV:
    """A rational linear combination of source tokens."""

    __slots__ = ("w",)

    def __init__(self, w: Dict[Tuple, Fraction]):
        self.w = {k: v for k, v in w.items() if v != 0}

    @staticmethod
    def tok(*t) -> "PV":
        return PV({tuple(t): Fraction(1)})

    def __add__(self, o):
        if isinstance(o, (int, float)) and o == 0:
            return self
        if not isinstance(o, PV):
            raise Unsupported("provenance value combined with a non-provenance operand")
        w = dict(self.w)
        for k, v in o.w.items():
            w[k] = w.get(k, Fraction(0)) + v
        return PV(w)

    __radd__ = __add__

    def __truediv__(self, k):
        if isinstance(k, bool) or not isinstance(k, (int, Fraction)):
            raise Unsupported("provenance value divided by a non-integer")
        return PV({t: v / k for t, v in self.w.items()})

    def __mul__(self, k):
        if isinstance(k, bool) or not isinstance(k, (int, Fraction)):
            raise Unsupported("provenance value multiplied by a non-integer")
        return PV({t: v * k for t, v in self.w.items()})

    __rmul__ = __mul__

    def support(self):
        return set(self.w)

    def __repr__(self):
        return "+".join(f"{v}*{k}" for k, v in sorted(self.w.items())) or "0"


# ------------------------------------------------------------------------------------------------ the frame stand-in
class ModelRaise(Exception):
    """A modelled pandas operation raises (per PANDAS_FACTS)."""


class ADate(Stub):
    def __init__(self, n: int):
        self.n = n

    def isoformat(self):
        return f"D{self.n:04d}"

    def __eq__(self, o):
        return isinstance(o, ADate) and o.n == self.n

    def __hash__(self):
        return hash(("ADate", self.n))

    def __lt__(self, o):
        return self.n < o.n

    def __repr__(self):
        return self.isoformat()


class AStamp(Stub):
    def __init__(self, day: int, hour: int, minute: int, row: int, aware: bool = True):
        self.day, self.hour, self.minute, self.row, self.aware = day, hour, minute, row, aware
        self.second = 0
        self.microsecond = 0

    def date(self):
        return ADate(self.day)

    def _key(self):
        return (self.day, self.hour, self.minute)

    def __eq__(self, o):
        if not isinstance(o, AStamp):
            return False
        if self.aware or o.aware:
            return self.row == o.row  # distinct instants
        return self._key() == o._key()

    def __hash__(self):
        return hash(self.row if self.aware else self._key())


class AMask(Stub):
    def __init__(self, bits: List[bool]):
        self.bits = list(bits)

    def __invert__(self):
        return AMask([not b for b in self.bits])

    def __and__(self, o):
        return AMask([a and b for a, b in zip(self.bits, o.bits)])

    def __or__(self, o):
        return AMask([a or b for a, b in zip(self.bits, o.bits)])

    def any(self):
        return any(self.bits)

    def sum(self):
        return sum(self.bits)


class ADateArray(Stub):
    def __init__(self, dates: List[ADate]):
        self.dates = dates

    def __eq__(self, o):
        if isinstance(o, ADate):
            return AMask([d == o for d in self.dates])
        raise Unsupported("comparison of a date array with " + type(o).__name__)

    __hash__ = None

    def __iter__(self):
        return iter(self.dates)

    def __len__(self):
        return len(self.dates)


class AIntIndex(Stub):
    """The integer Index that DatetimeIndex.hour / .minute give: iterable, sized, indexable by position or mask, with duplicated()."""

    def __init__(self, vals: List[int]):
        self.vals = list(vals)

    def __iter__(self):
        return iter(self.vals)

    def __len__(self):
        return len(self.vals)

    def _abs_len(self):
        return len(self.vals)

    def __contains__(self, v):
        return v in self.vals

    def tolist(self):
        return list(self.vals)

    to_list = tolist

    @property
    def values(self):
        return self

    def to_numpy(self):
        return self

    def unique(self):
        out: List[int] = []
        for v in self.vals:
            if v not in out:
                out.append(v)
        return AIntIndex(out)

    def duplicated(self, keep="first"):
        if keep != "first":
            raise Unsupported("duplicated(keep != 'first') is not modelled")
        seen, bits = set(), []
        for v in self.vals:
            bits.append(v in seen)
            seen.add(v)
        return AMask(bits)

    def _cmp(self, o, f):
        if isinstance(o, bool) or not isinstance(o, int):
            raise Unsupported("comparison of hours with " + type(o).__name__)
        return AMask([f(v, o) for v in self.vals])

    def __eq__(self, o): return self._cmp(o, lambda a, b: a == b)
    def __ne__(self, o): return self._cmp(o, lambda a, b: a != b)
    def __lt__(self, o): return self._cmp(o, lambda a, b: a < b)
    def __le__(self, o): return self._cmp(o, lambda a, b: a <= b)
    def __gt__(self, o): return self._cmp(o, lambda a, b: a > b)
    def __ge__(self, o): return self._cmp(o, lambda a, b: a >= b)
    __hash__ = None  # type: ignore

    def __getitem__(self, k):
        if isinstance(k, AMask):
            if len(k.bits) != len(self.vals):
                raise Unsupported("mask length differs from index length")
            return AIntIndex([v for v, b in zip(self.vals, k.bits) if b])
        if isinstance(k, slice):
            return AIntIndex(self.vals[k])
        if isinstance(k, bool) or not isinstance(k, int):
            raise Unsupported("hours[...] with " + type(k).__name__)
        if not -len(self.vals) <= k < len(self.vals):
            raise ModelRaise(f"IndexError: index {k} is out of bounds for axis 0 with size {len(self.vals)}")
        return self.vals[k]


class AIndex(Stub):
    """DatetimeIndex stand-in (aware=True) or its wall-clock twin after tz_localize(None)."""

    def __init__(self, stamps: List[AStamp], aware: bool = True):
        self.stamps = stamps
        self.aware = aware

    @property
    def date(self):
        return ADateArray([ADate(s.day) for s in self.stamps])

    @property
    def hour(self):
        return AIntIndex([s.hour for s in self.stamps])

    @property
    def minute(self):
        return AIntIndex([s.minute for s in self.stamps])

    def tz_localize(self, tz):
        if tz is not None:
            raise Unsupported("tz_localize(<zone>) is not modelled")
        return AIndex([AStamp(s.day, s.hour, s.minute, s.row, aware=False) for s in self.stamps], aware=False)

    def duplicated(self, keep="first"):
        if keep != "first":
            raise Unsupported("duplicated(keep != 'first') is not modelled")
        seen, bits = set(), []
        for s in self.stamps:
            k = s.row if s.aware else s._key()
            bits.append(k in seen)
            seen.add(k)
        return AMask(bits)

    def __getitem__(self, k):
        if isinstance(k, AMask):
            if len(k.bits) != len(self.stamps):
                raise Unsupported("mask length differs from index length")
            return AIndex([s for s, b in zip(self.stamps, k.bits) if b], self.aware)
        if isinstance(k, bool) or not isinstance(k, int):
            raise Unsupported("index[...] with " + type(k).__name__)
        if not -len(self.stamps) <= k < len(self.stamps):
            raise ModelRaise(f"IndexError: index {k} is out of bounds for axis 0 with size {len(self.stamps)}")
        return self.stamps[k]

    def __iter__(self):
        return iter(self.stamps)

    def __len__(self):
        return len(self.stamps)


class ALabelIndex(Stub):
    def __init__(self, labels: List[ADate]):
        self.labels = labels

    def get_loc(self, label):
        for i, l in enumerate(self.labels):
            if l == label:
                return i
        raise ModelRaise(f"KeyError: {label!r}")

    def __iter__(self):
        return iter(self.labels)

    def __len__(self):
        return len(self.labels)


class ASeries(Stub):
    def __init__(self, labels: List[ADate], values: List[int]):
        self.labels, self.values = labels, values

    @property
    def index(self):
        return ALabelIndex(self.labels)

    def _cmp(self, o, f):
        if isinstance(o, bool) or not isinstance(o, int):
            raise Unsupported("series compared with " + type(o).__name__)
        return AMask([f(v, o) for v in self.values])

    def __eq__(self, o):
        return self._cmp(o, lambda a, b: a == b)

    def __ne__(self, o):
        return self._cmp(o, lambda a, b: a != b)

    def __lt__(self, o):
        return self._cmp(o, lambda a, b: a < b)

    def __le__(self, o):
        return self._cmp(o, lambda a, b: a <= b)

    def __gt__(self, o):
        return self._cmp(o, lambda a, b: a > b)

    def __ge__(self, o):
        return self._cmp(o, lambda a, b: a >= b)

    __hash__ = None

    def __getitem__(self, k):
        if isinstance(k, AMask):
            return ASeries([l for l, b in zip(self.labels, k.bits) if b], [v for v, b in zip(self.values, k.bits) if b])
        raise Unsupported("series[...] with " + type(k).__name__)

    def __len__(self):
        return len(self.values)


class AGroupBy(Stub):
    def __init__(self, frame: "AFrame", keys: ADateArray):
        self.frame, self.keys = frame, keys

    def size(self):
        counts: Dict[int, int] = {}
        for d in self.keys.dates:
            counts[d.n] = counts.get(d.n, 0) + 1
        ks = sorted(counts)
        return ASeries([ADate(k) for k in ks], [counts[k] for k in ks])


class ALoc(Stub):
    def __init__(self, frame: "AFrame"):
        self.frame = frame

    def __getitem__(self, k):
        if isinstance(k, str):
            days = [d for d in self.frame.days if ADate(d).isoformat() == k]
            if not days:
                raise ModelRaise(f"KeyError: {k!r}")
            d = days[0]
            ok0, ok1 = self.frame.bounds.get(d, (True, True))
            if not ok0:
                raise ModelRaise(f"KeyError: {k!r} (the day's 00:00:00 does not exist or is ambiguous in the index's zone; pandas partial-string indexing localises both day bounds)")
            if not ok1:
                raise ModelRaise(f"ValueError: {k} 23:59:59.999999999 does not exist or is ambiguous in the index's zone (pandas partial-string indexing localises both day bounds)")
            return AFrame([s for s in self.frame.stamps if s.day == d], self.frame.bounds)
        if isinstance(k, AMask):
            return self.frame[k]
        raise Unsupported("df.loc[...] with " + type(k).__name__)


class AFrame(Stub):
    def __init__(self, stamps: List[AStamp], bounds: Dict[int, Tuple[bool, bool]]):
        self.stamps = stamps
        self.bounds = bounds
        self.days = sorted({s.day for s in stamps})

    @property
    def index(self):
        return AIndex(self.stamps)

    @property
    def loc(self):
        return ALoc(self)

    def groupby(self, key):
        if isinstance(key, ADateArray) and len(key.dates) == len(self.stamps):
            return AGroupBy(self, key)
        if key == "date":
            return AGroupBy(self, ADateArray([ADate(s.day) for s in self.stamps]))
        raise Unsupported("groupby key other than the index's dates")

    def __getitem__(self, k):
        if isinstance(k, AMask):
            if len(k.bits) != len(self.stamps):
                raise Unsupported("mask length differs from frame length")
            return AFrame([s for s, b in zip(self.stamps, k.bits) if b], self.bounds)
        raise Unsupported("df[...] with " + type(k).__name__)

    def __len__(self):
        return len(self.stamps)


NANPV = PV({})   # a missing value: empty provenance (what NaN is under this abstraction)


class NArr(Stub):
    """A 1-d NumPy array under the provenance abstraction: its entries are provenance values, integers (positions) or booleans."""

    def __init__(self, xs):
        self.xs = list(xs)

    def __iter__(self):
        return iter(self.xs)

    def _abs_len(self):
        return len(self.xs)

    def __len__(self):
        return len(self.xs)

    def _pos(self, i):
        if isinstance(i, bool) or not isinstance(i, int):
            raise Unsupported("array position that is not an integer")
        if not -len(self.xs) <= i < len(self.xs):
            raise IndexError(f"index {i} is out of bounds for axis 0 with size {len(self.xs)}")
        return i

    def __getitem__(self, k):
        if isinstance(k, slice):
            return NArr(self.xs[k])
        if isinstance(k, NArr):
            if k.xs and all(isinstance(b, bool) for b in k.xs):
                if len(k.xs) != len(self.xs):
                    raise IndexError(f"boolean index did not match indexed array: {len(self.xs)} vs {len(k.xs)}")
                return NArr([x for x, b in zip(self.xs, k.xs) if b])
            return NArr([self.xs[self._pos(i)] for i in k.xs])
        if isinstance(k, list):
            return self[NArr(k)]
        return self.xs[self._pos(k)]

    def __setitem__(self, k, v):
        if isinstance(k, (NArr, list)):
            ks = list(k)
            if ks and all(isinstance(b, bool) for b in ks):
                ks = [i for i, b in enumerate(ks) if b]
            vs = list(v) if isinstance(v, (NArr, list)) else [v] * len(ks)
            if len(vs) != len(ks):
                raise ValueError("shape mismatch in array assignment")
            for i, x in zip(ks, vs):
                self.xs[self._pos(i)] = x
            return
        if isinstance(k, slice):
            raise Unsupported("slice assignment into an array")
        self.xs[self._pos(k)] = v

    def _ew(self, o, f, swap=False):
        if isinstance(o, (NArr, list)):
            ys = list(o)
            if len(ys) != len(self.xs):
                raise ValueError(f"operands could not be broadcast together with shapes ({len(self.xs)},) ({len(ys)},)")
            return NArr([f(b, a) if swap else f(a, b) for a, b in zip(self.xs, ys)])
        return NArr([f(o, a) if swap else f(a, o) for a in self.xs])

    def __add__(self, o): return self._ew(o, lambda a, b: a + b)
    def __radd__(self, o): return self._ew(o, lambda a, b: a + b, True)
    def __sub__(self, o): return self._ew(o, lambda a, b: a - b)
    def __rsub__(self, o): return self._ew(o, lambda a, b: a - b, True)
    def __mul__(self, o): return self._ew(o, lambda a, b: a * b)
    def __rmul__(self, o): return self._ew(o, lambda a, b: a * b, True)
    def __truediv__(self, o): return self._ew(o, lambda a, b: a / b)
    def __invert__(self): return NArr([not b for b in self.xs])

    def copy(self): return NArr(self.xs)
    def tolist(self): return list(self.xs)
    def astype(self, t): return NArr(self.xs)
    def flatten(self): return NArr(self.xs)
    def to_numpy(self, *a, **k): return NArr(self.xs)

    @property
    def size(self): return len(self.xs)

    @property
    def shape(self): return (len(self.xs),)

    def __repr__(self):
        return f"NArr({self.xs})"


def _seq(x):
    if isinstance(x, NArr):
        return list(x.xs)
    if isinstance(x, (list, tuple, range)):
        return list(x)
    raise Unsupported("array function applied to something that is not a 1-d sequence")


def _mean(vals):
    if any((isinstance(v, PV) and not v.w) for v in vals):
        return NANPV      # NaN in, NaN out
    acc = vals[0]
    for v in vals[1:]:
        acc = acc + v
    return acc / len(vals)


class _Rolling(Stub):
    def __init__(self, xs, k):
        self.xs, self.k = xs, k

    def mean(self):
        k = self.k
        return PSeries([NANPV if i + 1 < k else _mean(self.xs[i + 1 - k:i + 1]) for i in range(len(self.xs))])


class PSeries(Stub):
    """pd.Series over provenance values with a default RangeIndex: rolling(k).mean(), shift(n), to_numpy()/values, positional .iloc."""

    def __init__(self, xs):
        self.xs = list(xs)

    def rolling(self, window, *a, **k):
        if a or k or not isinstance(window, int) or window < 1:
            raise Unsupported("rolling() other than rolling(<int>)")
        return _Rolling(self.xs, window)

    def shift(self, n=1, **k):
        if k or not isinstance(n, int):
            raise Unsupported("shift() other than shift(<int>)")
        L = len(self.xs)
        if n >= 0:
            return PSeries(([NANPV] * min(n, L) + self.xs[:max(L - n, 0)]))
        return PSeries(self.xs[min(-n, L):] + [NANPV] * min(-n, L))

    def to_numpy(self, *a, **k): return NArr(self.xs)

    @property
    def values(self): return NArr(self.xs)

    def tolist(self): return list(self.xs)
    to_list = tolist

    def _abs_len(self): return len(self.xs)

    def __iter__(self): return iter(self.xs)


class PDp(Stub):
    @staticmethod
    def Series(data=None, *a, **k):
        if a or k:
            raise Unsupported("pd.Series with an index / dtype")
        return PSeries(_seq(data))


class NP(Stub):
    nan = NANPV

    @staticmethod
    def concatenate(parts):
        out = []
        for p in parts:
            out.extend(list(p))
        return out

    @staticmethod
    def asarray(x, dtype=None, **k):
        return NArr(_seq(x))

    array = asarray

    @staticmethod
    def ones(n, dtype=None):
        if not isinstance(n, int):
            raise Unsupported("np.ones with a shape that is not an integer")
        return NArr([True if dtype in (bool, "bool") else 1] * n)

    @staticmethod
    def zeros(n, dtype=None):
        if not isinstance(n, int):
            raise Unsupported("np.zeros with a shape that is not an integer")
        return NArr([False if dtype in (bool, "bool") else 0] * n)

    @staticmethod
    def arange(*a):
        return NArr(list(range(*a)))

    @staticmethod
    def insert(arr, obj, values):
        """np.insert on a 1-d array: positions refer to the array *before* insertion; equal positions keep the order given."""
        xs = _seq(arr)
        pos = _seq(obj) if isinstance(obj, (NArr, list, tuple)) else [obj]
        vals = _seq(values) if isinstance(values, (NArr, list, tuple)) else [values] * len(pos)
        if len(vals) != len(pos):
            if len(vals) == 1:
                vals = vals * len(pos)
            else:
                raise ValueError("shape mismatch: value array could not be broadcast to indexing result")
        n = len(xs)
        norm = []
        for p in pos:
            if isinstance(p, bool) or not isinstance(p, int):
                raise Unsupported("np.insert position that is not an integer")
            if not -n <= p <= n:
                raise IndexError(f"index {p} is out of bounds for axis 0 with size {n}")
            norm.append(p + n if p < 0 else p)
        order = sorted(range(len(norm)), key=lambda i: norm[i])   # stable
        out, j = [], 0
        for i in range(n + 1):
            while j < len(order) and norm[order[j]] == i:
                out.append(vals[order[j]])
                j += 1
            if i < n:
                out.append(xs[i])
        return NArr(out)

    @staticmethod
    def delete(arr, obj):
        xs = _seq(arr)
        pos = set(_seq(obj)) if isinstance(obj, (NArr, list, tuple)) else {obj}
        for p in pos:
            if not -len(xs) <= p < len(xs):
                raise IndexError(f"index {p} is out of bounds for axis 0 with size {len(xs)}")
        pos = {p % len(xs) for p in pos} if xs else set()
        return NArr([x for i, x in enumerate(xs) if i not in pos])

    @staticmethod
    def sort(x): return NArr(sorted(_seq(x)))

    @staticmethod
    def mean(x): return _mean(_seq(x))


NORMAL = [(h, 0) for h in range(24)]


def shape_class(sh: dict) -> str:
    if sh["count"] not in (23, 25):
        return "multi-hour-shift"
    if sh["missing_hours"]:
        h = sh["missing_hours"][0]
        return "missing-hour-%s" % (h if h in (0, 23) else "1..22")
    h = sh["repeated_hours"][0]
    kind = "" if sh["wall_clock_repeated"] else ",sub-hour"
    return "repeated-hour-%s%s" % (h if h in (0, 23) else "1..22", kind)


def load_shapes() -> List[dict]:
    p = os.path.join(HERE, "spec", "dst_day_shapes.json")
    doc = json.load(open(p))
    if len(doc["shapes"]) < 30:
        raise AnalysisError("spec/dst_day_shapes.json lists fewer than 30 day shapes")
    return doc["shapes"]


def build_frame(day_shapes: List[Optional[dict]]) -> AFrame:
    stamps, bounds, row = [], {}, 0
    for d, sh in enumerate(day_shapes):
        seq = NORMAL if sh is None else [tuple(x) for x in sh["stamps"]]
        bounds[d] = (True, True) if sh is None else (sh["day_start_localisable"], sh["day_end_localisable"])
        for h, m in seq:
            stamps.append(AStamp(d, h, m, row))
            row += 1
    return AFrame(stamps, bounds)


class Helpers:
    def __init__(self, chk):
        mod = chk.repo.module(HM)
        self.mod = mod
        self.chk = chk
        self.gdi = chk.repo.func(HM, "_get_dst_indices")
        self.tdst = chk.repo.func(HM, "_transform_dst")
        hm = chk.repo.cls(*HOURLY_MODEL)
        gfm = method(chk, hm, "_get_feature_matrices")
        self.gfm = gfm
        cds = [n for n in ast.walk(gfm.node) if isinstance(n, ast.FunctionDef) and n.name == "correct_dst"]
        self.cd_takes_indices = False
        if len(cds) == 1:
            self.cd = cds[0]
            # the helper must be applied to the feature lists (and to the target lists at fit time) before they become arrays
            self.cd_calls = [n for n in ast.walk(gfm.node) if isinstance(n, ast.Call) and isinstance(n.func, ast.Name) and n.func.id == "correct_dst"]
        else:
            # the closure was turned into a module-level / static helper taking the indices explicitly: it was inlined into
            # _get_feature_matrices by the pre-pass and kept aside (engine.inline.REMOVED)
            cand = [n for n in chk.repo.removed_helpers.get(mod.name, []) if isinstance(n, ast.FunctionDef) and "correct_dst" in n.name
                    and len(n.args.args) == 2]
            if len(cand) != 1:
                raise AnalysisError("HourlyModel._get_feature_matrices: the slot-correction helper (correct_dst) cannot be identified")
            self.cd = cand[0]
            self.cd_takes_indices = True
            # its inlined body unpacks the indices once per application
            self.cd_calls = [n for n in ast.walk(gfm.node) if isinstance(n, ast.Assign) and isinstance(n.value, ast.Name) and n.value.id == "dst_indices" and isinstance(n.targets[0], ast.Tuple)]

    def run(self, frame: AFrame) -> dict:
        """Interpret the three helpers on one abstract frame; returns what happened."""
        it = Interp(step_limit=400_000)
        genv = ModuleEnv(self.chk.repo, self.mod, it, {"np": NP(), "numpy": NP(), "pd": PDp(), "pandas": PDp()})   # module scope: constants, records, helper functions
        out = {"stage": None, "raised": None}
        try:
            out["stage"] = "_get_dst_indices"
            f = Function(self.gdi.node, genv, it)
            dst = f(frame)
            interp, mean = dst
            out["indices"] = ([tuple(x) for x in interp], [tuple(x) for x in mean])
            # features: one feature per day, each a list of row tokens
            out["stage"] = "correct_dst"
            agg = []
            for d in frame.days:
                agg.append([[PV.tok("row", s.row) for s in frame.stamps if s.day == d]])
            cenv = Env(genv)
            cenv.set("dst_indices", dst)
            cf = Function(self.cd, cenv, it)
            if self.cd_takes_indices:
                cf(agg, dst)
            else:
                cf(agg)
            out["slots_per_day"] = [len(day[0]) for day in agg]
            out["agg"] = agg
            out["stage"] = "_transform_dst"
            pred = [PV.tok("slot", d, s) for d in range(len(frame.days)) for s in range(24)]
            tf = Function(self.tdst.node, genv, it)
            if [p_ for p_ in self.tdst.params][1:2] not in (["dst_indices"], ["dst_idx"], ["indices"]):
                # the helpers' protocol (prediction, (synthesised slots, merged slots)) is what this analysis models; another interface
                # is not judged, it stops the analysis
                raise AnalysisError(f"_transform_dst no longer takes the DST slot indices as its second argument ({self.tdst.params}): the clock-normalisation protocol changed, the analysis must be updated")
            res = tf(pred, dst)
            out["result"] = list(res)
            out["stage"] = "done"
        except InterpRaised as e:
            out["raised"] = f"{e.exc_name}: {e.text}"
        except ModelRaise as e:
            out["raised"] = str(e)
        except (IndexError, KeyError, StopIteration, ZeroDivisionError, TypeError, ValueError) as e:
            # the checker's interpreter evaluates list/dict operations with Python's own semantics: these are what the code would raise
            out["raised"] = f"{type(e).__name__}: {e}"
        return out


def judge(frame: AFrame, out: dict) -> Optional[Tuple[str, str]]:
    """None if all obligations hold, else (obligation, text)."""
    if out["raised"] is not None:
        return "O1", f"{out['stage']} raises {out['raised']}"
    bad = [(d, n) for d, n in enumerate(out["slots_per_day"]) if n != 24]
    if bad:
        return "O2", f"after correct_dst day {bad[0][0]} has {bad[0][1]} slots (not 24): the per-day feature lists are ragged and cannot form the model matrix"
    by_day0: Dict[int, List[AStamp]] = {}
    for s in frame.stamps:
        by_day0.setdefault(s.day, []).append(s)
    for di, d in enumerate(frame.days):
        slots = out["agg"][di][0]
        hours = [x.hour for x in by_day0[d]]
        for sidx, v in enumerate(slots):
            rows_h = {("row", x.row) for x in by_day0[d] if x.hour == sidx}
            if not isinstance(v, PV) or not v.support():
                return "O6", f"after correct_dst slot {sidx} of day {d} is fed by nothing"
            if hours.count(sidx) == 1 and v.support() != rows_h:
                return "O6", f"after correct_dst slot {sidx:02d} of day {d} is fed by rows {sorted(v.support())} instead of the row of wall-clock hour {sidx:02d} (the model sees another hour's features: shifted)"
            if hours.count(sidx) > 1 and not rows_h <= v.support():
                return "O6", f"after correct_dst slot {sidx:02d} of day {d} (a repeated hour) is not fed by both of its rows"
    res = out["result"]
    if len(res) != len(frame.stamps):
        return "O3", f"_transform_dst returns {len(res)} values for {len(frame.stamps)} timestamps"
    by_day: Dict[int, List[AStamp]] = {}
    for s in frame.stamps:
        by_day.setdefault(s.day, []).append(s)
    for s, v in zip(frame.stamps, res):
        if not isinstance(v, PV) or not v.support():
            return "O5", f"the value at day {s.day} {s.hour:02d}:{s.minute:02d} has empty provenance (not a finite prediction)"
        hours = [x.hour for x in by_day[s.day]]
        own = ("slot", s.day, s.hour)
        if hours.count(s.hour) == 1:
            if v.support() != {own}:
                return "O4", f"the value at day {s.day} {s.hour:02d}:{s.minute:02d} derives from {sorted(v.support())} instead of its own model slot {own} (shifted)"
        else:
            nxt = ("slot", s.day, s.hour + 1) if s.hour < 23 else ("slot", s.day + 1, 0)
            if own not in v.support() or not v.support() <= {own, nxt}:
                return "O4", f"a timestamp of the repeated hour {s.hour:02d} of day {s.day} derives from {sorted(v.support())} (expected its own slot {own}, optionally averaged with the next)"
    return None


def check_dst_normalisation(chk, rule, thorough: bool = False):
    shapes = load_shapes()
    hp = Helpers(chk)
    rule.require(len(hp.cd_calls) >= 1, f"{hp.gfm.key}|correct_dst-applied", hp.gfm.where(), "_get_feature_matrices must apply correct_dst to the per-day feature lists before building the matrix")
    # wiring: the indices handed to correct_dst / _transform_dst are those computed from the frame being predicted
    from engine.cfg import CFG
    from engine.dataflow import ReachingDefs
    from engine.index import calls_in
    hm = chk.repo.cls(*HOURLY_MODEL)
    for mname, callee, pos in (("_predict", "_transform_dst", 1), ("_prepare_features", "self._get_feature_matrices", 1)):
        f = method(chk, hm, mname)
        rd = ReachingDefs(f.node, CFG(f.node))
        cs = [c for c in calls_in(f.node) if unparse(c.func) == callee]
        rule.require(bool(cs), f"{f.key}|calls-{callee}", f.where(), f"HourlyModel.{mname} must call {callee}")
        for c in cs:
            a = c.args[pos] if len(c.args) > pos else None
            st = f.module.enclosing_stmt(c)
            ok = isinstance(a, ast.Name)
            srcs = []
            if ok:
                for d in rd.reaching(st, a.id):
                    v = rd.value_of(d)
                    srcs.append(unparse(v) if v is not None else d.kind)
                    ok = ok and isinstance(v, ast.Call) and unparse(v.func) == "_get_dst_indices" and len(v.args) == 1
            rule.require(ok and bool(srcs), f"{f.key}|{callee}-indices-from-_get_dst_indices", f.where(c),
                         f"HourlyModel.{mname}: the slot indices passed to {callee} must come from _get_dst_indices(<the frame>) on every path; found {srcs}", sample={"sources": srcs})
    failures: Dict[Tuple[str, str, str], List[str]] = {}
    n_runs = 0
    spans = []
    for sh in shapes:
        for pos, days in (("first-day", [sh, None, None]), ("inner-day", [None, sh, None]), ("last-day", [None, None, sh])):
            spans.append((shape_class(sh), pos, days, sh))
    ones = [s for s in shapes if s["count"] in (23, 25)]
    for a in ones:
        for b in ones:
            spans.append((shape_class(a) + " then " + shape_class(b), "two-transitions", [None, a, None, b, None], a))
    for cls, pos, days, sh in spans:
        frame = build_frame(days)
        try:
            out = hp.run(frame)
        except Unsupported as e:
            raise AnalysisError(f"clock-normalisation helpers use an operation outside the modelled subset: {e}")
        n_runs += 1
        v = judge(frame, out)
        if v is not None:
            key = (cls, pos, v[0])
            ex = sh["examples"][0]
            failures.setdefault(key, []).append(f"{v[1]} [e.g. {ex[0]} {ex[1]}]")
    if n_runs < 600:
        raise AnalysisError(f"only {n_runs} abstract frames explored")
    # one finding per (class of day, obligation); positions are listed in the text.  A pair of transitions is reported only when
    # neither of its days already fails alone.
    single = {(c, o) for (c, p, o) in failures if p != "two-transitions"}
    grouped: Dict[Tuple[str, str], Dict[str, List[str]]] = {}
    for (cls, pos, ob), msgs in sorted(failures.items()):
        if pos == "two-transitions" and any((p, o) in single for p in cls.split(" then ") for o in ("O1", "O2", "O3", "O4", "O5", "O6")):
            continue
        grouped.setdefault((cls, ob), {})[pos] = msgs
    where = {"_get_dst_indices": hp.gdi, "correct_dst": hp.gfm, "_transform_dst": hp.tdst}
    for (cls, ob), per_pos in sorted(grouped.items()):
        first = next(iter(per_pos.values()))[0]
        fi = hp.gdi
        for nm, f in where.items():
            if nm in first:
                fi = f
        rule.require(False, f"dst-normalisation|{cls}|{ob}", fi.where(),
                     f"clock normalisation fails {ob} for a day of class `{cls}` (as {', '.join(sorted(per_pos))} of the span): {first}",
                     sample={"class": cls, "positions": sorted(per_pos), "obligation": ob, "detail": first})
    rule.inst(f"dst-normalisation|abstract-frames={n_runs}|shapes={len(shapes)}")
    return n_runs, failures
