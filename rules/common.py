"""Shared facts about the repository's model families (anchors), used by several property checks."""
from __future__ import annotations

import ast
from typing import Dict, List, Optional, Set, Tuple

from engine.index import AnalysisError, ClassInfo, FuncInfo, attr_chain, calls_in, unparse, walk_no_nested

DAILY_MODEL = ("opendsm.eemeter.models.daily.model", "DailyModel")
BILLING_MODEL = ("opendsm.eemeter.models.billing.model", "BillingModel")
WEIGHTED_MODEL = ("opendsm.eemeter.models.billing.weighted_model", "BillingWeightedModel")
HOURLY_MODEL = ("opendsm.eemeter.models.hourly.model", "HourlyModel")
CALTRACK_WRAPPER = ("opendsm.eemeter.models.hourly_caltrack.wrapper", "HourlyModel")

DAILY_DATA = "opendsm.eemeter.models.daily.data"
BILLING_DATA = "opendsm.eemeter.models.billing.data"
HOURLY_DATA = "opendsm.eemeter.models.hourly.data"
CALTRACK_DATA = "opendsm.eemeter.models.hourly_caltrack.data"
EXC = "opendsm.eemeter.common.exceptions"

FAMILIES = [
    {"name": "daily", "model": DAILY_MODEL,
     "data": {(DAILY_DATA, "DailyBaselineData"), (DAILY_DATA, "DailyReportingData")},
     "baseline": (DAILY_DATA, "DailyBaselineData")},
    {"name": "billing", "model": BILLING_MODEL,
     "data": {(BILLING_DATA, "BillingBaselineData"), (BILLING_DATA, "BillingReportingData")},
     "baseline": (BILLING_DATA, "BillingBaselineData")},
    {"name": "billing_weighted", "model": WEIGHTED_MODEL,
     "data": {(BILLING_DATA, "BillingBaselineData"), (BILLING_DATA, "BillingReportingData")},
     "baseline": (BILLING_DATA, "BillingBaselineData")},
    {"name": "hourly", "model": HOURLY_MODEL,
     "data": {(HOURLY_DATA, "HourlyBaselineData"), (HOURLY_DATA, "HourlyReportingData")},
     "baseline": (HOURLY_DATA, "HourlyBaselineData")},
]


def model_class(chk, fam) -> ClassInfo:
    return chk.repo.cls(*fam["model"])


def method(chk, cls: ClassInfo, name: str) -> FuncInfo:
    f = chk.res.find_method(cls, name)
    if f is None:
        raise AnalysisError(f"anchor method vanished: {cls.key}.{name}")
    chk.repo.consulted[f.module.rel] = f.module.sha256
    return f


def self_calls(fi: FuncInfo, names: Set[str]) -> List[Tuple[ast.stmt, ast.Call]]:
    """(enclosing simple statement, call) for every `self.<name>(...)` / `super().<name>(...)` call in fi."""
    out = []
    rd = None

    def _is_self_method(e) -> bool:
        if isinstance(e, ast.Attribute) and e.attr in names:
            v = e.value
            return (isinstance(v, ast.Name) and v.id in ("self", "cls")) or (isinstance(v, ast.Call) and isinstance(v.func, ast.Name) and v.func.id == "super")
        if isinstance(e, ast.IfExp):  # a method value chosen by a conditional expression
            return _is_self_method(e.body) and _is_self_method(e.orelse)
        return False
    for c in calls_in(fi.node):
        f = c.func
        if _is_self_method(f):
            out.append((fi.module.enclosing_stmt(c), c))
        elif isinstance(f, ast.Name):
            # `m = self._fit if ... else self._adaptive_fit; m(data)`: a local bound only to such method values
            from engine.dataflow import ReachingDefs
            rd = rd or ReachingDefs(fi.node)
            st = fi.module.enclosing_stmt(c)
            vals = [rd.value_of(d) for d in rd.reaching(st, f.id)] if st is not None else []
            if vals and all(v is not None and _is_self_method(v) for v in vals):
                out.append((st, c))
    return out


def leaf_stmt(fi: FuncInfo, node: ast.AST) -> ast.stmt:
    """The innermost statement containing node (a CFG node)."""
    return fi.module.enclosing_stmt(node)


def raise_class(chk, fi: FuncInfo, r: ast.Raise):
    """Resolve the class raised by a `raise X(...)` / `raise X` statement -> ClassInfo | 'ext:...' | None."""
    e = r.exc
    if e is None:
        return None
    if isinstance(e, ast.Call):
        e = e.func
    if attr_chain(e) is None:
        return None
    return chk.res.resolve_name(fi.module, e)


def exc_class(chk, name: str) -> ClassInfo:
    return chk.repo.cls(EXC, name)


def stores_to(fi: FuncInfo, text: str) -> List[ast.stmt]:
    """Statements in fi that (re)bind the name / attribute chain `text` (e.g. 'ignore_disqualification', 'self.disqualification')."""
    out = []
    for n in walk_no_nested(fi.node):
        tgts = []
        if isinstance(n, ast.Assign):
            tgts = n.targets
        elif isinstance(n, (ast.AugAssign, ast.AnnAssign)):
            tgts = [n.target]
        elif isinstance(n, (ast.For, ast.AsyncFor)):
            tgts = [n.target]
        elif isinstance(n, ast.NamedExpr):
            tgts = [n.target]
        elif isinstance(n, (ast.With, ast.AsyncWith)):
            tgts = [i.optional_vars for i in n.items if i.optional_vars is not None]
        for t in tgts:
            for x in ast.walk(t):
                if isinstance(x, (ast.Name, ast.Attribute)) and isinstance(getattr(x, "ctx", None), (ast.Store, ast.Del)) and unparse(x) == text:
                    out.append(fi.module.enclosing_stmt(n))
    return out


def try_ancestors(fi: FuncInfo, node: ast.AST) -> List[ast.Try]:
    out = []
    for a in fi.module.ancestors(node):
        if a is fi.node:
            break
        if isinstance(a, ast.Try):
            # only if node is in the try *body* (handlers catch only that)
            def contains(stmts):
                return any(node is x or any(node is y for y in ast.walk(x)) for x in stmts)
            if contains(a.body):
                out.append(a)
    return out


# ---------------------------------------------------------------------------------------------- value-flow helpers
def attr_stores(fi: FuncInfo, attr: str, self_ok: bool = True) -> List[Tuple[ast.stmt, ast.AST, ast.AST]]:
    """(statement, receiver expression, stored value) for every `<recv>.<attr> = value` in fi (all targets of an Assign,
    annotated assignments, setattr(recv, 'attr', value))."""
    out = []
    for s in ast.walk(fi.node):
        if isinstance(s, ast.Assign):
            for t in s.targets:
                if isinstance(t, ast.Attribute) and t.attr == attr:
                    out.append((s, t.value, s.value))
        elif isinstance(s, ast.AnnAssign) and isinstance(s.target, ast.Attribute) and s.target.attr == attr and s.value is not None:
            out.append((s, s.target.value, s.value))
        elif isinstance(s, ast.Expr) and isinstance(s.value, ast.Call) and unparse(s.value.func) == "setattr" and len(s.value.args) == 3 \
                and isinstance(s.value.args[1], ast.Constant) and s.value.args[1].value == attr:
            out.append((s, s.value.args[0], s.value.args[2]))
    if not self_ok:
        out = [(s, r, v) for s, r, v in out if not (isinstance(r, ast.Name) and r.id == "self")]
    return out


def flows_from(fi: FuncInfo, stmt: ast.AST, value: ast.AST, sources, rd=None, depth: int = 8) -> bool:
    """Does one of the `sources` (AST nodes, or a predicate on nodes) flow into `value` evaluated at `stmt` through local
    definitions (assignments, loops, comprehensions, unpacking)?"""
    from engine.dataflow import ReachingDefs, backward_slice_exprs
    rd = rd or ReachingDefs(fi.node)
    sl = backward_slice_exprs(rd, stmt, value, depth)
    if callable(sources):
        return any(sources(n) for e in sl for n in ast.walk(e))
    ids = {id(n) for n in sources}
    return any(id(n) in ids for e in sl for n in ast.walk(e))


def returned_names(fi: FuncInfo) -> List[str]:
    """Names that `fi` returns (`return x`), in order of appearance, de-duplicated."""
    out: List[str] = []
    for s in walk_no_nested(fi.node):
        if isinstance(s, ast.Return) and isinstance(s.value, ast.Name) and s.value.id not in out:
            out.append(s.value.id)
    return out


def attr_stores_chain(fi: FuncInfo, obj: str, chain: Tuple[str, ...]) -> List[ast.stmt]:
    """Statements `<obj>.<a>.<b>... = value` for the attribute chain given."""
    want = obj + "." + ".".join(chain)
    out = []
    for s in ast.walk(fi.node):
        if isinstance(s, ast.Assign) and any(unparse(t) == want for t in s.targets):
            out.append(s)
    return out


def bind_call(call: ast.Call, callee: FuncInfo, skip_self: bool = False) -> Optional[Dict[str, ast.AST]]:
    """Parameter name -> argument expression for `call` against `callee`'s signature (None when * / ** arguments are involved)."""
    if any(isinstance(a, ast.Starred) for a in call.args) or any(k.arg is None for k in call.keywords):
        return None
    a = callee.node.args
    params = [p.arg for p in a.posonlyargs + a.args]
    if skip_self and params and params[0] in ("self", "cls"):
        params = params[1:]
    out: Dict[str, ast.AST] = {}
    for p, v in zip(params, call.args):
        out[p] = v
    for k in call.keywords:
        out[k.arg] = k.value
    return out



def bind_like(fi, a, k, names=None):
    """Arguments of a call of the repository function `fi`, as {parameter name: value}, whether they were passed by position or by keyword
    (stand-ins for repository functions must accept both spellings)."""
    params = [p for p in fi.params if p not in ("self", "cls")]
    out = dict(zip(params, a))
    for n_, v_ in k.items():
        out[n_] = v_
    return out if names is None else [out.get(n_) for n_ in names]
