"""Shared obligation of C06 (one row per timestamp) and C17 (gap-free frame covering whole local days): the hourly data class
builds its contiguous index from *wall-clock* 00:00 of the first supplied day to *wall-clock* 23:00 of the last one.

The two bounds are evaluated into a small abstract value — which extreme of the input index they start from and which
wall-clock fields were forced to which constants — by recognising the wall-clock idioms (`replace(hour=..)`, `normalize()`,
`floor('D')`); arithmetic with a duration (`+ Timedelta(hours=23)`) is *absolute* time and lands on the wrong wall-clock hour
whenever the day has 23 or 25 hours, so it is rejected by kind, not by text."""
from __future__ import annotations

import ast
from typing import Dict, Optional, Tuple

from engine.cfg import CFG
from engine.dataflow import ReachingDefs
from engine.index import AnalysisError, calls_in, const_str, kwarg, unparse, walk_no_nested
from rules.common import HOURLY_DATA

FIELDS = ("hour", "minute", "second", "microsecond", "nanosecond")
DURATIONS = ("pd.Timedelta", "timedelta", "datetime.timedelta", "pd.DateOffset", "pd.offsets.Hour", "pd.offsets.Day", "np.timedelta64", "pd.to_timedelta")


class Absolute(Exception):
    pass


def wall_value(e: ast.AST, rd: ReachingDefs, at: ast.AST, frame: str, depth: int = 0) -> Tuple[str, Dict[str, int]]:
    """(extreme, forced wall-clock fields) of a bound expression; raises Absolute for duration arithmetic, AnalysisError otherwise."""
    if depth > 6:
        raise AnalysisError("contiguous-index bound: definition chain too deep")
    if isinstance(e, ast.Name):
        defs = rd.reaching(at, e.id)
        vals = [(rd.value_of(d), rd.def_stmt(d)) for d in defs]
        if len(vals) != 1 or vals[0][0] is None:
            raise AnalysisError(f"contiguous-index bound `{e.id}` does not have a single simple definition")
        return wall_value(vals[0][0], rd, vals[0][1], frame, depth + 1)
    if isinstance(e, ast.BinOp) and isinstance(e.op, (ast.Add, ast.Sub)):
        for side in (e.left, e.right):
            for c in ast.walk(side):
                if isinstance(c, ast.Call) and unparse(c.func) in DURATIONS:
                    raise Absolute(unparse(e))
        raise AnalysisError(f"contiguous-index bound: unrecognised arithmetic `{unparse(e)[:80]}`")
    if isinstance(e, ast.Call) and isinstance(e.func, ast.Attribute):
        m = e.func.attr
        if m in ("min", "max") and not e.args and not e.keywords and unparse(e.func.value) == f"{frame}.index":
            return m, {}
        if m == "replace" and not e.args:
            ext, fields = wall_value(e.func.value, rd, at, frame, depth + 1)
            fields = dict(fields)
            for k in e.keywords:
                if k.arg in FIELDS:
                    if not (isinstance(k.value, ast.Constant) and isinstance(k.value.value, int)):
                        raise AnalysisError(f"contiguous-index bound: replace({k.arg}=<non-constant>)")
                    fields[k.arg] = k.value.value
                elif k.arg in ("year", "month", "day", "tzinfo", "fold"):
                    fields[k.arg] = -1  # a different day / zone: never admissible
                else:
                    raise AnalysisError(f"contiguous-index bound: replace({k.arg}=...) not understood")
            return ext, fields
        if (m == "normalize" and not e.args) or (m == "floor" and e.args and const_str(e.args[0]) in ("D", "d", "1D", "1d")):
            ext, fields = wall_value(e.func.value, rd, at, frame, depth + 1)
            fields = dict(fields)
            for f in FIELDS:
                fields[f] = 0
            return ext, fields
    raise AnalysisError(f"contiguous-index bound: unrecognised idiom `{unparse(e)[:80]}` (known: index.min()/max(), replace(hour=..), normalize(), floor('D'))")


def check_contiguous_index(chk, rule):
    gc = chk.repo.func(HOURLY_DATA, "_HourlyData._get_contiguous_datetime")
    frame = [p for p in gc.params if p != "self"][0]
    cfg = CFG(gc.node)
    rd = ReachingDefs(gc.node, cfg)
    dr = [c for c in calls_in(gc.node) if unparse(c.func) in ("pd.date_range", "pandas.date_range")]
    if len(dr) != 1:
        raise AnalysisError("_get_contiguous_datetime: expected exactly one pd.date_range call")
    dr = dr[0]
    st = gc.module.enclosing_stmt(dr)
    start = kwarg(dr, "start") or (dr.args[0] if len(dr.args) > 0 else None)
    end = kwarg(dr, "end") or (dr.args[1] if len(dr.args) > 1 else None)
    freq = kwarg(dr, "freq") or (dr.args[3] if len(dr.args) > 3 else None)
    rule.require(start is not None and end is not None and kwarg(dr, "periods") is None and const_str(freq) in ("h", "H", "1h", "1H", "60min", "60T"), f"{gc.key}|hourly-range", gc.where(dr),
                 "contiguous index must be pd.date_range(start=<first day 00:00>, end=<last day 23:00>, freq='h') (start and end given, hourly)")
    for which, e, want_ext, want_hour in (("starts-00:00", start, "min", 0), ("ends-23:00", end, "max", 23)):
        if e is None:
            continue
        try:
            ext, fields = wall_value(e, rd, st, frame)
        except Absolute as ex:
            rule.require(False, f"{gc.key}|{which}", gc.where(dr),
                         f"_get_contiguous_datetime: the {'first' if want_ext == 'min' else 'last'} bound `{ex}` adds a *duration* to a time-zone-aware stamp: on a day with 23 or 25 clock hours "
                         f"this is not {want_hour:02d}:00 local time (the frame gets an extra day of filled rows or loses its last hour)", sample={"bound": str(ex)})
            continue
        ok = ext == want_ext and fields.get("hour") == want_hour and all(v == 0 for k, v in fields.items() if k != "hour")
        rule.require(ok, f"{gc.key}|{which}", gc.where(dr),
                     f"_get_contiguous_datetime: contiguous index must {'start at 00:00 of the first' if want_ext == 'min' else 'end at 23:00 of the last'} supplied day; "
                     f"found index.{ext}() with wall-clock fields {fields}", sample={"extreme": ext, "fields": fields})
    # the frame handed back is the input reindexed onto exactly that range (and nothing else changes its rows)
    rets = [s for s in walk_no_nested(gc.node) if isinstance(s, ast.Return)]
    ok = bool(rets)
    row_ops = []
    for rt in rets:
        if not isinstance(rt.value, ast.Name):
            ok = False
            continue
        # walk the definitions of the returned name back to the parameter: exactly one reindex(<the range>) on the way
        name, at, n_reindex, hops = rt.value.id, rt, 0, 0
        while hops < 8:
            hops += 1
            defs = rd.reaching(at, name)
            if len(defs) != 1:
                ok = False
                break
            d = defs[0]
            if d.kind == "param":
                break
            v, ds = rd.value_of(d), rd.def_stmt(d)
            if isinstance(v, ast.Call) and isinstance(v.func, ast.Attribute) and isinstance(v.func.value, ast.Name):
                if v.func.attr == "reindex" and len(v.args) == 1 and not v.keywords:
                    a = v.args[0]
                    src = a
                    if isinstance(a, ast.Name):
                        ad = rd.reaching(ds, a.id)
                        src = rd.value_of(ad[0]) if len(ad) == 1 else None
                    if src is dr:
                        n_reindex += 1
                    else:
                        ok = False
                elif v.func.attr in ("copy", "sort_index"):
                    pass
                else:
                    row_ops.append(unparse(v)[:60])
                name, at = v.func.value.id, ds
            else:
                ok = False
                break
        ok = ok and n_reindex == 1 and not row_ops
    rule.require(ok, f"{gc.key}|reindex", gc.where(), f"_get_contiguous_datetime must return its input reindexed onto the contiguous hourly range and nothing else {row_ops or ''}")
    sd = chk.repo.func(HOURLY_DATA, "_HourlyData._set_data")
    lines = {}
    for c in calls_in(sd.node):
        f = unparse(c.func)
        if f in ("remove_duplicates", "self._get_contiguous_datetime", "self._interpolate"):
            lines.setdefault(f, c)
    scfg = CFG(sd.node)
    ok = len(lines) == 3
    if ok:
        s1, s2, s3 = (sd.module.enclosing_stmt(lines[k]) for k in ("remove_duplicates", "self._get_contiguous_datetime", "self._interpolate"))
        ok = scfg.dominates(s1, s2) and scfg.dominates(s2, s3)
    rule.require(ok, f"{sd.key}|order", sd.where(), "_set_data must de-duplicate, then build the contiguous index, then interpolate (each step on every path to the next)")
