"""Shared obligation of C06 (one row per timestamp) and C17 (gap-free frame covering whole local days): the hourly data class
builds its contiguous index from *wall-clock* 00:00 of the first supplied day to *wall-clock* 23:00 of the last one.

The two bounds are evaluated into a small abstract value — which extreme of the input index they start from and which
wall-clock fields were forced to which constants — by recognising the wall-clock idioms (`replace(hour=..)`, `normalize()`,
`floor('D')`); arithmetic with a duration (`+ Timedelta(hours=23)`) is *absolute* time and lands on the wrong wall-clock hour
whenever the day has 23 or 25 hours, so it is rejected by kind, not by text."""
from __future__ import annotations

import ast
from typing import Dict, Optional, Tuple

from engine.cfg import CFG
from engine.dataflow import ReachingDefs
from engine.index import AnalysisError, calls_in, const_str, kwarg, unparse, walk_no_nested
from rules.common import HOURLY_DATA

FIELDS = ("hour", "minute", "second", "microsecond", "nanosecond")
DURATIONS = ("pd.Timedelta", "timedelta", "datetime.timedelta", "pd.DateOffset", "pd.offsets.Hour", "pd.offsets.Day", "np.timedelta64", "pd.to_timedelta")


class Absolute(Exception):
    pass


def wall_value(e: ast.AST, rd: ReachingDefs, at: ast.AST, frame: str, depth: int = 0) -> Tuple[str, Dict[str, int]]:
    """(extreme, forced wall-clock fields) of a bound expression; raises Absolute for duration arithmetic, AnalysisError otherwise."""
    if depth > 6:
        raise AnalysisError("contiguous-index bound: definition chain too deep")
    if isinstance(e, ast.Name):
        defs = rd.reaching(at, e.id)
        vals = [(rd.value_of(d), rd.def_stmt(d)) for d in defs]
        if len(vals) != 1 or vals[0][0] is None:
            raise AnalysisError(f"contiguous-index bound `{e.id}` does not have a single simple definition")
        return wall_value(vals[0][0], rd, vals[0][1], frame, depth + 1)
    if isinstance(e, ast.BinOp) and isinstance(e.op, (ast.Add, ast.Sub)):
        for side in (e.left, e.right):
            for c in ast.walk(side):
                if isinstance(c, ast.Call) and unparse(c.func) in DURATIONS:
                    raise Absolute(unparse(e))
        raise AnalysisError(f"contiguous-index bound: unrecognised arithmetic `{unparse(e)[:80]}`")
    if isinstance(e, ast.Call) and isinstance(e.func, ast.Attribute):
        m = e.func.attr
        if m in ("min", "max") and not e.args and not e.keywords and unparse(e.func.value) == f"{frame}.index":
            return m, {}
        if m == "replace" and not e.args:
            ext, fields = wall_value(e.func.value, rd, at, frame, depth + 1)
            fields = dict(fields)
            for k in e.keywords:
                if k.arg in FIELDS:
                    if not (isinstance(k.value, ast.Constant) and isinstance(k.value.value, int)):
                        raise AnalysisError(f"contiguous-index bound: replace({k.arg}=<non-constant>)")
                    fields[k.arg] = k.value.value
                elif k.arg in ("year", "month", "day", "tzinfo", "fold"):
                    fields[k.arg] = -1  # a different day / zone: never admissible
                else:
                    raise AnalysisError(f"contiguous-index bound: replace({k.arg}=...) not understood")
            return ext, fields
        if (m == "normalize" and not e.args) or (m == "floor" and e.args and const_str(e.args[0]) in ("D", "d", "1D", "1d")):
            ext, fields = wall_value(e.func.value, rd, at, frame, depth + 1)
            fields = dict(fields)
            for f in FIELDS:
                fields[f] = 0
            return ext, fields
    raise AnalysisError(f"contiguous-index bound: unrecognised idiom `{unparse(e)[:80]}` (known: index.min()/max(), replace(hour=..), normalize(), floor('D'))")


def _contiguous_frame_outcome(chk, gc):
    from engine.absint import AbsObj, ModuleEnv, Opaque
    from engine.pyinterp import Function, Interp, InterpRaised, Stub, Unsupported
    VALUE_ONLY = {"copy", "sort_index", "rename", "astype", "assign", "infer_objects"}
    ranges = []

    class RTok(Stub):
        def __getattr__(self, name):
            if name.startswith("_"):
                raise AttributeError(name)
            return Opaque(f"range.{name}")

    class FTok(Stub):
        _settable = True

        def __init__(self, ident, ops=()):
            self.ident, self.ops = ident, tuple(ops)

        @property
        def index(self):
            return self.ident if isinstance(self.ident, RTok) else Opaque("input.index")

        def __setitem__(self, k, v):
            if not isinstance(k, str):
                raise Unsupported("frame[...] = ... with a key that is not a column")

        def __getitem__(self, k):
            if isinstance(k, (str, list)):
                return Opaque("column") if isinstance(k, str) else FTok(self.ident, self.ops)
            return FTok(self.ident, self.ops + ("row selection",))

        def reindex(self, *a, **k):
            tgt = a[0] if a else k.get("index")
            if isinstance(tgt, RTok) and len(a) + len(k) == 1:
                return FTok(tgt, self.ops)
            return FTok("something else", self.ops + ("reindex(<not the range>)",))

        def __getattr__(self, name):
            if name.startswith("_") or name in ("loc", "iloc", "values", "T", "shape", "empty", "columns"):
                raise AttributeError(name)

            def op(*a, **k):
                return FTok(self.ident, self.ops if name in VALUE_ONLY else self.ops + (name,))
            return op

    class PDc(Stub):
        @staticmethod
        def date_range(*a, **k):
            r = RTok()
            ranges.append(r)
            return r

        def __getattr__(self, name):
            if name.startswith("_"):
                raise AttributeError(name)
            return Opaque(f"pd.{name}")
    it = Interp(step_limit=20_000)
    env = ModuleEnv(chk.repo, gc.module, it, {"pd": PDc(), "pandas": PDc()})
    me = AbsObj({"_HourlyData"}, tz=Opaque("tz"))
    try:
        # a method (self, df) or, when it was turned into a module-level function, (df)
        args_ = (me, FTok("input")) if (gc.params[:1] in (["self"], ["cls"])) else (FTok("input"),)
        res = Function(gc.node, env, it)(*args_)
    except InterpRaised as e:
        return {"raises": e.exc_name}
    except Unsupported as e:
        raise AnalysisError(f"{gc.key}: uses an operation outside the modelled subset: {e}")
    if not isinstance(res, FTok):
        return {"returns": repr(res)[:60]}
    return {"index": "the date_range" if (ranges and res.ident is ranges[-1]) else ("the input's" if res.ident == "input" else str(res.ident)), "row_ops": list(res.ops), "ranges": len(ranges)}


def check_contiguous_index(chk, rule):
    gc = chk.repo.func(HOURLY_DATA, "_HourlyData._get_contiguous_datetime")
    frame = [p for p in gc.params if p != "self"][0]
    cfg = CFG(gc.node)
    rd = ReachingDefs(gc.node, cfg)
    dr = [c for c in calls_in(gc.node) if unparse(c.func) in ("pd.date_range", "pandas.date_range")]
    if len(dr) != 1:
        raise AnalysisError("_get_contiguous_datetime: expected exactly one pd.date_range call")
    dr = dr[0]
    st = gc.module.enclosing_stmt(dr)
    start = kwarg(dr, "start") or (dr.args[0] if len(dr.args) > 0 else None)
    end = kwarg(dr, "end") or (dr.args[1] if len(dr.args) > 1 else None)
    freq = kwarg(dr, "freq") or (dr.args[3] if len(dr.args) > 3 else None)
    rule.require(start is not None and end is not None and kwarg(dr, "periods") is None and const_str(freq) in ("h", "H", "1h", "1H", "60min", "60T"), f"{gc.key}|hourly-range", gc.where(dr),
                 "contiguous index must be pd.date_range(start=<first day 00:00>, end=<last day 23:00>, freq='h') (start and end given, hourly)")
    for which, e, want_ext, want_hour in (("starts-00:00", start, "min", 0), ("ends-23:00", end, "max", 23)):
        if e is None:
            continue
        try:
            ext, fields = wall_value(e, rd, st, frame)
        except Absolute as ex:
            rule.require(False, f"{gc.key}|{which}", gc.where(dr),
                         f"_get_contiguous_datetime: the {'first' if want_ext == 'min' else 'last'} bound `{ex}` adds a *duration* to a time-zone-aware stamp: on a day with 23 or 25 clock hours "
                         f"this is not {want_hour:02d}:00 local time (the frame gets an extra day of filled rows or loses its last hour)", sample={"bound": str(ex)})
            continue
        ok = ext == want_ext and fields.get("hour") == want_hour and all(v == 0 for k, v in fields.items() if k != "hour")
        rule.require(ok, f"{gc.key}|{which}", gc.where(dr),
                     f"_get_contiguous_datetime: contiguous index must {'start at 00:00 of the first' if want_ext == 'min' else 'end at 23:00 of the last'} supplied day; "
                     f"found index.{ext}() with wall-clock fields {fields}", sample={"extreme": ext, "fields": fields})
    # the frame handed back is the input reindexed onto exactly that range (and nothing else changes its rows): interpreted on frames
    # that only know which index they carry
    out = _contiguous_frame_outcome(chk, gc)
    ok = out.get("index") == "the date_range" and not out.get("row_ops") and out.get("ranges") == 1
    rule.require(ok, f"{gc.key}|reindex", gc.where(), f"_get_contiguous_datetime must return its input reindexed onto the contiguous hourly range and nothing else; interpreted: {out}")
    sd, outs = set_data_outcomes(chk)
    msgs = [m for o in outs for ob, m in judge_set_data(o) if ob == "order"]
    rule.require(not msgs, f"{sd.key}|order", sd.where(), "_set_data must de-duplicate, then build the contiguous index, then interpolate: " + (msgs[0] if msgs else ""))


# ---------------------------------------------------------------------------------------------- _set_data, interpreted
def set_data_outcomes(chk):
    """_HourlyData._set_data interpreted on recording values: what is returned (the pipeline as a term) and which in-place stores are
    made, for electricity / non-electricity data and both outcomes of every data-dependent test."""
    from engine.absint import AbsObj, BoundRepoMethods, ModuleEnv, Oracle, Sym, SymWorld, canon, explore, sym_root
    from engine.pyinterp import Function, Interp, InterpRaised, Stub, StubCall, Unsupported
    sd = chk.repo.func(HOURLY_DATA, "_HourlyData._set_data")

    class _Me(AbsObj, BoundRepoMethods):
        pass
    outs = []

    class _Cols(Stub):
        def __init__(self, cols):
            self.cols = list(cols)

        def __iter__(self):
            return iter(self.cols)

        def __contains__(self, k):
            return k in self.cols

        def __len__(self):
            return len(self.cols)

    for electric in (True, False):
        orc = Oracle()

        def run():
            w = SymWorld(orc)
            pd_ = sym_root(w, "pd")
            np_ = sym_root(w, "np")

            class Frame(Sym):
                def __getattr__(self, name):
                    if name == "columns":
                        return _Cols(["temperature", "observed", "ghi"])
                    if name == "index":
                        return Sym(w, "attr", self, "index", classes={"pd.DatetimeIndex"})
                    if name == "copy":
                        me = self

                        class _C(Stub):
                            def _abs_call(self_, *a, **k):
                                return Frame(w, "call", Sym(w, "attr", me, "copy"), (), ())
                        return _C()
                    return Sym.__getattr__(self, name)
            data = Frame(w, "root", "data")
            calls = []

            def step(name):
                def f(x, *a, **k):
                    calls.append(name)
                    return Sym(w, "call", sym_root(w, name), (x,), ())
                return f
            it = Interp(step_limit=50_000)
            me = _Me({"_HourlyData"}, is_electricity_data=electric, warnings=[], disqualification=[], tz=None, _kwargs={}, _outputs=[])
            for nm in ("_get_contiguous_datetime", "_interpolate", "_add_pv_start_date"):
                setattr(me, nm, StubCall(step(nm)))
            stand = {"pd": pd_, "np": np_, "remove_duplicates": StubCall(step("remove_duplicates")), "EEMeterWarning": StubCall(lambda **k: k.get("qualified_name"))}
            for nm in ("_get_contiguous_datetime", "_interpolate", "_add_pv_start_date"):
                stand[nm] = StubCall(step(nm))  # the steps may also be module-level functions
            me._bind_repo(chk, chk.repo.cls(HOURLY_DATA, "_HourlyData"), it, stand)   # any other method of the class: the repository's own, interpreted
            env = ModuleEnv(chk.repo, sd.module, it, stand)
            try:
                r = Function(sd.node, env, it)(me, data)
            except InterpRaised as e:
                return {"raises": e.exc_name}
            return {"returns": canon(r), "effects": list(w.effects), "order": calls, "warnings": list(me.warnings)}
        try:
            for tr, res in explore(run, orc):
                res = dict(res)
                res.update({"electric": electric, "decisions": tr})
                outs.append(res)
        except Unsupported as e:
            raise AnalysisError(f"{sd.key}: uses an operation outside the modelled subset: {e}")
    return sd, outs


PIPELINE = "_add_pv_start_date(_interpolate(_get_contiguous_datetime(remove_duplicates(data.copy()))))"


def judge_set_data(o):
    bad = []
    ctx = f"({'electricity' if o['electric'] else 'non-electricity'} data, decisions {[(t[:50], v) for t, v in o['decisions']]})"
    if "raises" in o:
        return [("order", f"_set_data raises {o['raises']} on a well-formed frame {ctx}")]
    if o["returns"] != PIPELINE:
        bad.append(("order", f"_set_data must return the copy of its input passed through remove_duplicates, then _get_contiguous_datetime, then _interpolate, then _add_pv_start_date; it returns `{o['returns'][:200]}` {ctx}"))
    stores = [e for e in o["effects"] if e[0] == "setitem"]
    other = [e for e in o["effects"] if e[0] == "setattr" and e[2] != "index"]
    want = ("setitem", "data.copy().loc", "((data.copy()['observed'] == 0), 'observed')", "np.nan")
    if o["electric"]:
        if want not in stores:
            bad.append(("zero", f"for electricity data zero usage must become missing: `copy.loc[copy['observed'] == 0, 'observed'] = np.nan`; stores found {stores} {ctx}"))
        extra = [e for e in stores if e != want]
    else:
        extra = stores
    if extra:
        bad.append(("zero", f"values are overwritten beyond the zero-usage rule: {extra} (only `observed == 0` of electricity data may be blanked, in the observed column, on the copy) {ctx}"))
    if any(not e[1].startswith("data.copy()") for e in o["effects"]):
        bad.append(("copy", f"_set_data writes into the caller's frame: {[e for e in o['effects'] if not e[1].startswith('data.copy()')]} {ctx}"))
    if other:
        bad.append(("zero", f"unexpected attribute stores {other} {ctx}"))
    # the index may be re-expressed (time zone, resolution) but every reading keeps its instant: an index store's value is the frame's own
    # index passed through instant-preserving conversions only
    import re as _re
    for e in [x for x in o["effects"] if x[0] == "setattr" and x[2] == "index"]:
        t = e[3]
        prev = None
        while prev != t:
            prev = t
            t = _re.sub(r"\.tz_convert\((?:[^()]|\([^()]*\))*\)$", "", t)
            t = _re.sub(r"\.astype\('datetime64\[ns[^']*'\)$", "", t)
            t = _re.sub(r"\.as_unit\('ns'\)$", "", t)
            t = _re.sub(r"\.copy\(\)$", "", t)
        if t not in ("data.copy().index", "pd.to_datetime(data.copy().index)", "pd.DatetimeIndex(data.copy().index)", "pd.to_datetime(data.copy()['datetime'])", "pd.DatetimeIndex(data.copy()['datetime'])"):
            bad.append(("index", f"the timestamps of the readings are altered: the index is set to `{e[3][:160]}` (only time-zone / resolution conversions keep every reading at its instant) {ctx}"))
    return bad
