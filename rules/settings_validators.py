"""C14 R14.6 — cross-field validators of the settings classes reject exactly the published invalid combinations.

The property says "invalid values are rejected"; which combinations are invalid is published by the library in the messages of its
validators and the field descriptions (e.g. "`FINAL_BOUNDS_SCALAR` must be > 0", "`INITIAL_STEP_PERCENTAGE` must be None or
0 < float <= 0.5", "'n_bins' must be None if 'method' is 'set_bin_width'").  Those sentences are written down here once, as predicates
over the fields (SPEC).  The check then interprets, from the AST, *all* pydantic after-validators of the class (whatever their names, however
many there are, in MRO order) on an abstract settings object for every point of a grid that has a value on each side of every published
boundary, with developer mode switched on so the developer lock (R14.2) does not mask the verdict, and compares accept / reject per
point.  Merging, splitting, renaming or restructuring validators is therefore silent; a changed operator, a dropped branch, a lost
decorator or a validator that stops returning the object is reported with the grid point that shows it.
"""
from __future__ import annotations

import itertools
from typing import Any, Callable, Dict, List, Tuple

from engine.absint import AbsObj, ClassRef, EnumMember, ModuleEnv
from engine.index import AnalysisError
from engine.pyinterp import Function, Interp, InterpRaised, Stub, StubCall, Unsupported

DS = "opendsm.eemeter.models.daily.utilities.settings"
HS = "opendsm.eemeter.models.hourly.settings"

_EPS = 1e-9


def _is_num(x):
    return isinstance(x, (int, float)) and not isinstance(x, bool)


# ---- the published rules, as predicates "this combination is invalid" ---------------------------------------------------------------
def _daily_invalid(v: Dict[str, Any]) -> List[str]:
    why = []
    a, at, amin = v["alpha_final"], v["alpha_final_type"], v["alpha_minimum"]
    if a is None and at is not None:
        why.append("ALPHA_FINAL must be set if ALPHA_FINAL_TYPE is not None")
    if isinstance(a, float) and not (amin <= a <= 2.0):
        why.append("ALPHA_FINAL must be `adaptive` or ALPHA_MINIMUM <= float <= 2")
    if isinstance(a, str) and a != "adaptive":
        why.append("ALPHA_FINAL must be `adaptive` or a float")
    f = v["final_bounds_scalar"]
    if f is not None and f <= 0:
        why.append("FINAL_BOUNDS_SCALAR must be > 0")
    if f is not None and at is None:
        why.append("FINAL_BOUNDS_SCALAR must be None if ALPHA_FINAL(_TYPE) is None")
    if f is None and at is not None:
        why.append("FINAL_BOUNDS_SCALAR must be > 0 if ALPHA_FINAL(_TYPE) is not None")
    s, alg = v["initial_step_percentage"], v["algorithm_choice"]
    if s is not None and not (0 < s <= 0.5):
        why.append("INITIAL_STEP_PERCENTAGE must be None or 0 < float <= 0.5")
    if s is None and str(alg).startswith("nlopt"):
        why.append("INITIAL_STEP_PERCENTAGE must be specified if ALGORITHM_CHOICE is from Nlopt")
    return why


def _split_invalid(v):
    r = v["reduce_splits_num_std"]
    why = []
    if r is not None:
        if len(r) != 2:
            why.append("REDUCE_SPLITS_NUM_STD must be a list of length 2")
        elif r[0] <= 0 or r[1] <= 0:
            why.append("REDUCE_SPLITS_NUM_STD entries must be > 0")
    return why


def _tbin_invalid(v):
    why = []
    m, nb, bw = v["method"], v["n_bins"], v["bin_width"]
    if m is None:
        if nb is not None or bw is not None:
            why.append("n_bins / bin_width must be None if method is None")
    elif m == "set_bin_width":
        if bw is None:
            why.append("bin_width must be specified if method is set_bin_width")
        elif isinstance(bw, float) and bw <= 0:
            why.append("bin_width must be greater than 0")
        if nb is not None:
            why.append("n_bins must be None if method is set_bin_width")
    else:
        if nb is None:
            why.append("n_bins must be specified if method is not None")
        if bw is not None:
            why.append("bin_width must be None if method is not set_bin_width")
    inc, rate, pct = v["include_edge_bins"], v["edge_bin_rate"], v["edge_bin_percent"]
    if m != "set_bin_width" and inc:
        why.append("include_edge_bins must be False if method is not set_bin_width")
    if inc:
        if rate is None:
            why.append("edge_bin_rate must be specified if include_edge_bins is True")
        if pct is None:
            why.append("edge_bin_percent must be specified if include_edge_bins is True")
    else:
        if rate is not None:
            why.append("edge_bin_rate must be None if include_edge_bins is False")
        if pct is not None:
            why.append("edge_bin_percent must be None if include_edge_bins is False")
    return why


def _adaptive_invalid(v):
    why = []
    on, it, tol = v["adaptive_weights"], v["adaptive_weight_max_iter"], v["adaptive_weight_tol"]
    if on:
        if it is None:
            why.append("adaptive_weight_max_iter must be specified if adaptive_weights is True")
        if tol is None:
            why.append("adaptive_weight_tol must be specified if adaptive_weights is True")
    else:
        if it is not None:
            why.append("adaptive_weight_max_iter must be None if adaptive_weights is False")
        if tol is not None:
            why.append("adaptive_weight_tol must be None if adaptive_weights is False")
    return why


def _season_invalid(v):
    return [f"{k}: {x} is not a valid option" for k, x in v.items() if k != "options" and x not in v["options"]]


_MONTHS = ["january", "february", "march", "april", "may", "june", "july", "august", "september", "october", "november", "december"]
_DAYS = ["monday", "tuesday", "wednesday", "thursday", "friday", "saturday", "sunday"]


def _one_off(names, good, bad):
    """All-valid point plus one point per name with that name set to an invalid value."""
    pts = [{n: good[i % len(good)] for i, n in enumerate(names)}]
    for n in names:
        p = dict(pts[0])
        p[n] = bad
        pts.append(p)
    return pts


def _grid(axes: Dict[str, List[Any]]):
    names = list(axes)
    for combo in itertools.product(*[axes[n] for n in names]):
        yield dict(zip(names, combo))


# class -> (module, grid points (dicts of field -> plain value), predicate)
def spec_tables():
    daily_axes = {
        "alpha_final": [None, "adaptive", "other", -100.0, -100.0 - 1e-6, 2.0, 2.0 + 1e-6, 1.5, 0.0],   # 0.0: valid and falsy
        "alpha_final_type": [None, "all", "last"],
        "alpha_minimum": [-100.0],
        "final_bounds_scalar": [None, -1.0, 0.0, 0.5, 1],
        "initial_step_percentage": [None, -0.1, 0.0, 1e-6, 0.5, 0.5 + 1e-6],
        "algorithm_choice": ["nlopt_sbplx", "scipy_slsqp"],
    }
    tb_axes = {
        "method": [None, "set_bin_width", "equal_sample_count", "equal_bin_width"],
        "n_bins": [None, 6],
        "bin_width": [None, 12.0],   # ge=1 is pydantic's own (trusted); only values that reach the validator
        "include_edge_bins": [True, False],
        "edge_bin_rate": [None, "heuristic", 0.5, 0.0],     # 0.0: valid and falsy (`not value` is not `value is None`)
        "edge_bin_percent": [None, 0.0425, 0.0],
    }
    return {
        "DailySettings": (DS, list(_grid(daily_axes)), _daily_invalid),
        "Split_Selection_Definition": (DS, [{"reduce_splits_num_std": r} for r in (None, [], [1.4], [1.4, 0.89, 1.0], [1.4, 0.89], [0, 1.0], [1.0, 0], [-1.0, 1.0], [1.0, -1.0], [1e-9, 1e-9])], _split_invalid),
        "Season_Definition": (DS, [dict(p, options=["summer", "shoulder", "winter"]) for p in _one_off(_MONTHS, ["summer", "shoulder", "winter"], "spring")], _season_invalid),
        "Weekday_Weekend_Definition": (DS, [dict(p, options=["weekday", "weekend"]) for p in _one_off(_DAYS, ["weekday", "weekend"], "holiday")], _season_invalid),
        "TemperatureBinSettings": (HS, list(_grid(tb_axes)), _tbin_invalid),
        "ElasticNetSettings": (HS, list(_grid({"adaptive_weights": [True, False], "adaptive_weight_max_iter": [None, 1, 100], "adaptive_weight_tol": [None, 0.0, 1e-4]})), _adaptive_invalid),
    }


ENUM_FIELDS = {"alpha_final_type": (DS, "AlphaFinalType"), "algorithm_choice": ("opendsm.eemeter.models.daily.utilities.opt_settings", "AlgorithmChoice"),
               "method": (HS, "BinningChoice")}


class _Quiet(Stub):
    """print() and logging inside validators."""
    def _abs_call(self, *a, **k):
        return None


def after_validators(chk, cls) -> List[Any]:
    """Every pydantic *after* model-validator of the class, in MRO order (base first, as pydantic runs them); names do not matter."""
    out, seen = [], set()
    for k in reversed(chk.res.mro(cls)):
        for name, m in k.methods.items():
            deco = " ".join(m.decorators)
            if "model_validator" in deco and "after" in deco:
                if name in seen:   # overridden further down: the override replaces it
                    out = [x for x in out if x.name.split(".")[-1] != name]
                seen.add(name)
                out.append(m)
    return out


def _enum_value(chk, interp, field, raw):
    if raw is None or field not in ENUM_FIELDS:
        return raw
    mod, cname = ENUM_FIELDS[field]
    env = ModuleEnv(chk.repo, chk.repo.modules[mod], interp, {})
    ec = env.lookup(cname)
    for m in ec:
        if m == raw:
            return m
    raise AnalysisError(f"{cname} has no member with value {raw!r} (grid value of {field})")


def run_rule(chk, rule, census) -> None:
    tables = spec_tables()
    from rules.c14 import field_census
    todo = []
    for cname, (mod, points, invalid) in tables.items():
        root = chk.repo.cls(mod, cname)
        for c in [root] + list(chk.res.subclasses(root)):   # a subclass inherits the rules and must not override them away
            todo.append((c.name, c, points, invalid))
    for cname, cls, points, invalid in todo:
        vals = after_validators(chk, cls)
        fields = census.get(cname) or field_census(chk, cls)
        deviations, n = [], 0
        unsupported = None
        for pt in points:
            n += 1
            want = invalid(pt)
            it = Interp(step_limit=200_000)
            stand = {"print": _Quiet(), "pywt": _Quiet()}
            obj = AbsObj({"BaseSettings", cname})
            obj._abs_type = ClassRef(cname)
            for f, rec in fields.items():
                d = rec.get("default")
                setattr(obj, f, None if isinstance(d, str) and d.startswith("<") else d)
            for f in ("developer_mode", "silent_developer_mode"):
                if f in fields:
                    setattr(obj, f, True)
            for f, raw in pt.items():
                setattr(obj, f, _enum_value(chk, it, f, raw))
            got = None
            for m in vals:
                if m.name.split(".")[-1] in ("_check_wavelet", "_check_seed"):   # third-party lists / seed plumbing (C03), not cross-field rules
                    continue
                env = ModuleEnv(chk.repo, m.module, it, stand)
                try:
                    r = Function(m.node, env, it)(obj)
                except InterpRaised as e:
                    got = ("rejects", e.exc_name.split(".")[-1].split("(")[0], m.name)
                    break
                except Unsupported as e:
                    unsupported = f"{m.key}: {e}"
                    break
                if r is not obj:
                    got = ("returns-other", repr(r)[:40], m.name)
                    break
            if unsupported:
                break
            if got is None:
                got = ("accepts",)
            if want and got[0] == "accepts":
                deviations.append((pt, f"accepted, but published rule says invalid: {want[0]}"))
            elif not want and got[0] == "rejects":
                deviations.append((pt, f"rejected by {got[2]} ({got[1]}), but no published rule forbids it"))
            elif want and got[0] == "rejects" and got[1] not in ("ValueError", "AssertionError", "PydanticCustomError"):
                deviations.append((pt, f"raises {got[1]} instead of a validation error (pydantic turns only ValueError/AssertionError into a ValidationError)"))
            elif got[0] == "returns-other":
                deviations.append((pt, f"validator {got[2]} does not return the settings object (returns {got[1]})"))
        if unsupported:
            raise AnalysisError(f"cross-field validators of {cname}: operation outside the modelled subset: {unsupported}")
        key = f"{cls.key}|cross-field-validators"
        n_inv = sum(1 for pt in points if invalid(pt))
        if n_inv and not vals:
            rule.require(False, key, cls.module.rel, f"{cname} has no after-validator left: {n_inv} published invalid combinations are accepted")
            continue
        rule.require(not deviations, key, cls.module.rel,
                     f"{cname}: accept/reject differs from the published cross-field rules at {len(deviations)} of {n} grid points; first: {deviations[:2]}",
                     sample={"class": cname, "grid_points": n, "invalid_points": n_inv, "validators": [m.name for m in vals]})
        for m in vals:
            rule.inst(f"{m.key}|registered", {"validator": m.key})
