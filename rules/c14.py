"""C14 — approved-method settings are locked unless developer mode is explicit."""
from __future__ import annotations

import ast
import json
import os
from typing import Any, Dict, List, Optional, Tuple

from engine import boolalg
from engine.cfg import CFG, EXIT, feasible_reach
from engine.consteval import ConstEval, NotConstant
from engine.index import AnalysisError, ClassInfo, FuncInfo, calls_in, const_str, is_self_attr, kwarg, unparse, walk_no_nested

HERE = os.path.dirname(os.path.dirname(os.path.abspath(__file__)))
SPEC = os.path.join(HERE, "spec", "approved_settings.json")
DS = "opendsm.eemeter.models.daily.utilities.settings"
OS_ = "opendsm.eemeter.models.daily.utilities.opt_settings"
BS = "opendsm.eemeter.models.billing.settings"
HS = "opendsm.eemeter.models.hourly.settings"
BASE = "opendsm.common.base_settings"
DAILY_TREE = [(DS, "Season_Definition"), (DS, "Weekday_Weekend_Definition"), (DS, "Split_Selection_Definition"),
              (DS, "Split_Selection_Legacy_Definition"), (DS, "DailySettings"), (DS, "DailyLegacySettings"), (BS, "BillingSettings")]
HOURLY_TREE = [(HS, "TemperatureBinSettings"), (HS, "TemporalClusteringSettings"), (HS, "ElasticNetSettings"),
               (HS, "BaseHourlySettings"), (HS, "HourlySolarSettings"), (HS, "HourlyNonSolarSettings")]
OPT_TREE = [(OS_, "OptimizationSettings")]
CONSTRAINT_KEYS = ("ge", "le", "gt", "lt", "min_length", "max_length")


def field_census(chk, cls: ClassInfo) -> Dict[str, Dict[str, Any]]:
    """All pydantic fields of cls with inheritance resolved (nearest definition wins)."""
    out: Dict[str, Dict[str, Any]] = {}
    for k in reversed(chk.res.mro(cls)):
        ce = ConstEval(chk.res, k.module)
        for name, (ann, val, st) in k.attrs.items():
            if ann is None or name.startswith("_") or name == "model_config":
                continue
            rec: Dict[str, Any] = {"declared_in": k.name, "via": "plain", "annotation": unparse(ann)}
            if isinstance(val, ast.Call) and unparse(val.func) in ("CustomField", "pydantic.Field", "Field"):
                rec["via"] = unparse(val.func)
                kws = {kw.arg: kw.value for kw in val.keywords if kw.arg}
                if "default_factory" in kws:
                    rec["default_factory"] = unparse(kws["default_factory"])
                elif "default" in kws:
                    try:
                        rec["default"] = _jsonable(ce.ev(kws["default"]))
                    except Exception as e:
                        rec["default"] = f"<not-literal:{unparse(kws['default'])}>"
                else:
                    rec["default"] = "<required>"
                if rec["via"] == "CustomField":
                    d = kws.get("developer")
                    rec["developer"] = bool(ce.ev(d)) if d is not None else False
                for ck in CONSTRAINT_KEYS:
                    if ck in kws:
                        try:
                            rec[ck] = _jsonable(ce.ev(kws[ck]))
                        except Exception:
                            rec[ck] = f"<not-literal:{unparse(kws[ck])}>"
                if "exclude" in kws:
                    rec["exclude"] = bool(ce.ev(kws["exclude"]))
            elif val is not None:
                try:
                    rec["default"] = _jsonable(ce.ev(val))
                except Exception:
                    rec["default"] = f"<not-literal:{unparse(val)}>"
            else:
                rec["default"] = "<required>"
            out[name] = rec
    return out


def _jsonable(v):
    if isinstance(v, (set, frozenset, tuple)):
        return list(v)
    return v


def census_all(chk) -> Dict[str, Dict[str, Dict[str, Any]]]:
    out = {}
    for mod, name in DAILY_TREE + HOURLY_TREE + OPT_TREE:
        out[name] = field_census(chk, chk.repo.cls(mod, name))
    return out


def flat_defaults(census, cname: str, pre: str = "") -> Dict[str, Any]:
    out = {}
    for k, v in census[cname].items():
        if "default_factory" in v and v["default_factory"] in census:
            out.update(flat_defaults(census, v["default_factory"], pre + k + "."))
        else:
            out[pre + k] = v.get("default")
    return out


def _normalisation_by_interpretation(chk, r3, base):
    """The before-validators of BaseSettings are interpreted from their AST on every key / value spelling class (lower, UPPER, Mixed,
    padded with blank / tab / newline on either side; alone, next to other keys, nested one and two levels down): whatever the
    spelling, the dictionary handed on to pydantic must carry the lower-cased, stripped key (an unnormalised key is silently ignored by
    pydantic's extra='ignore', so the setting - developer-only or not, valid or not - is dropped instead of being checked)."""
    from engine.absint import ModuleEnv
    from engine.pyinterp import Function, Interp, InterpRaised, Unsupported
    model_before = [m for m in base.methods.values() if any("model_validator" in d and "before" in d for d in m.decorators)]
    field_before = [m for m in base.methods.values() if any("field_validator" in d and "before" in d and ("'*'" in d or '"*"' in d) for d in m.decorators)]
    r3.require(bool(model_before), f"{base.key}|key-normaliser-registered", base.module.rel, "BaseSettings has no before-model-validator left: keys are no longer lower-cased / stripped")
    r3.require(bool(field_before), f"{base.key}|value-normaliser-registered", base.module.rel, "BaseSettings has no before-field-validator on '*' left: values are no longer lower-cased / stripped")
    spellings = ["alpha_selection", "ALPHA_SELECTION", "Alpha_Selection", " alpha_selection", "alpha_selection ", "alpha_selection\t", "\nalpha_selection", " ALPHA_SELECTION  ", "\tAlpha_selection\n"]

    def norm(x):
        return {(k.lower().strip() if isinstance(k, str) else k): norm(v) for k, v in x.items()} if isinstance(x, dict) else x
    cases = []
    for sp in spellings:
        cases += [{sp: 1}, {"developer_mode": False, sp: 1}, {sp: 1, "SEASON": {"January": "winter"}}, {"split_selection": {sp: 1}}, {"split_selection": {"criteria": "bic", sp: 1}},
                  {"a": {"b": {sp: 1}}}, {sp: {"x ": 1}}]
    cases += [{}, {"alpha_selection": 2}, {1: "x"}, {"a": [1, {"B ": 2}]}]
    n_bad = []
    for m in model_before:
        for c in cases:
            it = Interp(step_limit=50_000)
            try:
                import copy as _copy
                got = Function(m.node, ModuleEnv(chk.repo, m.module, it, {}), it)(ClassRef_("BaseSettings"), _copy.deepcopy(c))
            except InterpRaised as e:
                got = f"raises {e.exc_name}"
            except Unsupported as e:
                raise AnalysisError(f"{m.key}: uses an operation outside the modelled subset: {e}")
            want = norm(c)
            if got != want:
                n_bad.append((c, got))
        r3.require(not n_bad, f"{m.key}|keys-normalised", m.where(),
                   f"{m.qualname}: for {len(n_bad)} of {len(cases)} key spellings the dictionary handed to pydantic does not carry the lower-cased, stripped keys; e.g. {n_bad[:2]} "
                   "(pydantic ignores unknown keys, so such a setting is silently dropped instead of checked)", sample={"cases": len(cases)})
    vals = ["rmse", "RMSE", " rmse", "rmse ", "Rmse\t", "\nRMSE ", 3, None, 1.5, True]
    for m in field_before:
        vbad = []
        for v in vals:
            it = Interp(step_limit=10_000)
            try:
                got = Function(m.node, ModuleEnv(chk.repo, m.module, it, {}), it)(ClassRef_("BaseSettings"), v)
            except InterpRaised as e:
                got = f"raises {e.exc_name}"
            except Unsupported as e:
                raise AnalysisError(f"{m.key}: uses an operation outside the modelled subset: {e}")
            want = v.lower().strip() if isinstance(v, str) else v
            if got != want or type(got) is not type(want):
                vbad.append((v, got))
        r3.require(not vbad, f"{m.key}|values-normalised", m.where(), f"{m.qualname}: string values must come out lower-cased and stripped, everything else unchanged; deviations {vbad[:3]}",
                   sample={"values": len(vals)})


def ClassRef_(name):
    from engine.absint import ClassRef
    return ClassRef(name)


def run(chk):
    chk.explanation = (
        "Every field declaration of the daily / legacy / billing / hourly / optimiser settings trees is read with inheritance resolved "
        "(default, developer flag, numeric constraints, exclude) and compared with the approved table in spec/approved_settings.json and "
        "with two in-repo oracles that are independent of settings.py (assertions of test_default_settings, the documented settings block); "
        "the developer-mode validator's CFG and the recursive checker's truth table are decided; frozen/normalising config inherited by all "
        "settings classes; internal developer-mode escalations are enumerated.")
    chk.not_decided += ["pydantic's own enforcement of ge/le/Enum membership and of frozen=True (trusted)"]
    r1 = chk.rule("R14.1", "field census: default / developer flag / constraints of every settings field equal the approved table; in-repo oracles agree", 110)
    r2 = chk.rule("R14.2", "the lock is wired: after-validator calls the recursive checker on every non-developer path; checker raises iff developer-only and changed, recurses into nested settings; all daily-tree fields carry the developer key", 12)
    r3 = chk.rule("R14.3", "settings are frozen and key/value-normalised: BaseSettings.model_config, inherited by every settings class", 14)
    r4 = chk.rule("R14.4", "internal developer-mode escalations are exactly the enumerated four, and fitted components get the user's settings re-attached", 4)
    r5 = chk.rule("R14.5", "stored settings are the model's own settings", 2)
    r6 = chk.rule("R14.6", "invalid combinations are rejected: all after-validators of each settings class, interpreted on a grid with a value on each side of every published boundary, accept/reject exactly as the published cross-field rules say", 6)

    census = census_all(chk)
    if not os.path.isfile(SPEC):
        raise AnalysisError("spec/approved_settings.json missing")
    with open(SPEC, encoding="utf-8") as fh:
        spec = json.load(fh)
    # ------------------------------------------------------------------ R14.1
    for cname in sorted(set(spec) | set(census)):
        if cname not in census:
            r1.require(False, f"class:{cname}|present", "settings", f"approved settings class {cname} no longer exists")
            continue
        if cname not in spec:
            r1.require(False, f"class:{cname}|approved", "settings", f"settings class {cname} is not in the approved table")
            continue
        for f in sorted(set(spec[cname]) | set(census[cname])):
            key = f"{cname}.{f}"
            a, b = spec[cname].get(f), census[cname].get(f)
            if b is None:
                r1.require(False, key + "|present", cname, f"approved field {key} was removed")
                continue
            if a is None:
                r1.require(False, key + "|approved", cname, f"field {key} is not in the approved table (new setting: default {b.get('default')!r}, developer={b.get('developer')})")
                continue
            for attr in ("default", "default_factory", "developer") + CONSTRAINT_KEYS + ("exclude",):
                if a.get(attr) != b.get(attr):
                    r1.violate(f"{key}|{attr}", f"{cname} (declared in {b.get('declared_in')})",
                               f"{key}: {attr} is {b.get(attr)!r}, approved value is {a.get(attr)!r}", {"approved": a, "found": b})
            r1.inst(key, {"field": key, "default": b.get("default", b.get("default_factory")), "developer": b.get("developer")})
    # oracle (a): tests/daily_model/utilities/test_config.py::test_default_settings
    D = flat_defaults(census, "DailySettings")
    tm = chk.repo.load_extra("tests/daily_model/utilities/test_config.py")
    tf = tm.functions.get("test_default_settings")
    if tf is None:
        raise AnalysisError("oracle test_default_settings vanished")
    n_or = 0
    for a in tf.node.body:
        if isinstance(a, ast.Assert) and isinstance(a.test, ast.Compare) and len(a.test.ops) == 1:
            left = unparse(a.test.left).replace("settings.", "", 1).replace(".lower()", "")
            try:
                exp = ast.literal_eval(a.test.comparators[0])
            except Exception:
                continue
            got = D.get(left, "<absent>")
            n_or += 1
            r1.require(got == exp, f"oracle:test_default_settings|{left}", tm.rel, f"DailySettings().{left} defaults to {got!r}; the repository's own test expects {exp!r}")
    if n_or < 10:
        raise AnalysisError(f"oracle test_default_settings yielded only {n_or} assertions")
    # oracle (b): documented settings block
    md = chk.repo.read_text("docs/source/learn/daily_billing_model.md")
    try:
        i = md.index('"settings": {', md.index('"baseline_timezone"'))
        j = i + len('"settings": ')
        depth = 0
        for k in range(j, len(md)):
            if md[k] == "{":
                depth += 1
            elif md[k] == "}":
                depth -= 1
                if depth == 0:
                    break
        doc = json.loads(md[j:k + 1])
    except Exception as e:
        raise AnalysisError(f"documented settings block not found/parsable: {e}")
    rename = {'allow_separate_shoulder': 'split_selection.allow_separate_shoulder', 'allow_separate_summer': 'split_selection.allow_separate_summer',
              'allow_separate_winter': 'split_selection.allow_separate_winter', 'allow_separate_weekday_weekend': 'split_selection.allow_separate_weekday_weekend',
              'reduce_splits_by_gaussian': 'split_selection.reduce_splits_by_gaussian', 'reduce_splits_num_std': 'split_selection.reduce_splits_num_std',
              'split_selection_criteria': 'split_selection.criteria', 'split_selection_penalty_multiplier': 'split_selection.penalty_multiplier',
              'split_selection_penalty_power': 'split_selection.penalty_power', 'maximum_slope_OoM_scaler': 'maximum_slope_oom_scalar', 'smoothed_model': 'allow_smooth_model'}
    months = ['january', 'february', 'march', 'april', 'may', 'june', 'july', 'august', 'september', 'october', 'november', 'december']
    days = ['monday', 'tuesday', 'wednesday', 'thursday', 'friday', 'saturday', 'sunday']
    n_doc = 0
    for k, v in doc.items():
        if k == "season":
            for m, val in v.items():
                got = D.get("season." + months[int(m) - 1])
                n_doc += 1
                r1.require(got == val, f"oracle:docs|season.{months[int(m)-1]}", "docs/source/learn/daily_billing_model.md", f"season of month {m}: default {got!r}, documented {val!r}")
        elif k == "is_weekday":
            for d, val in v.items():
                got = D.get("weekday_weekend." + days[int(d) - 1])
                e = "weekday" if val else "weekend"
                n_doc += 1
                r1.require(got == e, f"oracle:docs|weekday_weekend.{days[int(d)-1]}", "docs/source/learn/daily_billing_model.md", f"day {d}: default {got!r}, documented {e!r}")
        else:
            kk = rename.get(k, k)
            if kk in D:
                n_doc += 1
                r1.require(D[kk] == v or (isinstance(v, str) and isinstance(D[kk], str) and D[kk].lower() == v.lower()), f"oracle:docs|{kk}", "docs/source/learn/daily_billing_model.md",
                           f"{kk}: default {D[kk]!r}, documented {v!r}")
    if n_doc < 30:
        raise AnalysisError(f"documented settings oracle yielded only {n_doc} entries")

    # ------------------------------------------------------------------ R14.6
    from rules.settings_validators import run_rule as _cross_field
    _cross_field(chk, r6, census)

    # ------------------------------------------------------------------ R14.2
    base = chk.repo.cls(BASE, "BaseSettings")
    daily_classes = [chk.repo.cls(m, n) for m, n in DAILY_TREE]
    for c in daily_classes:
        for f, rec in census[c.name].items():
            if rec["declared_in"] == c.name:
                r2.require(rec["via"] == "CustomField", f"{c.key}.{f}|CustomField", c.module.rel,
                           f"{c.name}.{f} is declared through {rec['via']} instead of CustomField: the recursive developer check reads json_schema_extra['developer'] of every field")
    ds = chk.repo.cls(DS, "DailySettings")
    val = ds.methods.get("_check_developer_mode")
    if val is None:
        r2.require(False, f"{ds.key}|validator-present", ds.module.rel, "DailySettings has no _check_developer_mode validator: the lock is gone")
    else:
        deco = " ".join(val.decorators)
        r2.require("model_validator" in deco and "after" in deco, f"{val.key}|registered-after", val.where(), f"_check_developer_mode must be a pydantic after-validator; decorators: {val.decorators}")
        cfg = CFG(val.node)
        calls = [st for st in cfg.stmts() if not isinstance(st, (ast.If, ast.For, ast.While)) and any(
            isinstance(c.func, ast.Name) and c.func.id == "_check_developer_mode" and len(c.args) == 1 and unparse(c.args[0]) == "self" for c in calls_in(st))]
        def atomizer(e):
            s, neg = boolalg.strip_truthiness(e)
            if unparse(s) == "self.developer_mode":
                return ("dev", neg)
            return None
        ev = lambda t: boolalg.ev3(t, atomizer, {"dev": False})
        bypass = feasible_reach(cfg, {EXIT}, ev, avoid={id(s) for s in calls})
        r2.require(bool(calls) and not bypass, f"{val.key}|checker-on-every-non-developer-path", val.where(),
                   "DailySettings._check_developer_mode: with developer_mode False a path returns without calling the recursive checker")
        ev2 = lambda t: boolalg.ev3(t, atomizer, {"dev": True})
        r2.require(feasible_reach(cfg, {EXIT}, ev2), f"{val.key}|developer-mode-accepted", val.where(), "developer_mode=True must be accepted")
        for sub in chk.res.subclasses(ds):
            r2.require("_check_developer_mode" not in sub.methods, f"{sub.key}|validator-not-overridden", sub.module.rel, f"{sub.name} overrides _check_developer_mode")
        # developer_mode itself must not be developer-only and default False
        dm = census["DailySettings"].get("developer_mode", {})
        r2.require(dm.get("default") is False and dm.get("developer") is False, f"{ds.key}.developer_mode|default-False", ds.module.rel, f"developer_mode must default to False and be user-settable; found {dm}")
    chkfn = chk.repo.try_func(DS, "_check_developer_mode")
    if chkfn is None:
        r2.require(False, f"{DS}:_check_developer_mode|present", "settings.py", "recursive _check_developer_mode function vanished")
    else:
        # The recursive checker is interpreted from its AST (engine/pyinterp + engine/absint) on abstract settings objects: one field per
        # object, over every combination of {nested, developer-only, changed, has a default factory, value of another class} and, for
        # nested values, an inner object that does / does not carry a changed developer-only field (to observe the recursion).
        from engine.absint import AbsObj, ClassRef, ModuleEnv
        from engine.pyinterp import Function, Interp, InterpRaised, Stub, Unsupported

        class _Field(Stub):
            def __init__(self, developer, default, factory):
                self.json_schema_extra = {"developer": developer}
                self.default = default
                self.default_factory = factory

        class _SettingsClass(ClassRef):
            """type(settings): the class also exposes model_fields (pydantic >= 2.11 deprecates instance access).  Attributes may be stored
            on it (a per-class cache) and, as in Python, a subclass *sees* what was stored on its base classes."""
            _settable = True

            def __init__(self, name, fields, bases=()):
                super().__init__(name)
                self.model_fields = fields
                self.__dict__["_bases"] = tuple(bases)

            def __getattr__(self, attr):
                if attr.startswith("__"):
                    raise AttributeError(attr)
                for b in self.__dict__.get("_bases", ()):
                    if attr in b.__dict__:
                        return b.__dict__[attr]
                    try:
                        return getattr(b, attr)
                    except AttributeError:
                        pass
                raise AttributeError(attr)

            def _abs_is(self, o):   # classes are singletons: `type(x) is C` compares by name here
                return isinstance(o, ClassRef) and o.name == self.name

        def _obj(fields, values, cls_ref, klass=None):
            o = AbsObj({"BaseSettings", cls_ref.name}, model_fields=fields)
            o._abs_type = klass if klass is not None else _SettingsClass(cls_ref.name, fields)
            o.model_fields_set = set(values)
            for k_, v_ in values.items():
                setattr(o, k_, v_)
            return o

        def _run(obj):
            it = Interp(step_limit=50_000)
            env = ModuleEnv(chk.repo, chkfn.module, it, {})
            try:
                r_ = Function(chkfn.node, env, it)(obj)
                return ("returns", r_ is obj)
            except InterpRaised as e:
                return ("raises", e.exc_name.split(".")[-1])
        bad = []
        rows = 0
        try:
            DECL, OTHER, INNER = ClassRef("DeclaredSettings"), ClassRef("SubclassWithOtherDefaults"), ClassRef("Inner")
            # plain (non-nested) field
            for developer in (False, True):
                for changed in (False, True):
                    for factory in (None, DECL):
                        rows += 1
                        o = _obj({"f": _Field(developer, 5, factory)}, {"f": 6 if changed else 5}, ClassRef("Top"))
                        got = _run(o)
                        want = ("raises", "ValueError") if (developer and changed) else ("returns", True)
                        if got != want:
                            bad.append(({"nested": False, "developer": developer, "changed": changed, "hasfactory": factory is not None}, f"{got} (expected {want})"))
            # nested settings object
            for developer in (False, True):
                for hasfactory in (False, True):
                    for wrongclass in (False, True):
                        for inner_changed in (False, True):
                            rows += 1
                            inner = _obj({"g": _Field(True, 1, None)}, {"g": 2 if inner_changed else 1}, OTHER if wrongclass else DECL)
                            o = _obj({"f": _Field(developer, None, DECL if hasfactory else None)}, {"f": inner}, ClassRef("Top"))
                            got = _run(o)
                            must = (developer and hasfactory and wrongclass) or inner_changed
                            want = ("raises", "ValueError") if must else ("returns", True)
                            if got != want:
                                why = "a nested object of another class than the declared default factory passes (its own defaults are used for the comparison)" if (developer and hasfactory and wrongclass and not inner_changed) \
                                    else ("does not recurse into the nested settings object" if inner_changed and got[0] == "returns" else "raises for a nested settings object of the declared class")
                                bad.append(({"nested": True, "developer": developer, "hasfactory": hasfactory, "wrongclass": wrongclass, "inner_changed": inner_changed}, f"{got} (expected {want}): {why}"))
            # two fields: the check must not stop at the first field
            rows += 1
            o = _obj({"a": _Field(False, 1, None), "b": _Field(True, 1, None)}, {"a": 1, "b": 2}, ClassRef("Top"))
            if _run(o) != ("raises", "ValueError"):
                bad.append(({"fields": 2}, "a changed developer-only second field passes: the checker no longer iterates over every model field"))
            # ... nor at the first nested block: a clean nested object, then a changed developer-only field (and the other way round)
            for first_nested in (True, False):
                for dev_nested in (False, True):
                    rows += 1
                    inner = _obj({"g": _Field(True, 1, None)}, {"g": 1}, DECL)
                    fs = [("n", _Field(dev_nested, None, DECL), inner), ("b", _Field(True, 1, None), 2)]
                    if not first_nested:
                        fs.reverse()
                    o = _obj({k_: f_ for k_, f_, _v in fs}, {k_: v_ for k_, _f, v_ in fs}, ClassRef("Top"))
                    if _run(o) != ("raises", "ValueError"):
                        bad.append(({"fields": 2, "nested_first": first_nested}, "a changed developer-only field declared next to a (clean) nested settings block passes: the walk over the fields ends at the nested block"))
            # history: a parent settings class is validated first, then a subclass that restates a developer-only default (legacy /
            # billing profiles): each class is held to its *own* approved values, whatever was checked before
            for first in ("parent", "child"):
                pf, cf = {"f": _Field(True, 5, None)}, {"f": _Field(True, 7, None)}
                pk = _SettingsClass("ParentSettings", pf)
                ck = _SettingsClass("ChildSettings", cf, bases=(pk,))
                seq = [("parent", pk, pf, 5, True), ("child", ck, cf, 7, True), ("child", ck, cf, 5, False), ("parent", pk, pf, 7, False)]
                if first == "child":
                    seq = [seq[1], seq[0], seq[2], seq[3]]
                for who, kl, fl, val, accept in seq:
                    rows += 1
                    got = _run(_obj(fl, {"f": val}, ClassRef(kl.name), klass=kl))
                    want = ("returns", True) if accept else ("raises", "ValueError")
                    if got != want:
                        bad.append(({"history": first + "-first", "class": who, "value": val}, f"{got} (expected {want}): after a {'parent' if first == 'parent' else 'sub'}class was validated, "
                                    f"a {who} settings object with f={val} (its own approved value is {5 if who == 'parent' else 7}) is {'rejected' if accept else 'accepted'}"))
        except Unsupported as e:
            raise AnalysisError(f"{chkfn.key}: the recursive checker uses an operation outside the modelled subset: {e}")
        pin_bad = [b_ for b_ in bad if b_[0].get("nested") and b_[0].get("wrongclass") and b_[0].get("developer") and b_[0].get("hasfactory") and not b_[0].get("inner_changed")]
        rec_bad = [b_ for b_ in bad if b_[0].get("nested") and b_[0].get("inner_changed") and "recurse" in b_[1]]
        hist_bad = [b_ for b_ in bad if "history" in b_[0]]
        bad = [b_ for b_ in bad if "history" not in b_[0]]
        r2.require(not hist_bad, f"{chkfn.key}|own-approved-values-whatever-came-before", chkfn.where(),
                   f"each settings class must be held to its own approved values independently of what was validated earlier in the process: {hist_bad[:2]}")
        it_bad = [b_ for b_ in bad if b_[0].get("fields") == 2]
        if any("nested_first" in b_[0] for b_ in it_bad):
            it_bad = [b_ for b_ in it_bad if "nested_first" in b_[0]] + [b_ for b_ in it_bad if "nested_first" not in b_[0]]
        other_bad = [b_ for b_ in bad if b_ not in pin_bad and b_ not in rec_bad and b_ not in it_bad]
        r2.require(not other_bad, f"{chkfn.key}|truth-table", chkfn.where(),
                   f"recursive checker must raise iff (not nested) and developer-only and value != default (nested values: iff of another class than the declared factory, or the nested object itself is rejected); deviations: {other_bad[:3]}",
                   sample={"interpreted_cases": rows})
        r2.require(not rec_bad, f"{chkfn.key}|recursion-argument", chkfn.where(), f"the recursion must descend into the nested value getattr(obj, field): {rec_bad[:1]}")
        r2.require(not it_bad, f"{chkfn.key}|iterates-all-fields", chkfn.where(), f"the checker no longer iterates over every model field: {it_bad[:1]}")
        r2.require(not pin_bad, f"{chkfn.key}|nested-class-pinned", chkfn.where(),
                   "the checker compares a nested settings object only with the defaults of the object's *own* class: an instance of a subclass with different defaults "
                   "(DailySettings(split_selection=Split_Selection_Legacy_Definition())) changes developer-only values without developer_mode")
    # every class with a developer field is nested under a locked top-level class
    locked_roots = [ds] + chk.res.subclasses(ds)
    covered = set()
    def cover(cname):
        if cname in covered or cname not in census:
            return
        covered.add(cname)
        for f, rec in census[cname].items():
            if "default_factory" in rec:
                cover(rec["default_factory"])
    for c in locked_roots:
        cover(c.name)
    for cname, fields in census.items():
        if any(rec.get("developer") for rec in fields.values()):
            r2.require(cname in covered, f"class:{cname}|under-lock", cname, f"{cname} has developer-only fields but is not reachable from a class whose validator enforces developer mode")

    # ------------------------------------------------------------------ R14.3
    mc = base.attrs.get("model_config")
    cfgkw = {}
    if mc is not None and isinstance(mc[1], ast.Call):
        for k in mc[1].keywords:
            try:
                cfgkw[k.arg] = ast.literal_eval(k.value)
            except Exception:
                cfgkw[k.arg] = unparse(k.value)
    for k in ("frozen", "str_to_lower", "str_strip_whitespace"):
        r3.require(cfgkw.get(k) is True, f"{base.key}|model_config.{k}", base.module.rel, f"BaseSettings.model_config must set {k}=True; found {cfgkw.get(k)!r}")
    for mod, name in DAILY_TREE + HOURLY_TREE + OPT_TREE:
        c = chk.repo.cls(mod, name)
        r3.require(base in chk.res.mro(c), f"{c.key}|inherits-BaseSettings", c.module.rel, f"{name} does not inherit BaseSettings (not frozen / not normalised)")
        for k in chk.res.mro(c):
            if k is base:
                break
            own = k.attrs.get("model_config")
            if own is not None:
                t = unparse(own[1])
                r3.require("frozen=False" not in t and "str_to_lower=False" not in t, f"{k.key}|model_config-override", k.module.rel, f"{k.name} overrides model_config: {t}")
    kv = [m for m in base.methods.values() if any("validator" in d and "before" in d for d in m.decorators)]
    r3.require(len(kv) >= 2, f"{base.key}|normalising-validators", base.module.rel, "BaseSettings must keep its key-lowercasing and value-lowercasing before-validators")
    _normalisation_by_interpretation(chk, r3, base)

    # ------------------------------------------------------------------ R14.4
    want = {"opendsm.eemeter.models.daily.model:DailyModel._fit_components", "opendsm.eemeter.models.daily.model:DailyModel._final_fit",
            "opendsm.eemeter.models.billing.model:BillingModel.to_dict", "opendsm.eemeter.models.billing.weighted_model:BillingWeightedModel.to_dict"}
    got = set()
    for fi in chk.repo.all_functions():
        if fi.module.name in (DS,):
            continue
        for n in walk_no_nested(fi.node):
            if isinstance(n, ast.Dict):
                for k, v in zip(n.keys, n.values):
                    if k is not None and (const_str(k) or "").lower().strip() == "developer_mode" and isinstance(v, ast.Constant) and v.value is True:
                        got.add(fi.key)
            if isinstance(n, ast.Assign) and isinstance(n.value, ast.Constant) and n.value.value is True:
                for t in n.targets:
                    if isinstance(t, ast.Subscript) and (const_str(t.slice) or "").lower() == "developer_mode":
                        got.add(fi.key)
            if isinstance(n, ast.keyword) and n.arg and n.arg.lower() == "developer_mode" and isinstance(n.value, ast.Constant) and n.value.value is True:
                got.add(fi.key)
    for k in sorted(got | want):
        r4.require(k in want and k in got, f"escalation|{k}", k.split(":")[0],
                   (f"{k} switches developer mode on internally; this is not one of the enumerated escalation sites" if k not in want else f"enumerated escalation site {k} is gone (update the table)"))
    ff = chk.repo.func("opendsm.eemeter.models.daily.model", "DailyModel._final_fit")
    reattach = any(isinstance(s, ast.Assign) and unparse(s.value) == "self.settings" and unparse(s.targets[0]).endswith(".settings") for s in walk_no_nested(ff.node))
    r4.require(reattach, f"{ff.key}|reattach-user-settings", ff.where(), "_final_fit must re-attach the user's settings to each fitted component (the escalated copy must not leak)")

    # ------------------------------------------------------------------ R14.5
    # read off the interpreted writers (rules/daily_roundtrip.py, rules/hourly_roundtrip.py): what is stored under `settings`
    from rules.common import DAILY_MODEL, HOURLY_MODEL, method
    from rules.daily_roundtrip import round_trip as daily_rt
    dmc = chk.repo.cls(*DAILY_MODEL)
    cp = method(chk, dmc, "_create_params_from_fit_model")
    try:
        o = daily_rt(chk, dmc, cp, method(chk, dmc, "from_dict"), False)
    except Exception as e:   # an unmodelled operation: not a verdict
        raise AnalysisError(f"{cp.key}: cannot establish what is stored as settings: {e}")
    bad = o.get("raises") or (o.get("diffs") or {}).get("settings-written")
    r5.require(not bad, f"{cp.key}|settings-from-self", cp.where(), f"stored daily settings must be self.settings.model_dump(): {bad}")
    from rules.hourly_roundtrip import round_trip as hourly_rt, SCENARIOS
    hmc = chk.repo.cls(*HOURLY_MODEL)
    ht = method(chk, hmc, "to_dict")
    try:
        oh = hourly_rt(chk, ht, method(chk, hmc, "from_dict"), "STANDARDSCALER", SCENARIOS[0][0], SCENARIOS[0][1], False)
    except Exception as e:
        raise AnalysisError(f"{ht.key}: cannot establish what is stored as settings: {e}")
    badh = oh.get("raises") or (oh.get("diffs") or {}).get("settings")
    r5.require(not badh, f"{ht.key}|settings-from-self", ht.where(), f"stored hourly settings must be the model's own settings: {badh}")
