"""Shared obligation (C05 R05.4 / C09): the daily data class puts *every* calendar day of the span back as a row.

`_DailyData._compute_meter_value_df` drops the NaN usage rows, cleans what is left, and then merges in the days that are missing, so a
day without usage stays a (NaN) row of the meter frame.  The temperatures are grouped onto those rows afterwards; if a missing day is not
put back, its weather is pooled into the previous day, whose daily mean is then a multi-day mean and whose prediction changes with the
*usage* pattern.  Which days count as "already there" is decided by comparing a key of the two indexes; the key has to identify a
calendar day uniquely (year, month and day).  `dayofyear`, `day`, `strftime('%m%d')` collide across years / months.

The method is interpreted from its AST on recording values (engine.absint.Sym); the complement selection
`all_days[~K(all_days.index).isin(K'(meter.index))]` is located in the *term* that reaches the merge, whatever the locals are called, and K,
K' are classified with a small table of date keys.  An unknown key stops the analysis (exit 2)."""
from __future__ import annotations

import re
from typing import Any, Dict, List, Optional, Tuple

from engine.absint import ModuleEnv, Oracle, Sym, SymWorld, canon, explore, sym_root, sym_walk
from engine.index import AnalysisError
from engine.pyinterp import Function, Interp, InterpRaised, Stub, StubCall, Unsupported

from rules.common import DAILY_DATA


def _key_of(term: Sym) -> Tuple[Optional[str], Optional[Sym]]:
    """(description of the date key, the index it is applied to) for a term like idx.strftime('%Y%m%d') / idx.date / idx.normalize()."""
    if term._op == "call" and isinstance(term._args[0], Sym) and term._args[0]._op == "attr":
        recv, name = term._args[0]._args
        pos = term._args[1]
        if name == "strftime" and len(pos) == 1 and isinstance(pos[0], str):
            return f"strftime({pos[0]!r})", recv
        if name in ("normalize", "floor", "to_period", "round", "ceil") :
            return f"{name}({', '.join(canon(p) for p in pos)})", recv
        if name in ("tz_localize", "tz_convert", "astype", "to_series", "to_numpy", "map"):
            k, r = _key_of(recv) if isinstance(recv, Sym) else (None, None)
            return (f"{k}.{name}(..)" if k else None), r
    if term._op == "attr":
        recv, name = term._args
        if name in ("date", "dayofyear", "day_of_year", "day", "dayofweek", "day_of_week", "weekday", "month", "year", "week", "weekofyear", "quarter", "hour", "values"):
            return name, recv
    return None, None


def classify(key: str) -> str:
    """'calendar-day' (identifies year+month+day), 'collides' (different days share the key), or 'unknown'."""
    if key == "date" or key in ("normalize()", "floor('D')", "floor('d')", "floor('1D')", "to_period('D')", "to_period('d')"):
        return "calendar-day"
    m = re.match(r"strftime\('(.*)'\)$", key)
    if m:
        f = m.group(1)
        has_year = "%Y" in f or "%G" in f or "%F" in f or "%x" in f or "%c" in f or "%D" in f
        has_day = ("%m" in f and "%d" in f) or "%j" in f or "%F" in f or "%x" in f or "%c" in f or "%D" in f or ("%b" in f and "%d" in f) or ("%B" in f and "%d" in f)
        return "calendar-day" if (has_year and has_day) else "collides"
    if key in ("dayofyear", "day_of_year", "day", "dayofweek", "day_of_week", "weekday", "month", "year", "week", "weekofyear", "quarter", "hour"):
        return "collides"
    return "unknown"


def outcomes(chk) -> List[Dict[str, Any]]:
    cls = chk.repo.cls(*DAILY_DATA) if isinstance(DAILY_DATA, tuple) and len(DAILY_DATA) == 2 else None
    mod = DAILY_DATA if isinstance(DAILY_DATA, str) else DAILY_DATA[0]
    fi = chk.repo.func(mod, "_DailyData._compute_meter_value_df")
    outs: List[Dict[str, Any]] = []
    orc = Oracle()

    def run():
        w = SymWorld(orc)
        df = sym_root(w, "df")

        class _Self(Stub):
            warnings: List[Any] = []
            disqualification: List[Any] = []

        def gran(*a, **k):
            return "daily"   # the daily route: sub-daily / daily reads (billing granularity raises in the analysed code)

        cbd = chk.repo.func("opendsm.eemeter.common.data_processor_utilities", "clean_billing_daily_data")

        def clean(*a, **k):
            from rules.common import bind_like
            vals = bind_like(cbd, a, k)
            ps = [p_ for p_ in cbd.params][:2]
            return Sym(w, "call", sym_root(w, "clean_billing_daily_data"), (vals.get(ps[0]), vals.get(ps[1])), ())
        it = Interp(step_limit=200_000)
        env = ModuleEnv(chk.repo, fi.module, it, {"pd": sym_root(w, "pd"), "np": sym_root(w, "np"), "compute_minimum_granularity": StubCall(gran),
                                                  "clean_billing_daily_data": StubCall(clean)})
        me = _Self()
        me.warnings, me.disqualification = [], []
        try:
            r = Function(fi.node, env, it)(me, df)
        except InterpRaised as e:
            return {"raises": e.exc_name}
        return {"result": r}
    try:
        for tr, res in explore(run, orc, max_runs=64):
            res = dict(res)
            res["decisions"] = tr
            outs.append(res)
    except Unsupported as e:
        raise AnalysisError(f"{fi.key}: uses an operation outside the modelled subset: {e}")
    return outs


def judge(chk) -> Tuple[List[Tuple[str, str]], int]:
    """-> (findings [(key, message)], number of interpreted paths that complete the calendar)."""
    mod = DAILY_DATA if isinstance(DAILY_DATA, str) else DAILY_DATA[0]
    fi = chk.repo.func(mod, "_DailyData._compute_meter_value_df")
    bad: List[Tuple[str, str]] = []
    n_paths = 0
    for o in outcomes(chk):
        if "raises" in o:
            continue
        r = o["result"]
        if any(("empty" in t and v) for t, v in o["decisions"]):
            continue   # no usage at all: the resampled (all-NaN) frame is returned, nothing to complete
        isins = [s for s in sym_walk(r) if isinstance(s, Sym) and s._op == "call" and isinstance(s._args[0], Sym) and s._args[0]._op == "attr" and s._args[0]._args[1] == "isin"]
        txt = canon(r)
        if "date_range" not in txt:
            bad.append(("all-days-index", f"the frame returned for usage with gaps is `{txt[:200]}`: no full daily index (pd.date_range over the span) is merged in, so days without usage are not rows"))
            continue
        n_paths += 1
        if not isins:
            # merged without removing the days already present: acceptable only if the merge itself de-duplicates (outer merge on the index does)
            continue
        for s in isins:
            left, right = s._args[0]._args[0], (s._args[1][0] if s._args[1] else None)
            kl, rl = _key_of(left) if isinstance(left, Sym) else (None, None)
            kr, rr = _key_of(right) if isinstance(right, Sym) else (None, None)
            if kl is None and kr is None and isinstance(left, Sym) and isinstance(right, Sym):
                continue   # the indexes themselves are compared (exact instants): nothing is lost, at worst a day appears twice and is merged
            if (kl is None) != (kr is None) and isinstance(left, Sym) and isinstance(right, Sym):
                # one side reduced to its calendar day, the other compared as instants: the generated calendar carries the time of day of the
                # frame's first timestamp, so unless that is midnight no day matches and every day is added a second time as a missing row
                k_ = kl or kr
                bad.append((f"day-key-mismatch:{'instants' if kl is None else kl}|{'instants' if kr is None else kr}",
                            f"the days already present are matched with `{k_}` on one side and the raw timestamps on the other (`{canon(s)[:160]}`): the generated calendar keeps the time of day "
                            f"of the frame's first timestamp, so when that is not local midnight no day matches, every calendar day is added again as a row without usage, and the day counts "
                            f"of the sufficiency criteria double"))
                continue
            for k_ in (kl, kr):
                if k_ is None:
                    raise AnalysisError(f"{fi.key}: cannot classify the key used to match calendar days in `{canon(s)[:160]}`")
                c = classify(k_)
                if c == "unknown":
                    raise AnalysisError(f"{fi.key}: unknown calendar key `{k_}` in `{canon(s)[:160]}`")
                if c == "collides":
                    bad.append((f"day-key:{k_}", f"days already present are recognised by `{k_}`, which is shared by different calendar days (other years / months): a day without usage whose `{k_}` "
                                                 f"also occurs on a day with usage is not put back as a row; its weather is pooled into the previous day's mean and changes that day's prediction "
                                                 f"(`{canon(s)[:160]}`)"))
            if kl is not None and kr is not None and kl != kr:
                bad.append((f"day-key-mismatch:{kl}|{kr}", f"the two sides of the day match use different keys ({kl} vs {kr}): `{canon(s)[:160]}`"))
    return bad, n_paths
